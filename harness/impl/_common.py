"""Imported by implementation runners (executed with the repository's interpreter)."""
import json
import sys


def setup_connectors():
    from annet.hardware import hardware_connector, AnnetHardwareProvider
    from annet.rulebook import rulebook_provider_connector, DefaultRulebookProvider
    try:
        hardware_connector.set(AnnetHardwareProvider)
    except Exception:
        pass
    try:
        rulebook_provider_connector.set(DefaultRulebookProvider)
    except Exception:
        pass


def tree_json(t):
    return {k: tree_json(v) for k, v in t.items()}


def main(fn):
    payload = json.load(sys.stdin)
    out = fn(payload)
    sys.stdout.write("\n" + json.dumps(out) + "\n")
