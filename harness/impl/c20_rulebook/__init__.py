"""Second root module for rulebook functions (C20 only): `%logic=c20x.stamp` in a synthetic
rulebook resolves to c20_rulebook.c20x.stamp through the provider's root_modules."""
