"""A %logic function that writes to its rule argument in a NON-idempotent way, the most
sensitive probe for a rule dictionary that leaks from one (rule, key) call, or one job, into the
next.  Same calling convention as the shipped writers (annet.annlib.rulebook.common.
default_instead_undo, annet.rulebook.huawei.bgp.undo_commit, annet.rulebook.cisco.misc.ssh_key).
Model: coq/Model/Frame.v, WStamp."""
from annet.annlib.rulebook import common


def stamp(rule, key, diff, **_):
    rule["reverse"] = rule["reverse"] + " +"
    rule["comment"] = rule["comment"] + ["!!stamp!!"]
    rule["force_commit"] = not rule["force_commit"]
    yield from common.default(rule, key, diff)
