"""C14 implementation runner: builds RouteMap programs through the documented R.* / rule.*
builders, runs the REAL shipped generators and reports, per generator,

  * the run(device) stream consumed row by row (block path, text, which condition/action
    of which statement the row belongs to, whether it is a block header),
  * the exception class that ended the stream and the item it belongs to,
  * the outcome of the real annet.generators._run_partial_generator(use_acl=True)
    (tree after the generator's own ACL | AclError | generator error | parser error).

Attribution of rows to conditions/actions uses copies of the SingleCondition / SingleAction /
RoutingPolicyStatement objects (subclasses created here) that note the last object whose
dispatch attribute was read; an error is attributed to an item only if that object is a
local variable of a frame of the traceback.  No private generator function is called.
"""
import inspect
import sys
import warnings

from _common import main, setup_connectors, tree_json

warnings.simplefilter("ignore")
setup_connectors()

from annet.annlib.netdev.views.hardware import HardwareView  # noqa: E402
from annet.generators import _run_partial_generator, GeneratorPartialRunArgs  # noqa: E402
from annet.generators.exceptions import GeneratorError  # noqa: E402
from annet.annlib import patching, tabparser  # noqa: E402
from annet.rpl import RouteMap, R  # noqa: E402
from annet import rpl_generators as RG  # noqa: E402

try:
    from annet.generators.base import _filter_str
    from annet.lib import flatten
except Exception:  # pragma: no cover
    def _filter_str(x):
        return str(x)

    def flatten(it):
        for x in it:
            if isinstance(x, (list, tuple)):
                yield from flatten(x)
            else:
                yield x


class Dev:
    def __init__(self, model, soft, breed):
        self.hw = HardwareView(model, soft)
        self.hostname = "c14-dev"
        self.fqdn = "c14-dev.example"
        self.id = 1
        self.tags = []
        self.breed = breed

    def is_pc(self):
        return self.breed == "pc"

    def __repr__(self):
        return "<dev>"


class Storage:
    def flush_perf(self):
        return {}


DEVICES = {
    "huawei": lambda: Dev("Huawei CE6870-48S6CQ-EI", "VRP V200R001C00SPC700 + V200R001SPH002", "vrp85"),
    "arista": lambda: Dev("Arista DCS-7368", "EOS 4.29.9.1M", "arista"),
    "cumulus": lambda: Dev("Mellanox SN3700-VS2RO", "Cumulus Linux 5.4.0", "pc"),
}


# ---------------------------------------------------------------------------------------
# tracing copies


class Trace:
    cur = None          # (tag, object)


_SUB = {}


def traced(obj, tag, hooks):
    cls = type(obj)
    key = (cls, hooks)
    sub = _SUB.get(key)
    if sub is None:
        def ga(self, name, _hooks=frozenset(hooks)):
            if name in _hooks:
                Trace.cur = (object.__getattribute__(self, "_c14_tag"), self)
            return object.__getattribute__(self, name)
        sub = type("C14" + cls.__name__, (cls,), {"__getattribute__": ga})
        _SUB[key] = sub
    new = object.__new__(sub)
    new.__dict__.update(obj.__dict__)
    object.__setattr__(new, "_c14_tag", tag)
    return new


def instrument(policies):
    for pi, pol in enumerate(policies):
        stmts = []
        for si, st in enumerate(pol.statements):
            st.match.conditions = [traced(c, [pi, si, "c", i], ("field",)) for i, c in enumerate(st.match.conditions)]
            st.then.actions = [traced(a, [pi, si, "a", i], ("field",)) for i, a in enumerate(st.then.actions)]
            stmts.append(traced(st, [pi, si, "s", 0], ("number", "result", "match", "then", "name")))
        pol.statements = stmts
    return policies


def error_tag(exc):
    """tag of the item being processed when exc was raised: the last touched traced object,
    provided it is a local of some generator frame of the traceback."""
    if Trace.cur is None:
        return None
    tag, obj = Trace.cur
    tb = exc.__traceback__
    while tb is not None:
        # only frames that themselves yield rows count: a helper that merely scans the policies
        # (get_used_*_lists) is a plain function and belongs to no item
        if tb.tb_frame.f_code.co_flags & inspect.CO_GENERATOR:
            for v in tb.tb_frame.f_locals.values():
                if v is obj:
                    return tag
        tb = tb.tb_next
    return None


# ---------------------------------------------------------------------------------------
# building the program through the documented builders

OPS = {"eq": "eq", "ge": "ge", "le": "le", "lt": "lt", "gt": "gt", "between_included": "between_included"}


def build_cond(c):
    k = c[0]
    if k in ("community", "large_community", "extcommunity_rt", "extcommunity_soo", "rd"):
        return getattr(getattr(R, k), c[1])(*c[2])
    if k in ("match_v4", "match_v6"):
        ol = tuple(c[2])
        return getattr(R, k)(*c[1], or_longer=ol) if ol != (None, None) else getattr(R, k)(*c[1])
    if k == "as_path_filter":
        return R.as_path_filter(c[1])
    fac = getattr(R, k)
    v = c[2]
    if c[1] == "between_included":
        v = tuple(v)
    return getattr(fac, OPS[c[1]])(v)


def apply_call(rule, call):
    k = call[0]
    if k in ("community", "large_community", "extcommunity", "extcommunity_rt", "extcommunity_soo"):
        getattr(getattr(rule, k), call[1])(*call[2])
    elif k == "as_path":
        if call[1] == "expand_last_as":
            rule.as_path.expand_last_as(call[2])
        else:
            getattr(rule.as_path, call[1])(*call[2])
    elif k == "next_hop":
        if call[1] in ("self", "peer", "discard"):
            getattr(rule.next_hop, call[1])()
        else:
            getattr(rule.next_hop, call[1])(call[2])
    elif k in ("allow", "deny", "next", "next_policy", "set_mpls_label"):
        getattr(rule, k)()
    else:
        getattr(rule, k)(call[1])


def build_policies(prog, dev):
    rm = RouteMap()
    for pol in prog["policies"]:
        def handler(device, route, _pol=pol):
            for st in _pol["statements"]:
                conds = [build_cond(c) for c in st["conds"]]
                kw = {}
                if st.get("number") is not None:
                    kw["number"] = st["number"]
                if st.get("name") is not None:
                    kw["name"] = st["name"]
                with route(*conds, **kw) as rule:
                    for call in st["calls"]:
                        apply_call(rule, call)
        rm(handler, name=pol["name"])
    return rm.apply(dev)


def build_entities(prog):
    cl = [RG.CommunityList(name=c["name"], members=list(c["members"]), type=RG.CommunityType[c["type"]],
                           logic=RG.CommunityLogic[c["logic"]], use_regex=bool(c["use_regex"]))
          for c in prog["clists"]]
    pl = [RG.IpPrefixList(name=p["name"], members=[RG.IpPrefixListMember(m[0], or_longer=(m[1], m[2]))
                                                   for m in p["members"]])
          for p in prog["plists"]]
    af = [RG.AsPathFilter(name=a["name"], filters=list(a["filters"])) for a in prog["aspaths"]]
    rd = [RG.RDFilter(name=r["name"], number=r["number"], members=list(r["members"])) for r in prog["rdfilters"]]
    return cl, pl, af, rd


def enum_name(x):
    return getattr(x, "name", None) or str(x)


def field_name(f):
    return getattr(f, "value", None) or str(f)


def norm_policies(policies):
    out = []
    for pol in policies:
        sts = []
        for st in pol.statements:
            conds = []
            for c in st.match:
                v = c.value
                if hasattr(v, "names"):
                    v = {"names": list(v.names), "ge": v.or_longer[0], "le": v.or_longer[1]}
                elif isinstance(v, (list, tuple)):
                    v = [str(x) for x in v]
                else:
                    v = str(v)
                conds.append({"field": field_name(c.field), "op": enum_name(c.operator), "value": v})
            acts = []
            for a in st.then:
                v = a.value
                if hasattr(v, "replaced"):
                    v = {"replaced": None if v.replaced is None else list(v.replaced),
                         "added": list(v.added), "removed": list(v.removed)}
                elif hasattr(v, "prepend"):
                    v = {"set": None if v.set is None else list(v.set), "prepend": list(v.prepend),
                         "expand": list(v.expand), "delete": list(v.delete), "expand_last_as": v.expand_last_as}
                elif hasattr(v, "target"):
                    v = {"target": v.target, "addr": v.addr}
                else:
                    v = str(v)
                acts.append({"field": field_name(a.field), "type": enum_name(a.type), "value": v})
            sts.append({"number": st.number, "name": st.name, "result": enum_name(st.result),
                        "conds": conds, "acts": acts})
        out.append({"name": pol.name, "statements": sts})
    return out


# ---------------------------------------------------------------------------------------
# generators under test (subclassed as the shipped tests do)


def make_generators(vendor, policies, cl, pl, af, rd):
    class Policy(RG.RoutingPolicyGenerator):
        def get_policies(self, device):
            return policies

        def get_prefix_lists(self, device):
            return pl

        def get_community_lists(self, device):
            return cl

        def get_rd_filters(self, device):
            return rd

    class Prefix(RG.PrefixListFilterGenerator):
        def get_policies(self, device):
            return policies

        def get_prefix_lists(self, device):
            return pl

    class Community(RG.CommunityListGenerator):
        def get_policies(self, device):
            return policies

        def get_community_lists(self, device):
            return cl

    class AsPath(RG.AsPathFilterGenerator):
        def get_policies(self, device):
            return policies

        def get_as_path_filters(self, device):
            return af

    class Rd(RG.RDFilterFilterGenerator):
        def get_policies(self, device):
            return policies

        def get_rd_filters(self, device):
            return rd

    class Frr(RG.CumulusPolicyGenerator):
        def get_policies(self, device):
            return policies

        def get_prefix_lists(self, device):
            return pl

        def get_community_lists(self, device):
            return cl

        def get_as_path_filters(self, device):
            return af

    if vendor == "cumulus":
        return [("frr", Frr)]
    return [("policy", Policy), ("prefix", Prefix), ("community", Community), ("aspath", AsPath), ("rd", Rd)]


ERR = {"NotImplementedError": "NotImpl", "RuntimeError": "Runtime", "ValueError": "Value", "KeyError": "Key",
       "InvalidValueFromGenerator": "Invalid"}


def err_class(e):
    return ERR.get(type(e).__name__, "Other:" + type(e).__name__)


def consume_partial(gen, dev, tagged):
    """What PartialGenerator.__call__ does, one row at a time."""
    rows = []
    state = {"item": False}
    gen._indents = []
    gen._rows = []
    # the observation device of this runner, not an output of the generator: TreeGenerator.block() does not
    # unwind it when the stream ends with an error, and nothing in annet reads it
    gen._block_path = []
    orig = gen._append_text

    def spy(text):
        if not state["item"]:   # a block header written by TreeGenerator.block()
            rows.append({"path": list(gen._block_path[:-1]), "text": text, "hdr": True,
                         "tag": Trace.cur[0] if (tagged and Trace.cur) else None})
        return orig(text)

    gen._append_text = spy
    err = None
    Trace.cur = None
    try:
        it = gen.run(dev)
        for item in (it or ()):
            if isinstance(item, tuple):
                text = " ".join(map(_filter_str, flatten(item)))
            else:
                text = _filter_str(item)
            rows.append({"path": list(gen._block_path), "text": text, "hdr": False,
                         "tag": Trace.cur[0] if (tagged and Trace.cur) else None})
            state["item"] = True
            try:
                gen._append_text(text)
            finally:
                state["item"] = False
    except Exception as e:  # noqa
        err = {"cls": err_class(e), "tag": error_tag(e) if tagged else None, "msg": str(e)[:200]}
    finally:
        del gen._append_text
    return rows, err


def consume_cumulus(gen, dev):
    rows = []
    err = None
    Trace.cur = None
    parent = None
    try:
        for item in gen.generate_cumulus_rpl(dev):
            text = item if isinstance(item, str) else " ".join(map(str, item))
            indented = text[:1] in (" ", "\t")
            is_policy = indented or text.startswith("route-map ")
            path = [parent] if (indented and parent is not None) else []
            rows.append({"path": path, "text": text, "hdr": False,
                         "tag": Trace.cur[0] if (is_policy and Trace.cur) else None})
            if not indented and text.strip() != "!":
                parent = text
    except Exception as e:  # noqa
        err = {"cls": err_class(e), "tag": error_tag(e), "msg": str(e)[:200]}
    return rows, err


def real_runner(gen, dev):
    try:
        res = _run_partial_generator(gen, GeneratorPartialRunArgs(dev, use_acl=True))
    except GeneratorError as e:
        c = e.__cause__
        if isinstance(c, patching.AclError):
            return {"err": "Acl", "msg": str(c)[:200]}
        if isinstance(c, tabparser.ParserError):
            return {"err": "Parser", "msg": str(c)[:200]}
        return {"err": "Gen", "cause": err_class(c) if c is not None else "None"}
    except Exception as e:  # noqa
        return {"err": "Other:" + type(e).__name__, "msg": str(e)[:200]}
    if res is None:
        return {"none": True}
    return {"ok": tree_json(res.config)}


def observe_names(case, policies, pl):
    """The real name-derivation functions of entities.py, called directly: on every prefix / community
    condition of the program and on the probes of the case."""
    from annet.rpl import PrefixMatchValue
    from annet.rpl_generators.entities import PrefixListNameGenerator, mangle_united_community_list_name
    ng = PrefixListNameGenerator(pl, policies)
    pfx, mangle = [], []
    for pol in policies:
        for st in pol.statements:
            for c in st.match:
                f = field_name(c.field)
                if f in ("ip_prefix", "ipv6_prefix"):
                    for n in c.value.names:
                        pfx.append([n, c.value.or_longer[0], c.value.or_longer[1], ng.get_prefix(n, c.value).name])
                elif f in ("community", "large_community", "extcommunity_rt", "extcommunity_soo"):
                    mangle.append([list(c.value), mangle_united_community_list_name(c.value)])
    probes = case.get("probes") or {}
    for n, ge, le in probes.get("pfx", []):
        v = PrefixMatchValue(names=(n,), or_longer=(ge, le))
        pfx.append([n, ge, le, ng.get_prefix(n, v).name])
    for names in probes.get("mangle", []):
        mangle.append([list(names), mangle_united_community_list_name(list(names))])
    return {"pfx": pfx, "mangle": mangle}


# ---------------------------------------------------------------------------------------
# sessions: generator OBJECTS are built once and run for several devices in sequence, as a process that
# handles more than one device does (PartialGenerator.__call__ re-initialises _rows/_indents: objects are
# meant to be run again).  The generators read their inputs from the device they are given, so every run
# has its own policies / entity sets; each object is run twice per device (the stream consumed row by row,
# then the real _run_partial_generator), i.e. every run but the very first has a history.


def make_session_generators():
    class Policy(RG.RoutingPolicyGenerator):
        def get_policies(self, device):
            return device.c14["policies"]

        def get_prefix_lists(self, device):
            return device.c14["pl"]

        def get_community_lists(self, device):
            return device.c14["cl"]

        def get_rd_filters(self, device):
            return device.c14["rd"]

    class Prefix(RG.PrefixListFilterGenerator):
        def get_policies(self, device):
            return device.c14["policies"]

        def get_prefix_lists(self, device):
            return device.c14["pl"]

    class Community(RG.CommunityListGenerator):
        def get_policies(self, device):
            return device.c14["policies"]

        def get_community_lists(self, device):
            return device.c14["cl"]

    class AsPath(RG.AsPathFilterGenerator):
        def get_policies(self, device):
            return device.c14["policies"]

        def get_as_path_filters(self, device):
            return device.c14["af"]

    class Rd(RG.RDFilterFilterGenerator):
        def get_policies(self, device):
            return device.c14["policies"]

        def get_rd_filters(self, device):
            return device.c14["rd"]

    class Frr(RG.CumulusPolicyGenerator):
        def get_policies(self, device):
            return device.c14["policies"]

        def get_prefix_lists(self, device):
            return device.c14["pl"]

        def get_community_lists(self, device):
            return device.c14["cl"]

        def get_as_path_filters(self, device):
            return device.c14["af"]

    partial = [("policy", Policy(Storage())), ("prefix", Prefix(Storage())), ("community", Community(Storage())),
               ("aspath", AsPath(Storage())), ("rd", Rd(Storage()))]
    return {"partial": partial, "frr": [("frr", Frr())]}


def run_in_session(case, objs):
    """what one() does for a case, on the generator objects of the session"""
    vendor = case["vendor"]
    dev = DEVICES[vendor]()
    try:
        policies = build_policies(case, dev)
        cl, pl, af, rd = build_entities(case)
    except Exception as e:  # noqa
        return {"build_error": type(e).__name__ + ":" + str(e)[:200]}
    prog = norm_policies(policies)
    names = observe_names(case, policies, pl)
    policies = instrument(policies)
    dev.c14 = {"policies": policies, "cl": cl, "pl": pl, "af": af, "rd": rd}
    gens = {}
    if vendor == "cumulus":
        for name, g in objs["frr"]:
            rows, err = consume_cumulus(g, dev)
            gens[name] = {"rows": rows, "err": err, "runner": {"none": True}}
    else:
        for name, g in objs["partial"]:
            if not g.supports_device(dev):
                gens[name] = {"rows": [], "err": None, "runner": real_runner(g, dev)}
                continue
            rows, err = consume_partial(g, dev, tagged=(name == "policy"))
            gens[name] = {"rows": rows, "err": err, "runner": real_runner(g, dev)}
    return {"prog": prog, "gens": gens, "names": names}


def session(case):
    import logging
    logging.disable(logging.CRITICAL)
    objs = make_session_generators()
    runs = []
    for c in case["session"]:
        fresh = one(c)                       # new objects, run once: the reference for "no history"
        runs.append({"fresh": fresh, "run": run_in_session(c, objs)})
    return {"session": runs}


def one(case):
    import logging
    logging.disable(logging.CRITICAL)
    if "session" in case:
        return session(case)
    vendor = case["vendor"]
    dev = DEVICES[vendor]()
    try:
        policies = build_policies(case, dev)
        cl, pl, af, rd = build_entities(case)
    except Exception as e:  # noqa   (a builder refused the program: not an input of the generators)
        return {"build_error": type(e).__name__ + ":" + str(e)[:200]}
    prog = norm_policies(policies)
    names = observe_names(case, policies, pl)
    policies = instrument(policies)
    gens = {}
    for name, cls in make_generators(vendor, policies, cl, pl, af, rd):
        if vendor == "cumulus":
            rows, err = consume_cumulus(cls(), dev)
            gens[name] = {"rows": rows, "err": err, "runner": {"none": True}}
            continue
        g = cls(Storage())
        if not g.supports_device(dev):
            gens[name] = {"rows": [], "err": None, "runner": real_runner(cls(Storage()), dev)}
            continue
        rows, err = consume_partial(g, dev, tagged=(name == "policy"))
        gens[name] = {"rows": rows, "err": err, "runner": real_runner(cls(Storage()), dev)}
    return {"prog": prog, "gens": gens, "names": names}


if __name__ == "__main__":
    main(lambda cases: [one(c) for c in cases])
