"""Shipped rulebooks, as the real provider renders and compiles them (C01 / C08 / Src_rules.v).

Payload {"op": "render", "hw": [model strings]}
    per hardware string: vendor, reverse prefix, exit word, the vendor's default diff-logic names, and for each
    kind (rul, order, deploy) the file name the provider asks for, whether it exists, the text
    DefaultRulebookProvider()._render_rul returns and the tree of raw rule lines
    tabparser.parse_to_tree(text, syntax._split_rows, ["#"]) builds from it (what syntax.parse_text walks).
    Nothing of a rule line is interpreted here.
    Also "logic_names": for every dotted name N that import_rulebook_function resolves and that occurs as a
    `%logic=` / `%diff_logic=` value in a rendered text, the canonical name of the function object (module
    path below annet.rulebook / annet.annlib.rulebook + function name), and "logic_alias": the vendor logic
    functions whose whole body is `yield from common.F(rule, key, diff, **kw)` (read with ast from the module
    source), as name -> "common.F".
Payload {"op": "compiled", "hw": [...]}
    per hardware string the rulebook get_rulebook(hw) returns, reduced to what the model keeps:
    patching: [raw, type, global?, logic, diff_logic, reverse, parent, multiline, force_commit, ignore_case,
               regexp.pattern, children(local), children(global)] in dict order, local and global;
    ordering: [raw, order_reverse, global, scope, direct pattern, reverse pattern, children];
    deploying: [raw, regexp.pattern, timeout, apply_logic, ifcontext, n_dialogs, children].
"""
import ast
import inspect
import re

from _common import main, setup_connectors

setup_connectors()

from annet.annlib import tabparser  # noqa: E402
from annet.annlib.netdev.views.hardware import HardwareView  # noqa: E402
from annet.annlib.rbparser import syntax  # noqa: E402
from annet.annlib.rbparser.platform import VENDOR_ALIASES  # noqa: E402
from annet.rulebook import DefaultRulebookProvider  # noqa: E402
from annet.rulebook.common import import_rulebook_function  # noqa: E402
from annet.vendors import registry_connector  # noqa: E402

_provider = DefaultRulebookProvider()


def _fname(f):
    mod = f.__module__
    for pre in ("annet.annlib.rulebook.", "annet.rulebook."):
        if mod.startswith(pre):
            mod = mod[len(pre):]
            break
    return mod + "." + f.__name__


def _raw_tree(text):
    def conv(t):
        return [[k, conv(v)] for k, v in t.items()]
    return conv(tabparser.parse_to_tree(text, syntax._split_rows, ["#"]))


def _alias_of(fn):
    """'common.F' when the body of fn is exactly `yield from common.F(rule, key, diff, **kw)`."""
    try:
        src = inspect.getsource(fn)
        node = ast.parse(inspect.cleandoc("\n" + src) if src.startswith((" ", "\t")) else src).body[0]
    except Exception:  # noqa
        return None
    if not isinstance(node, ast.FunctionDef):
        return None
    body = [s for s in node.body if not (isinstance(s, ast.Expr) and isinstance(s.value, ast.Constant))]
    if len(body) != 1 or not isinstance(body[0], ast.Expr) or not isinstance(body[0].value, ast.YieldFrom):
        return None
    call = body[0].value.value
    if not (isinstance(call, ast.Call) and isinstance(call.func, ast.Attribute)
            and isinstance(call.func.value, ast.Name) and call.func.value.id == "common"):
        return None
    params = [a.arg for a in node.args.args]
    if params[:3] != ["rule", "key", "diff"] or node.args.vararg or node.args.kwonlyargs or node.args.defaults:
        return None
    args = [a.id for a in call.args if isinstance(a, ast.Name)]
    if len(args) != len(call.args) or args != ["rule", "key", "diff"]:
        return None
    kw = node.args.kwarg.arg if node.args.kwarg else None
    for k in call.keywords:
        if k.arg is not None or not isinstance(k.value, ast.Name) or k.value.id != kw:
            return None
    # the name `common` of that module must be the common rulebook module
    mod = inspect.getmodule(fn)
    target = getattr(getattr(mod, "common", None), call.func.attr, None)
    try:
        if target is None or target is not import_rulebook_function("common." + call.func.attr):
            return None
    except ImportError:
        return None
    return "common." + call.func.attr


def op_render(hws):
    out = []
    names = {}
    alias = {}
    for hw_str in hws:
        hw = HardwareView(hw_str, "")
        vendor = hw.vendor
        reg = registry_connector.get()
        if vendor not in reg:
            out.append({"hw": hw_str, "exc": f"unknown vendor {vendor!r}"})
            continue
        rul_vendor = VENDOR_ALIASES.get(vendor, vendor)
        ent = {"hw": hw_str, "vendor": vendor, "rul_vendor": rul_vendor, "reverse": reg[vendor].reverse,
               "rul_reverse": reg[rul_vendor].reverse, "exit": reg[vendor].exit,
               "diff": reg[rul_vendor].diff(False), "diff_ordered": reg[rul_vendor].diff(True), "kinds": {}}
        for kind, fname in (("rul", rul_vendor + ".rul"), ("order", vendor + ".order"), ("deploy", vendor + ".deploy")):
            try:
                text = _provider._render_rul(fname, hw)
                present = True
            except FileNotFoundError:
                if kind == "rul":
                    raise
                text, present = "", False
            ent["kinds"][kind] = {"file": fname, "present": present, "text": text, "tree": _raw_tree(text)}
            for m in re.finditer(r"%(?:diff_)?logic=(\S+)", text):
                n = m.group(1)
                if n not in names:
                    try:
                        f = import_rulebook_function(n)
                        names[n] = _fname(f)
                        a = _alias_of(f)
                        if a is not None:
                            alias[n] = a
                    except Exception as e:  # noqa
                        names[n] = None
        for n in (ent["diff"], ent["diff_ordered"], "common.default", "common.ordered", "common.rewrite",
                  "common.rewrite_diff", "common.multiline_diff"):
            if n not in names:
                names[n] = _fname(import_rulebook_function(n))
        out.append(ent)
    return {"hw": out, "logic_names": names, "logic_alias": alias}


def _pat(r):
    return r.pattern if r is not None else None


def op_compiled(hws):
    from annet.rulebook import get_rulebook
    res = []
    for hw_str in hws:
        hw = HardwareView(hw_str, "")
        try:
            rb = get_rulebook(hw)
        except Exception as e:  # noqa
            res.append({"hw": hw_str, "exc": type(e).__name__ + ": " + str(e)[:300]})
            continue

        def pwalk(rs):
            def one(raw, rule, is_global):
                a = rule["attrs"]
                ch = rule["children"] or {"local": {}, "global": {}}
                if rule["type"] == "ignore":
                    return {"raw": raw, "type": "ignore", "global": is_global, "logic": None,
                            "diff_logic": _fname(a["diff_logic"]), "reverse": None, "parent": bool(a["parent"]),
                            "multiline": False, "force_commit": False,
                            "ignore_case": bool(a["regexp"].flags & re.IGNORECASE), "pattern": a["regexp"].pattern,
                            "kl": [], "kg": []}
                return {"raw": raw, "type": rule["type"], "global": is_global, "logic": _fname(a["logic"]),
                        "diff_logic": _fname(a["diff_logic"]), "reverse": a["reverse"], "parent": bool(a["parent"]),
                        "multiline": bool(a["multiline"]), "force_commit": bool(a["force_commit"]),
                        "ignore_case": bool(a["ignore_case"]), "pattern": a["regexp"].pattern,
                        "kl": [one(k, v, False) for k, v in ch["local"].items()],
                        "kg": [one(k, v, True) for k, v in ch["global"].items()]}
            return {"local": [one(k, v, False) for k, v in rs["local"].items()],
                    "global": [one(k, v, True) for k, v in rs["global"].items()]}

        def owalk(o):
            return [{"raw": raw, "orev": bool(r["attrs"]["order_reverse"]), "global": bool(r["attrs"]["global"]),
                     "scope": r["attrs"]["scope"], "direct": r["attrs"]["direct_regexp"].pattern,
                     "reverse": r["attrs"]["reverse_regexp"].pattern, "kids": owalk(r["children"])}
                    for raw, r in o.items()]

        def dwalk(d):
            out = []
            for raw, r in d.items():
                a = r["attrs"]
                out.append({"raw": raw, "pattern": a["regexp"].pattern, "timeout": a.get("timeout"),
                            "ifcontext": list(a.get("ifcontext") or []),
                            "dialogs": len(a.get("dialogs") or {}),
                            "kids": dwalk(r["children"])})
            return out

        res.append({"hw": hw_str, "patching": pwalk(rb["patching"]), "ordering": owalk(rb["ordering"]),
                    "deploying": dwalk(rb["deploying"])})
    return res


def op_quiet(jobs):
    """no removal command of the patching rule row pp (sample keys) is matched by the ordering row po"""
    from annet.rulebook import patching as rb_patching
    keysets = [["1"] * 8, ["Eth1", "10", "a", "b", "c", "d", "e", "f"], ["x y", "10.0.0.1", "z", "1", "2", "3", "4", "5"]]
    hits, pairs, cmds = [], 0, 0
    for j in jobs:
        regs = [(po, syntax.compile_row_regexp(po)) for po in j["pos"]]
        for pp in j["pps"]:
            tmpl = rb_patching._make_reverse(pp, j["prefix"])
            made = []
            for ks in keysets:
                try:
                    made.append(tmpl.format(*ks))
                except Exception:  # noqa
                    pass
            cmds += len(made)
            for po, rx in regs:
                pairs += 1
                for cmd in made:
                    if rx.match(cmd):
                        hits.append({"hw": j["hw"], "po": po, "pp": pp, "cmd": cmd})
                        break
    return {"pairs": pairs, "commands": cmds, "hits": hits}


def entry(payload):
    if payload["op"] == "quiet":
        return op_quiet(payload["jobs"])
    if payload["op"] == "render":
        return op_render(payload["hw"])
    if payload["op"] == "compiled":
        return op_compiled(payload["hw"])
    raise ValueError(payload["op"])


if __name__ == "__main__":
    main(entry)
