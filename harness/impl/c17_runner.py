"""Runs the real annet.implicit / merge_dicts / _diff_and_patch for C17.

payload: {"mode": "tables", "devices": [[name, model, [tags], [hw attribute chains]], ...]}
         -> [{name, model, tags, vendor, reverse, text, tree}]       (tree = implicit._implicit_tree(device))
payload: [case, ...]  with case one of
  {"kind": "hw",   "model", "tags", "tree"}                  completion of one tree with the device's rules
  {"kind": "text", "rules_text", "tree"}                     completion with compile_tree(parse_text(rules_text))
  {"kind": "pipe", ("model","tags") | "rules_text", "vendor", "old", "new",
                   "shipped": bool | ("patching","ordering")}  both sides completed, then _diff_and_patch
  {"kind": "pipe", "gen": true, "model", "tags", "old", "new"}  old/new as the real annet.gen._old_new_per_device
                   returns them with add_implicit off (t, u) and on (m_old, m_new)
out : {"rules": parsed rule tree, "m": t+implicit(t), "m2": m+implicit(m), ...} or {"err": enum}
"""
import re
import sys
from collections import OrderedDict as odict
from types import SimpleNamespace

from _common import main, tree_json
from annet.hardware import hardware_connector, AnnetHardwareProvider
from annet.rulebook import rulebook_provider_connector, DefaultRulebookProvider

OVERRIDE = {}


class SynthProvider(DefaultRulebookProvider):
    def get_rulebook(self, hw):
        if "rb" in OVERRIDE:
            return OVERRIDE["rb"]
        return super().get_rulebook(hw)


hardware_connector.set(AnnetHardwareProvider)
rulebook_provider_connector.set(SynthProvider)

from annet import api, implicit, rulebook  # noqa: E402
from annet.annlib import tabparser  # noqa: E402
from annet.annlib.lib import merge_dicts  # noqa: E402
from annet.annlib.netdev.views.hardware import HardwareView  # noqa: E402
from annet.annlib.rbparser.ordering import compile_ordering_text  # noqa: E402
from annet.rulebook.patching import compile_patching_text  # noqa: E402
from annet.rulebook.deploying import compile_deploying_text  # noqa: E402
from annet.vendors import registry_connector  # noqa: E402


def to_odict(t):
    return odict((k, to_odict(v)) for k, v in t.items())


def device(model, tags):
    return SimpleNamespace(hw=HardwareView(model, ""), tags=list(tags))


def rules_json(tree):
    return [{"raw": raw, "row": a["row"], "ign": a["type"] == "ignore", "kids": rules_json(a["children"])}
            for raw, a in tree.items()]


def tables(devs):
    out = []
    for name, model, tags, *rest in devs:
        dev = device(model, tags)
        attrs = {}
        for chain in (rest[0] if rest else []):
            x = dev.hw
            for part in chain.split("."):
                x = getattr(x, part)
            attrs[chain] = bool(x)
        captured = []
        real_parse = implicit.parse_text

        def capture(text, _c=captured, _p=real_parse):
            _c.append(text)
            return _p(text)
        implicit.parse_text = capture
        try:
            tree = implicit._implicit_tree(dev)
        finally:
            implicit.parse_text = real_parse
        vendor = dev.hw.vendor
        rev = registry_connector.get()[vendor].reverse if vendor else ""
        out.append({"name": name, "model": model, "tags": list(tags), "vendor": vendor, "reverse": rev, "attrs": attrs,
                    "text": captured[0] if len(captured) == 1 else None, "tree": rules_json(tree)})
    return out


def parsed_and_rules(case):
    """-> (parsed rule tree, compiled rules)"""
    if "rules_text" in case:
        parsed = implicit.parse_text(case["rules_text"])
        return parsed, implicit.compile_tree(parsed)
    dev = device(case["model"], case.get("tags", []))
    parsed = implicit._implicit_tree(dev)
    # the public entry point; compile_tree(parsed) must be the same thing
    return parsed, implicit.compile_rules(dev)


def complete(t, rules):
    # annet/gen.py: old = merge_dicts(old, implicit.config(old, implicit_rules))
    return merge_dicts(t, implicit.config(t, rules))


class _Dev:
    """device stub for annet.gen._old_new_per_device"""

    def __init__(self, model, tags):
        self.hw = HardwareView(model, "")
        self.tags = list(tags)
        self.hostname, self.fqdn, self.id, self.breed = "c17", "c17.example", 17, "c17"
        self.storage = SimpleNamespace(flush_perf=lambda: {})      # run_partial_initial (empty device text)

    def is_pc(self):
        return False

    def __hash__(self):
        return 17

    def __eq__(self, other):
        return self is other


def _tree_text(t, ind=0):
    out = []
    for k, v in t.items():
        out.append("  " * ind + k)
        out += _tree_text(v, ind + 1)
    return out


def through_gen(case):
    """old/new as the real annet.gen._old_new_per_device returns them, without and with
    add_implicit: device text = the tree `old` printed, one partial generator yielding `new`"""
    from annet import gen
    from annet.generators import PartialGenerator

    class TreeGen(PartialGenerator):
        TAGS = ["c17"]

        def __init__(self, storage, tree):
            super().__init__(storage)
            self.tree = tree

        def supports_device(self, device):
            return True

        def acl(self, device):
            return ""

        def run(self, device):
            def walk(t):
                for k, v in t.items():
                    if v:
                        with self.block(k):
                            yield from walk(v)
                    else:
                        yield (k,)
            yield from walk(self.tree)

    outs = []
    for add in (False, True):
        dev = _Dev(case["model"], case.get("tags", []))
        storage = SimpleNamespace(flush_perf=lambda: {})
        args = SimpleNamespace(no_acl=True, no_acl_exclusive=False, acl_safe=False, profile=False,
                               fail_on_empty_config=False, generators_context=None, required_packages_check=False,
                               filter_acl=None, filter_ifaces=None, filter_peers=None, filter_policies=None)
        gens = gen.DeviceGenerators(partial={dev: [TreeGen(storage, case["new"])]}, ref={dev: []}, entire={dev: []},
                                    json_fragment={dev: []})
        ctx = gen.OldNewDeviceContext(
            config="running", args=args, downloaded_files={}, failed_files={},
            running={dev: "\n".join(_tree_text(case["old"]))}, failed_running={}, no_new=False, stdin=None,
            add_annotations=False, add_implicit=add, do_files_download=False, gens=gens, fetched_packages={},
            failed_packages={}, device_count=1, do_print_perf=False)
        res = gen._old_new_per_device(ctx, dev, None)
        if res.err is not None:
            raise res.err
        outs.append((tree_json(res.old), tree_json(res.new)))
    return outs


def diff_json(d):
    out = []
    for (op, row, children, match) in d:
        out.append({"op": op, "row": row, "raw": (match or {}).get("raw_rule", ""),
                    "key": list((match or {}).get("key", ()) or ()), "kids": diff_json(children)})
    return out


def sk_json(sk):
    if not sk:
        return None
    n = sk[0]
    return ["inf" if n == float("inf") else ("-inf" if n == float("-inf") else int(n)), sk[1], bool(sk[2])]


def patch_json(p):
    return [{"row": str(i.row), "child": None if i.child is None else patch_json(i.child), "sk": sk_json(i.sort_key)}
            for i in p.itms]


def one(case):
    res = {}
    try:
        try:
            parsed, rules = parsed_and_rules(case)
        except tabparser.ParserError:
            return {"err": "ParserError"}
        except re.error:
            return {"err": "re.error"}
        res["rules"] = rules_json(parsed)
        if case["kind"] in ("hw", "text"):
            t = to_odict(case["tree"])
            imp = implicit.config(t, rules)
            m = merge_dicts(t, imp)
            res["imp"] = tree_json(imp)
            res["m"] = tree_json(m)
            res["m2"] = tree_json(complete(m, rules))
            res["tree_after"] = tree_json(t) == case["tree"]
            return res
        gen_mode = bool(case.get("gen"))
        if gen_mode:
            (t, u), (mt, mu) = through_gen(case)
            res.update({"t": t, "u": u})
            m_old, m_new = to_odict(mt), to_odict(mu)
        # pipeline
        if not gen_mode:
            old, new = to_odict(case["old"]), to_odict(case["new"])
            m_old, m_new = complete(old, rules), complete(new, rules)
        res["m_old"], res["m_new"] = tree_json(m_old), tree_json(m_new)
        if case.get("shipped") or gen_mode:
            OVERRIDE.pop("rb", None)
            hw = HardwareView(case["model"], "")
            vendor = hw.vendor
            rb = rulebook.get_rulebook(hw)
        else:
            vendor = case["vendor"]
            hw = HardwareView(case["hw"], "")
            rb = {"patching": compile_patching_text(case["patching"], vendor),
                  "ordering": compile_ordering_text(case.get("ordering", ""), vendor),
                  "deploying": compile_deploying_text("", vendor)}
            OVERRIDE["rb"] = rb
        res["vendor"] = vendor
        res["reverse"] = registry_connector.get()[vendor].reverse
        fmt = registry_connector.get()[vendor].make_formatter()
        dev = SimpleNamespace(hw=hw, tags=list(case.get("tags", [])))
        try:
            d, p = api._diff_and_patch(dev, m_old, m_new, None, None, False, rb=rb)
            res["diff"] = diff_json(d)
            res["patch"] = patch_json(p)
            res["cmd_paths"] = [[str(x) for x in k] for k in fmt.cmd_paths(p).keys()]
        except AssertionError:
            res["err"] = "AssertionError"
        except Exception as e:  # noqa
            res["err"] = type(e).__name__ + ":" + str(e)[:200]
    except Exception:  # noqa
        import traceback
        res["fatal"] = traceback.format_exc()[-1500:]
    return res


def run(payload):
    if isinstance(payload, dict) and payload.get("mode") == "tables":
        return tables(payload["devices"])
    return [one(c) for c in payload]


if __name__ == "__main__":
    main(run)
