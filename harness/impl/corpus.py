"""Shipped before/after corpus (tests/annet/test_patch/*.yaml) as (hw model, vendor, old tree, new tree)."""
import glob
import os
from collections import OrderedDict as odict

import yaml

import annet  # noqa
from annet import tabparser
from annet.annlib.netdev.views.hardware import HardwareView
from annet.vendors import registry_connector

HW_STUB = {
    "cisco": "Cisco Catalyst", "nexus": "Cisco Nexus", "asr": "Cisco ASR", "iosxr": "Cisco XR", "huawei": "Huawei",
    "huawei ce": "Huawei CE0000", "juniper": "Juniper", "routeros": "RouterOS", "aruba": "Aruba", "arista": "Arista",
    "nokia": "Nokia", "pc": "PC", "ribbon": "Ribbon", "optixtrans": "Huawei OptiXtrans DC908", "b4com": "B4com", "h3c": "H3C",
}


def expand_diff(diff, splitter):
    def node(n, sign=0):
        r1, r2 = odict(), odict()
        for line, children in n.items():
            line = line.strip()
            ls = 0
            if line.startswith("-") or line.startswith("+"):
                ls = 1 if line[0] == "+" else -1
                line = line[1:].strip()
            s1, s2 = node(children, ls)
            if ls != 1:
                r1[line] = s1
            if ls != -1:
                r2[line] = s2
        return r1, r2
    return node(tabparser.parse_to_tree(text=diff, splitter=splitter))


def samples(repo_root):
    out = []
    for f in sorted(glob.glob(os.path.join(repo_root, "tests", "annet", "test_patch", "*.yaml"))):
        data = yaml.load(open(f), Loader=yaml.BaseLoader)
        if not isinstance(data, list):
            data = [data]
        for i, s in enumerate(data, 1):
            vend = s.get("vendor", "huawei").lower()
            if vend not in HW_STUB:
                continue
            hwm = HW_STUB[vend]
            hw = HardwareView(hwm, None)
            fmt = registry_connector.get().match(hw).make_formatter()
            try:
                if "diff" in s:
                    old, new = expand_diff(s["diff"], fmt.split)
                else:
                    old = tabparser.parse_to_tree(text=s["before"], splitter=fmt.split)
                    new = tabparser.parse_to_tree(text=s["after"], splitter=fmt.split)
            except Exception:  # noqa
                continue
            out.append({"name": f"{os.path.basename(f)}#{i}", "hw": hwm, "vendor": hw.vendor, "old": old, "new": new})
    return out
