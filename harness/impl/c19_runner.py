"""C19 runner: drives the REAL run_file_generators(...).new_files(), PCDeployerJob.parse_result and
pc_diff/UnifiedFileDiffer on synthesised Entire generator classes.

case  = {"gens": [{"path","prio","out","reload","safe"[,"kind"]}...]  (listing order),
         kind (default "ok"): how the generator class behaves for the device
           ok          run() returns the text            ok_yield   run() yields the lines of the text
           unsupported supports_device() is False        path_none  path() returns None
           path_nsd    path() raises NotSupportedDevice
           nsd         run() raises NotSupportedDevice   nsd_late   run() yields a line, then raises it
           run_none    run() returns None (Entire.__call__ raises: the whole run fails)
         "etck": bool, "safe": bool, "old": {path: str|None}, "mode": "no"|"yes"|"force"}
reply = {"new": [[path, output, reload]...], "new_safe": [...],
         "deploy": None | {"files": [[path, text]...], "cmds": [[path, text]...]},
         "diff": [[path, is_new]...]}            or {"exc": "Type:message"}
"""
import os
from types import SimpleNamespace

from _common import main, setup_connectors

setup_connectors()

import annet.deploy  # noqa: E402
import annet.diff  # noqa: E402
from annet import cli_args  # noqa: E402
from annet.annlib.command import CommandList  # noqa: E402
from annet.annlib.netdev.views.hardware import HardwareView  # noqa: E402
from annet.annlib.output import LABEL_NEW_PREFIX  # noqa: E402
from annet.api import DeployerJob, PCDeployerJob  # noqa: E402
from annet.generators import Entire, NotSupportedDevice, run_file_generators  # noqa: E402
from annet.types import OldNewResult  # noqa: E402


class _StubDriver:
    """Deploy driver that adds no before/after commands (the shipped default driver raises)."""

    def build_configuration_cmdlist(self, hw, do_finalize=True, do_commit=True):
        return CommandList(), CommandList()

    def build_exit_cmdlist(self, hw):
        return CommandList()

    def apply_deploy_rulebook(self, hw, cmd_paths, do_finalize=True, do_commit=True):
        raise NotImplementedError

    async def bulk_deploy(self, deploy_cmds, args, progress_bar=None):
        raise NotImplementedError


annet.deploy.get_deployer = lambda: _StubDriver()
# the differ the annet entry point installs (annet/annet.py: file_differ_connector.set(UnifiedFileDiffer))
annet.diff.file_differ_connector._classes = [annet.diff.UnifiedFileDiffer]
annet.diff.file_differ_connector._cache = None

_STORAGE = SimpleNamespace(flush_perf=lambda: {})
HOSTNAME = "pc1"


class _Device:
    def __init__(self, etck):
        self.hw = HardwareView("PC", "Cumulus 4.2" if etck else "")
        self.hostname = HOSTNAME
        self.fqdn = HOSTNAME + ".example"
        self.id = 1
        self.breed = "pc"
        self.tags = []

    def is_pc(self):
        return True

    def __hash__(self):
        return 1

    def __eq__(self, other):
        return self is other


def make_gen(idx, spec):
    path, prio, out, reload, safe = spec["path"], spec["prio"], spec["out"], spec["reload"], spec["safe"]

    kind = spec.get("kind", "ok")

    def _path(self, device):
        if kind == "path_none":
            return None
        if kind == "path_nsd":
            raise NotSupportedDevice("path of Gen%d" % idx)
        return path

    def _run(self, device):
        if kind == "nsd":
            raise NotSupportedDevice("Gen%d" % idx)
        if kind == "run_none":
            return None
        return out

    def _run_lines(self, device):
        lines = out.split("\n")
        yield lines[0]
        if kind == "nsd_late":
            raise NotSupportedDevice("Gen%d" % idx)
        for ln in lines[1:]:
            yield ln

    def _reload(self, device):
        if reload == "":
            return None if prio % 2 == 0 else ""
        return reload

    def _is_safe(self, device):
        return safe

    ns = {"path": _path, "run": _run_lines if kind in ("ok_yield", "nsd_late") else _run, "reload": _reload,
          "is_safe": _is_safe, "prio": prio}
    if kind == "unsupported":
        ns["supports_device"] = lambda self, device: False
    cls = type("Gen%d" % idx, (Entire,), ns)
    return cls(_STORAGE)


MODES = {"no": cli_args.EntireReloadFlag.no, "yes": cli_args.EntireReloadFlag.yes,
         "force": cli_args.EntireReloadFlag.force}


def one(case):
    try:
        dev = _Device(case["etck"])
        assert dev.hw.vendor == "pc"
        gens = [make_gen(i, g) for i, g in enumerate(case["gens"])]
        res = run_file_generators(gens, dev)
        new = res.new_files()
        new_safe = res.new_files(safe=True)
        old = dict(case["old"])
        onr = OldNewResult(device=dev, old_files=dict(old), new_files=dict(new), safe_new_files=dict(new_safe))
        args = SimpleNamespace(entire_reload=MODES[case["mode"]], acl_safe=case["safe"])
        job = DeployerJob.from_device(dev, args)
        assert isinstance(job, PCDeployerJob)
        job.parse_result(onr)
        deploy = None
        if dev in job.deploy_cmds:
            d = job.deploy_cmds[dev]
            deploy = {"files": [[p, b.decode()] for p, b in d["files"].items()],
                      "cmds": [[p, b.decode()] for p, b in d["cmds"].items()]}
        if (deploy is not None) != bool(job.has_diff()):
            return {"exc": "Inconsistent:has_diff=%r deploy_cmds=%r" % (job.has_diff(), deploy)}
        sel = onr.get_new_files(case["safe"])
        diff = []
        for f in annet.diff.pc_diff(dev.hw, HOSTNAME, dict(old), dict(sel)):
            label = f.label
            is_new = label.startswith(LABEL_NEW_PREFIX)
            if is_new:
                label = label[len(LABEL_NEW_PREFIX):]
            prefix = HOSTNAME + os.sep
            if not label.startswith(prefix) or not f.diff_lines:
                return {"exc": "Label:%r" % f.label}
            diff.append([label[len(prefix):], is_new])
        return {"new": [[p, o, r] for p, (o, r) in new.items()],
                "new_safe": [[p, o, r] for p, (o, r) in new_safe.items()],
                "deploy": deploy, "diff": diff}
    except Exception as e:  # noqa
        return {"exc": type(e).__name__ + ":" + str(e)[:200]}


main(lambda cases: [one(c) for c in cases])
