"""C16: both real front ends on the same (hw, old, new).
payload: {"mode": "corpus", "pairs": n_cross, "seed": s, "shard": [k, n], "files": bool}
      or {"mode": "synthetic", "cases": [...]}  (handled by pipeline_runner with file_mode)"""
import copy
import os
import random
import tempfile
from types import SimpleNamespace

import pipeline_runner  # sets connectors (SynthProvider)  # noqa
from pipeline_runner import diff_json, patch_json, OVERRIDE
from _common import main, tree_json
import corpus
from annet import api
from annet.annlib.netdev.views.hardware import HardwareView
from annet.vendors import registry_connector


# concrete models behind the corpus's vendor-level stubs: rulebook texts and logic functions branch on the model
# (%if hw.Huawei.CE, hw.Huawei.NE, hw.Quidway, hw.Cisco.C2960 ...), and both front ends must use the SAME one
MODELS = {
    "Huawei": ["Huawei CE6870", "Huawei NE40E", "Huawei S5700", "Huawei Quidway S2350"],
    "Huawei CE0000": ["Huawei CE6870", "Huawei CE8850"],
    "Cisco Catalyst": ["Cisco Catalyst 2960", "Cisco WS-C3750", "Cisco Catalyst 3650"],
    "Cisco Nexus": ["Cisco Nexus 9316", "Cisco Nexus 3432", "Cisco Nexus 9504"],
    "Cisco ASR": ["Cisco ASR 9000"],
    "Arista": ["Arista DCS-7280"],
    "Juniper": ["Juniper MX960", "Juniper QFX5100"],
    "Aruba": ["Aruba AP-515"],
}

STATS = {"via_files": 0, "direct": 0}


def _file_front_end(hwm, old, new, fmt):
    """The real file front end as file_patch_worker runs it: both configurations are written to files, read
    back with api._read_old_new_hw(args.hw = the model string) and handed to _read_old_new_diff_patch with
    the hardware that reader returns.  Only when the vendor text round-trips (C04's domain); None otherwise."""
    try:
        to, tn = fmt.join(old), fmt.join(new)
    except Exception:  # noqa
        return None
    with tempfile.TemporaryDirectory(prefix="c16-") as d:
        op, np_ = os.path.join(d, "old.cfg"), os.path.join(d, "new.cfg")
        with open(op, "w") as f:
            f.write(to)
        with open(np_, "w") as f:
            f.write(tn)
        try:
            _, o2, n2, hw2 = api._read_old_new_hw(op, np_, SimpleNamespace(hw=hwm))
        except Exception:  # noqa
            return None
    if o2 != old or n2 != new:
        return None
    return o2, n2, hw2


def both(hwm, old, new):
    OVERRIDE.pop("rb", None)
    hw = HardwareView(hwm, None)
    fmt = registry_connector.get().match(hw).make_formatter()
    res = {}
    try:
        d, p = api._diff_and_patch(SimpleNamespace(hw=hw), copy.deepcopy(old), copy.deepcopy(new), None, None, False)
        res["dev"] = {"diff": diff_json(d), "patch": patch_json(p), "paths": [list(k) for k in fmt.cmd_paths(p).keys()]}
    except AssertionError:
        res["dev"] = {"err": "AssertionError"}
    except Exception as e:  # noqa
        res["dev"] = {"err": type(e).__name__}
    try:
        via = _file_front_end(hwm, old, new, fmt)
        if via is None:
            STATS["direct"] += 1
            o2, n2, hw2 = copy.deepcopy(old), copy.deepcopy(new), hw
        else:
            STATS["via_files"] += 1
            o2, n2, hw2 = via
        res["via_files"] = via is not None
        _, d2, pre2, p2 = api._read_old_new_diff_patch(o2, n2, hw2, False)
        fmt2 = registry_connector.get().match(hw2).make_formatter()
        res["file"] = {"diff": diff_json(d2), "patch": patch_json(p2), "paths": [list(k) for k in fmt2.cmd_paths(p2).keys()]}
    except AssertionError:
        res["file"] = {"err": "AssertionError"}
    except Exception as e:  # noqa
        res["file"] = {"err": type(e).__name__}
    return res


def run(payload):
    sm = corpus.samples(os.environ["ANNET_VERIF_REPO_ROOT"])
    k, n = payload["shard"]
    jobs = [(s["name"], s["hw"], s["old"], s["new"]) for s in sm]
    for s in sm:        # the same pairs on concrete models of the vendor
        for m in MODELS.get(s["hw"], []):
            jobs.append((f"{s['name']}@{m}", m, s["old"], s["new"]))
    # identical and merely reordered configurations: an empty diff does not imply an empty patch
    # (logic functions such as aruba.ap_env emit commands from unchanged rows)
    def reordered(t):
        return type(t)((k, t[k]) for k in reversed(list(t)))
    for s in sm:
        jobs.append((f"{s['name']}.old~same", s["hw"], s["old"], s["old"]))
        jobs.append((f"{s['name']}.new~same", s["hw"], s["new"], s["new"]))
        jobs.append((f"{s['name']}.new~reversed", s["hw"], s["new"], reordered(s["new"])))
    rng = random.Random(payload["seed"])
    by_hw = {}
    for s in sm:
        by_hw.setdefault(s["hw"], []).append(s)
    if payload.get("all_cross"):
        for hwm, l in sorted(by_hw.items()):
            for a in l:
                for b in l:
                    if a is not b:
                        jobs.append((f"{a['name']}~{b['name']}", hwm, a["old"], b["new"]))
    else:
        for _ in range(payload["pairs"]):
            hwm = rng.choice(sorted(by_hw))
            a, b = rng.choice(by_hw[hwm]), rng.choice(by_hw[hwm])
            side_a = rng.choice(["old", "new"])
            side_b = rng.choice(["old", "new"])
            hwm2 = rng.choice([hwm] + MODELS.get(hwm, []))
            jobs.append((f"{a['name']}.{side_a}~{b['name']}.{side_b}@{hwm2}", hwm2, a[side_a], b[side_b]))
    out = []
    for j, (name, hwm, old, new) in enumerate(jobs):
        if j % n != k:
            continue
        r = both(hwm, old, new)
        r.update({"name": name, "hw": hwm, "old": tree_json(old), "new": tree_json(new)})
        out.append(r)
    return out


main(run)
