"""C16: both real front ends on the same (hw, old, new).
payload: {"mode": "corpus", "pairs": n_cross, "seed": s, "shard": [k, n], "all_cross": bool}
         optional "text_share": fraction of the jobs taken through the TEXT level (see text_case),
                  "text_workers": fraction of those on which file_patch_worker / file_diff_worker run as well
      or {"mode": "synthetic", "cases": [...]}  (handled by pipeline_runner with file_mode)"""
import copy
import os
import random
import tempfile
from types import SimpleNamespace

import pipeline_runner  # sets connectors (SynthProvider)  # noqa
from pipeline_runner import diff_json, patch_json, OVERRIDE
from _common import main, tree_json
import corpus
from annet import api, patching, tabparser
from annet.annlib.diff import gen_pre_as_diff
from annet.annlib.netdev.views.hardware import HardwareView
from annet.vendors import registry_connector


# concrete models behind the corpus's vendor-level stubs: rulebook texts and logic functions branch on the model
# (%if hw.Huawei.CE, hw.Huawei.NE, hw.Quidway, hw.Cisco.C2960 ...), and both front ends must use the SAME one
MODELS = {
    "Huawei": ["Huawei CE6870", "Huawei NE40E", "Huawei S5700", "Huawei Quidway S2350"],
    "Huawei CE0000": ["Huawei CE6870", "Huawei CE8850"],
    "Cisco Catalyst": ["Cisco Catalyst 2960", "Cisco WS-C3750", "Cisco Catalyst 3650"],
    "Cisco Nexus": ["Cisco Nexus 9316", "Cisco Nexus 3432", "Cisco Nexus 9504"],
    "Cisco ASR": ["Cisco ASR 9000"],
    "Arista": ["Arista DCS-7280"],
    "Juniper": ["Juniper MX960", "Juniper QFX5100"],
    "Aruba": ["Aruba AP-515"],
}

STATS = {"via_files": 0, "direct": 0}


def _file_front_end(hwm, old, new, fmt):
    """The real file front end as file_patch_worker runs it: both configurations are written to files, read
    back with api._read_old_new_hw(args.hw = the model string) and handed to _read_old_new_diff_patch with
    the hardware that reader returns.  Only when the vendor text round-trips (C04's domain); None otherwise."""
    try:
        to, tn = fmt.join(old), fmt.join(new)
    except Exception:  # noqa
        return None
    with tempfile.TemporaryDirectory(prefix="c16-") as d:
        op, np_ = os.path.join(d, "old.cfg"), os.path.join(d, "new.cfg")
        with open(op, "w") as f:
            f.write(to)
        with open(np_, "w") as f:
            f.write(tn)
        try:
            _, o2, n2, hw2 = api._read_old_new_hw(op, np_, SimpleNamespace(hw=hwm))
        except Exception:  # noqa
            return None
    if o2 != old or n2 != new:
        return None
    return o2, n2, hw2


def both(hwm, old, new):
    OVERRIDE.pop("rb", None)
    hw = HardwareView(hwm, None)
    fmt = registry_connector.get().match(hw).make_formatter()
    res = {}
    try:
        d, p = api._diff_and_patch(SimpleNamespace(hw=hw), copy.deepcopy(old), copy.deepcopy(new), None, None, False)
        res["dev"] = {"diff": diff_json(d), "patch": patch_json(p), "paths": [list(k) for k in fmt.cmd_paths(p).keys()]}
    except AssertionError:
        res["dev"] = {"err": "AssertionError"}
    except Exception as e:  # noqa
        res["dev"] = {"err": type(e).__name__}
    try:
        via = _file_front_end(hwm, old, new, fmt)
        if via is None:
            STATS["direct"] += 1
            o2, n2, hw2 = copy.deepcopy(old), copy.deepcopy(new), hw
        else:
            STATS["via_files"] += 1
            o2, n2, hw2 = via
        res["via_files"] = via is not None
        _, d2, pre2, p2 = api._read_old_new_diff_patch(o2, n2, hw2, False)
        fmt2 = registry_connector.get().match(hw2).make_formatter()
        res["file"] = {"diff": diff_json(d2), "patch": patch_json(p2), "paths": [list(k) for k in fmt2.cmd_paths(p2).keys()]}
    except AssertionError:
        res["file"] = {"err": "AssertionError"}
    except Exception as e:  # noqa
        res["file"] = {"err": type(e).__name__}
    return res


# ---------------------------------------------------------------------------------------------------------
# TEXT level: both front ends start from the same vendor-style dump text.
#   device side: tabparser.parse_to_tree(text=..., splitter=registry.match(hw).make_formatter().split), the call
#                annet.gen._old_new_per_device makes for a running config, then api._diff_and_patch;
#   file side:   the two texts written to files, api._read_old_new_hw -> api._read_old_new_diff_patch, and (on a
#                share of the cases) api.file_patch_worker / api.file_diff_worker themselves.
# The texts are formatter.join(tree) plus noise that a config dump carries and that must not matter: separator
# lines ("#" for VRP, "!" for IOS-like), VRP5-style sections shifted right after a "#", blank lines, trailing
# blanks, a common left margin, comment headers.  Cases whose noisy text does not parse back to the original
# tree on the DEVICE side are skipped and counted.

def _family(fmt):
    if isinstance(fmt, tabparser.HuaweiFormatter):
        return "vrp"
    if isinstance(fmt, tabparser.BlockExitFormatter):
        return "ios"
    if isinstance(fmt, tabparser.JuniperFormatter):
        return "brace"
    if isinstance(fmt, tabparser.RosFormatter):
        return "ros"
    return "plain"


STYLES = {
    # name: separator line, probability of a separator before a section, right shifts allowed for a section that
    # follows a "#" separator, left margin choices, trailing-blank rate, blank-line rate, indented "!" rate, headers
    "vrp5": dict(sep="#", sep_rate=1.0, shifts=[1, 1, 1, 2], margins=[0], trail=0.15, blank=0.05, inner=0.0,
                 headers=["!Software Version V200R005C00SPC500", "!Last configuration was updated at 2020-01-01 00:00:00 UTC"]),
    "vrp8": dict(sep="#", sep_rate=0.9, shifts=[], margins=[0, 0, 1], trail=0.1, blank=0.05, inner=0.0,
                 headers=["!Software Version V200R019C10SPC800", "!Last configuration was saved at 2021-05-05 10:00:00 UTC"]),
    "bang": dict(sep="!", sep_rate=0.8, shifts=[], margins=[0, 0, 0, 1, 2], trail=0.15, blank=0.05, inner=0.12,
                 headers=["! Command: show running-config", "! Last configuration change at 10:00:00 UTC Mon Jan 1 2024", "!"]),
    "hash": dict(sep="#", sep_rate=0.6, shifts=[], margins=[0, 0, 2], trail=0.1, blank=0.1, inner=0.0,
                 headers=["# generated 2024-01-01"]),
    "blank": dict(sep=None, sep_rate=0.0, shifts=[], margins=[0, 1, 3], trail=0.2, blank=0.2, inner=0.0, headers=[]),
    # brace / RouterOS texts: lines are not indentation-structured; only whole-line noise
    "lines": dict(sep=None, sep_rate=0.0, shifts=[], margins=[0, 0, 2], trail=0.0, blank=0.15, inner=0.0,
                  headers=["## Last commit: 2024-01-01 00:00:00 UTC by root", "# jan/02/2024 10:00:00 by RouterOS 6.49"]),
}
FAMILY_STYLES = {
    "vrp": ["vrp5", "vrp5", "vrp5", "vrp8", "vrp8", "blank"],
    "ios": ["bang", "bang", "bang", "blank", "hash"],
    "plain": ["hash", "blank", "bang"],
    "brace": ["lines"],
    "ros": ["lines"],
}


def _sections(lines):
    secs = []
    for l in lines:
        if not l.strip():
            continue
        if l[0] in " \t" and secs:
            secs[-1].append(l)
        else:
            secs.append([l])
    return secs


def noisy_text(text, style, rng):
    st = STYLES[style]
    margin = rng.choice(st["margins"])
    out = []
    if st["headers"] and rng.random() < 0.6:
        out.extend(rng.sample(st["headers"], rng.randint(1, len(st["headers"]))))
    secs = _sections(text.split("\n")) if style != "lines" else [[l] for l in text.split("\n") if l.strip()]
    for sec in secs:
        shift = 0
        if st["sep"] and rng.random() < st["sep_rate"]:
            out.append(st["sep"])
            if st["sep"] == "#" and st["shifts"] and (len(sec) == 1 or rng.random() < 0.35):
                shift = rng.choice(st["shifts"])
        for l in sec:
            line = " " * (margin + shift) + l
            if rng.random() < st["trail"]:
                line += rng.choice([" ", "  ", "   "])
            out.append(line)
            if l[0] == " " and rng.random() < st["inner"]:
                out.append(" " * (margin + len(l) - len(l.lstrip(" "))) + "!")
            if rng.random() < st["blank"]:
                out.append(rng.choice(["", "", " ", "   "]))
    if st["sep"] and secs and rng.random() < 0.8:
        out.append(st["sep"])
    return "\n".join(out) + ("\n" if rng.random() < 0.7 else "")


WORKER_ARGS = dict(indent="  ", add_comments=False, show_rules=False, no_color=True)


def _err(e):
    return "AssertionError" if isinstance(e, AssertionError) else type(e).__name__


def text_case(name, hwm, old, new, seed, with_workers):
    OVERRIDE.pop("rb", None)
    rng = random.Random(f"{seed}|{name}")
    hw = HardwareView(hwm, None)
    fmt = registry_connector.get().match(hw).make_formatter()
    fam = _family(fmt)
    style = rng.choice(FAMILY_STYLES[fam])
    rec = {"name": name, "hw": hwm, "vendor": hw.vendor, "family": fam, "style": style}
    try:
        told, tnew = noisy_text(fmt.join(old), style, rng), noisy_text(fmt.join(new), style, rng)
    except Exception:  # noqa
        return dict(rec, skip="join-raises")
    # ---- device side, as annet.gen reads a running config
    try:
        old_d = tabparser.parse_to_tree(text=told, splitter=registry_connector.get().match(hw).make_formatter().split)
        new_d = tabparser.parse_to_tree(text=tnew, splitter=registry_connector.get().match(hw).make_formatter().split)
    except Exception:  # noqa
        return dict(rec, skip="device-parse-raises")
    if old_d != old or new_d != new:
        return dict(rec, skip="noise-not-neutral-on-device-side")
    rec.update({"old_text": told, "new_text": tnew, "old": tree_json(old_d), "new": tree_json(new_d)})
    dev_patch = dev_diff = None
    try:
        dev_diff, dev_patch = api._diff_and_patch(SimpleNamespace(hw=hw), old_d, new_d, None, None, False)
        rec["dev"] = {"diff": diff_json(dev_diff), "patch": patch_json(dev_patch),
                      "paths": [list(k) for k in fmt.cmd_paths(dev_patch).keys()]}
    except Exception as e:  # noqa
        rec["dev"] = {"err": _err(e)}
    # ---- file side: the same two texts saved to files
    with tempfile.TemporaryDirectory(prefix="c16t-") as d:
        op, np_ = os.path.join(d, "old.cfg"), os.path.join(d, "new.cfg")
        with open(op, "w") as f:
            f.write(told)
        with open(np_, "w") as f:
            f.write(tnew)
        rec["file_old"] = rec["file_new"] = None
        try:
            _, o2, n2, hw2 = api._read_old_new_hw(op, np_, SimpleNamespace(hw=hwm))
            rec["file_old"], rec["file_new"] = tree_json(o2), tree_json(n2)
            _, d2, _pre2, p2 = api._read_old_new_diff_patch(o2, n2, hw2, False)
            fmt2 = registry_connector.get().match(hw2).make_formatter()
            rec["file"] = {"diff": diff_json(d2), "patch": patch_json(p2), "paths": [list(k) for k in fmt2.cmd_paths(p2).keys()]}
        except Exception as e:  # noqa
            rec["file"] = {"err": _err(e)}
        rec["workers"] = None
        if with_workers:
            w = {}
            args = SimpleNamespace(old=op, new=np_, hw=hwm, **WORKER_ARGS)
            try:
                w["dev_patch"] = api._format_patch_blocks(dev_patch, hw, WORKER_ARGS["indent"]) if "err" not in rec["dev"] else "<error>"
            except Exception as e:  # noqa
                w["dev_patch"] = "<error>"
            try:
                w["dev_diff"] = ("".join(gen_pre_as_diff(patching.make_pre(dev_diff), False, WORKER_ARGS["indent"], True))
                                 if "err" not in rec["dev"] else "<error>")
            except Exception as e:  # noqa
                w["dev_diff"] = "<error>"
            for key, worker in (("file_patch", api.file_patch_worker), ("file_diff", api.file_diff_worker)):
                try:
                    res = list(worker((op, np_), args))
                    w[key] = "".join(t for (_n, t, _f) in res)
                    w[key + "_labels"] = [n for (n, _t, _f) in res]
                except Exception as e:  # noqa
                    w[key] = "<error>"
            rec["workers"] = w
    return rec


def jobs_for(payload, sm):
    jobs = [(s["name"], s["hw"], s["old"], s["new"]) for s in sm]
    for s in sm:        # the same pairs on concrete models of the vendor
        for m in MODELS.get(s["hw"], []):
            jobs.append((f"{s['name']}@{m}", m, s["old"], s["new"]))
    # identical and merely reordered configurations: an empty diff does not imply an empty patch
    # (logic functions such as aruba.ap_env emit commands from unchanged rows)
    def reordered(t):
        return type(t)((k, t[k]) for k in reversed(list(t)))
    for s in sm:
        jobs.append((f"{s['name']}.old~same", s["hw"], s["old"], s["old"]))
        jobs.append((f"{s['name']}.new~same", s["hw"], s["new"], s["new"]))
        jobs.append((f"{s['name']}.new~reversed", s["hw"], s["new"], reordered(s["new"])))
    rng = random.Random(payload["seed"])
    by_hw = {}
    for s in sm:
        by_hw.setdefault(s["hw"], []).append(s)
    if payload.get("all_cross"):
        for hwm, l in sorted(by_hw.items()):
            for a in l:
                for b in l:
                    if a is not b:
                        jobs.append((f"{a['name']}~{b['name']}", hwm, a["old"], b["new"]))
    else:
        for _ in range(payload["pairs"]):
            hwm = rng.choice(sorted(by_hw))
            a, b = rng.choice(by_hw[hwm]), rng.choice(by_hw[hwm])
            side_a = rng.choice(["old", "new"])
            side_b = rng.choice(["old", "new"])
            hwm2 = rng.choice([hwm] + MODELS.get(hwm, []))
            jobs.append((f"{a['name']}.{side_a}~{b['name']}.{side_b}@{hwm2}", hwm2, a[side_a], b[side_b]))
    return jobs


def run(payload):
    sm = corpus.samples(os.environ["ANNET_VERIF_REPO_ROOT"])
    k, n = payload["shard"]
    jobs = jobs_for(payload, sm)
    share, wshare = payload.get("text_share", 0.0), payload.get("text_workers", 0.0)
    out = []
    for j, (name, hwm, old, new) in enumerate(jobs):
        if j % n != k:
            continue
        # a share of the jobs goes through the TEXT level (which covers what `both` does: the device side runs on
        # trees equal to old/new, the file side through real files); the others, and the jobs whose noisy text is
        # not neutral on the device side, through the trees / the clean joined text
        skipped = None
        if random.Random(f"select|{payload['seed']}|{name}").random() < share:
            r = text_case(name, hwm, old, new, payload["seed"],
                          random.Random(f"workers|{payload['seed']}|{name}").random() < wshare)
            if "skip" not in r:
                out.append(r)
                continue
            skipped = r
        r = both(hwm, old, new)
        r.update({"name": name, "hw": hwm, "old": tree_json(old), "new": tree_json(new)})
        if skipped:
            r["text_skipped"] = {k_: skipped[k_] for k_ in ("family", "style", "skip")}
        out.append(r)
    return out


main(run)
