"""C07 runner: the real rule-pattern compiler on generated cases.

Payload: {"op": "list"}                       -> every rule line of every shipped rulebook text
         {"op": "run", "cases": [...]}        -> outcomes of the real regexps / templates

A case is {"kind": "raw", "rule", "prefix", "ic", "fkey", "rows"} (compile_row_regexp through
patching._attrs_to_regexp, patching._make_reverse) or {"kind": "book", "file", "hw", "idx",
"rev": bool, "fkey", "rows"} (the regexps stored inside the rulebook compiled by the real
compile_patching_text / compile_ordering_text / compile_deploying_text, plus the ACL and
implicit compilers on the same row) or {"kind": "text", "vendor", "raw_p", "raw_a", "raw_o",
"fkey", "rows"}: one rule LINE (irregular spacing, %params) through the rule-text entry points
compile_patching_text / compile_acl_text / compile_ordering_text, i.e. through
syntax.parse_text / _parse_raw_rule; what is reported are the regexps / the reverse template
stored in the compiled rulebooks.
"""
import os
import re

from _common import main, setup_connectors

setup_connectors()

from annet.annlib.netdev.views.hardware import HardwareView  # noqa: E402
from annet.annlib.rbparser import syntax  # noqa: E402
from annet.annlib.rbparser import acl as rb_acl  # noqa: E402
from annet.annlib.rbparser import ordering as rb_ordering  # noqa: E402
from annet.annlib.rbparser.platform import VENDOR_ALIASES  # noqa: E402
from annet.rulebook import DefaultRulebookProvider  # noqa: E402
from annet.rulebook import deploying as rb_deploying  # noqa: E402
from annet.rulebook import patching as rb_patching  # noqa: E402
from annet.vendors import registry_connector  # noqa: E402
from annet import implicit as rb_implicit  # noqa: E402

# canonical hardware strings per rulebook text (DESIGN 9); several for texts with %if hw branches
HW = {
    "huawei": ["Huawei CE6870", "Huawei NE40E", "Huawei S5300", "Huawei Quidway S2326"],
    "optixtrans": ["Huawei OptiXtrans DC908"],
    "cisco": ["Cisco Catalyst", "Cisco 2960"],
    "nexus": ["Cisco Nexus"],
    "iosxr": ["Cisco ASR", "Cisco XR"],
    "arista": ["Arista"],
    "aruba": ["Aruba"],
    "b4com": ["B4com"],
    "juniper": ["Juniper"],
    "ribbon": ["Ribbon"],
    "nokia": ["Nokia"],
    "routeros": ["RouterOS"],
    "pc": ["PC"],
}

_provider = DefaultRulebookProvider()
_books = {}


def _fmt(tmpl, key):
    try:
        return {"ok": tmpl.format(*key)}
    except IndexError:
        return {"exc": "IndexError"}
    except Exception as e:  # noqa
        return {"exc": type(e).__name__}


def _groups(m):
    return ["<None>" if g is None else g for g in m.groups()]


def _apply(regexp, tmpl, fkey, rows):
    out = []
    for r in rows:
        m = regexp.match(r)
        if m is None:
            out.append(None)
        else:
            g = _groups(m)
            out.append([g, _fmt(tmpl, g)])
    return {"tmpl": tmpl, "ffmt": _fmt(tmpl, fkey), "rows": out, "pattern": regexp.pattern,
            "ic": bool(regexp.flags & re.IGNORECASE)}


def _texts_dir():
    return os.path.join(os.path.dirname(rb_patching.__file__), "texts")


def _book(file, hw_str):
    """Compile one shipped text with the real compiler of its kind and pair every rule of the
    parse tree (walk order) with the regexps/templates stored in the compiled rulebook."""
    key = (file, hw_str)
    if key in _books:
        return _books[key]
    vendor, ext = file.rsplit(".", 1)
    hw = HardwareView(hw_str, "")
    text = _provider._render_rul(file, hw)
    cvendor = VENDOR_ALIASES.get(vendor, vendor)
    prefix = registry_connector.get()[cvendor].reverse
    rules = []

    if ext == "rul":
        compiled = rb_patching.compile_patching_text(text, cvendor)
        tree = syntax.parse_text(text, {"global": {"validator": rb_patching.valid_bool, "default": False}})

        def walk(tree, comp):
            for raw, attrs in tree.items():
                rule = comp["global" if attrs["params"]["global"] else "local"][raw]
                rules.append({"row": attrs["row"], "type": attrs["type"], "direct": rule["attrs"]["regexp"],
                              "tmpl": rule["attrs"].get("reverse"), "reverse": None})
                if rule["children"] and attrs["type"] != "ignore":
                    walk(attrs["children"], rule["children"])
        walk(tree, compiled)
    elif ext == "order":
        compiled = rb_ordering.compile_ordering_text(text, vendor)
        tree = syntax.parse_text(text, {})

        def walk(tree, comp):
            for raw, attrs in tree.items():
                if attrs["type"] != "normal":
                    continue
                rule = comp[raw]
                rules.append({"row": attrs["row"], "type": attrs["type"], "direct": rule["attrs"]["direct_regexp"],
                              "tmpl": None, "reverse": rule["attrs"]["reverse_regexp"]})
                walk(attrs["children"], rule["children"])
        walk(tree, compiled)
    elif ext == "deploy":
        compiled = rb_deploying.compile_deploying_text(text, vendor)
        tree = syntax.parse_text(text, {})

        def walk(tree, comp):
            for raw, attrs in tree.items():
                if attrs["type"] != "normal" or attrs["row"].startswith(("ignore:", "dialog:")):
                    continue
                rule = comp[raw]
                rules.append({"row": attrs["row"], "type": attrs["type"], "direct": rule["attrs"]["regexp"],
                              "tmpl": None, "reverse": None})
                walk(attrs["children"], rule["children"])
        walk(tree, compiled)
    else:
        raise ValueError(file)
    _books[key] = (cvendor, prefix, rules)
    return _books[key]


def _other_compilers(row, cvendor):
    """The same row through the ACL compiler and the implicit-rule compiler."""
    out = {}
    try:
        a = rb_acl.compile_acl_text(row + "\n", cvendor, allow_ignore=True)
        rule = list(a["local"].values())[0]
        out["acl_direct"] = rule["attrs"]["direct_regexp"]
        out["acl_reverse"] = rule["attrs"]["reverse_regexp"]
    except Exception as e:  # noqa
        out["acl_exc"] = type(e).__name__
    try:
        t = rb_implicit.compile_tree(syntax.parse_text(row + "\n", {}))
        out["implicit"] = list(t.values())[0]["regexp"]
    except Exception as e:  # noqa
        out["implicit_exc"] = type(e).__name__
    return out


def op_list():
    res = []
    for file in sorted(os.listdir(_texts_dir())):
        vendor = file.split(".")[0]
        for hw_str in HW.get(vendor, []):
            try:
                cvendor, prefix, rules = _book(file, hw_str)
            except Exception as e:  # noqa
                res.append({"file": file, "hw": hw_str, "exc": type(e).__name__ + ": " + str(e)[:200]})
                continue
            for idx, r in enumerate(rules):
                res.append({"file": file, "hw": hw_str, "idx": idx, "vendor": cvendor, "prefix": prefix,
                            "row": r["row"], "type": r["type"], "pattern": r["direct"].pattern,
                            "ic": bool(r["direct"].flags & re.IGNORECASE),
                            "has_tmpl": r["tmpl"] is not None, "has_reverse": r["reverse"] is not None})
    unknown = sorted(f for f in os.listdir(_texts_dir()) if f.split(".")[0] not in HW)
    return {"rules": res, "files_without_hw": unknown}


def _matches(regexp, rows):
    return [None if m is None else _groups(m) for m in (regexp.match(r) for r in rows)]


def _single(d, what):
    if len(d) != 1:
        raise ValueError("%s: %d rules compiled from one line" % (what, len(d)))
    return next(iter(d.items()))


def run_text(c):
    """one rule line through the three rule-text compilers"""
    vendor, rows = c["vendor"], c["rows"]
    if c.get("neighbours"):
        # the same rule line between two unrelated rules (the first one with an inline flag, neither with %params):
        # what a rule means must not depend on the lines around it
        lead = c["raw_p"][:len(c["raw_p"]) - len(c["raw_p"].lstrip(" \t"))]      # same margin: siblings, not children
        text = lead + "(?i)zzdecoy *\n" + c["raw_p"] + "\n" + lead + "zzafter *\n"
        pb = rb_patching.compile_patching_text(text, vendor)
        both = {k: v for k, v in {**pb["local"], **pb["global"]}.items() if "zzdecoy" not in k and "zzafter" not in k}
        _, prule = _single(both, "patching")
    else:
        pb = rb_patching.compile_patching_text(c["raw_p"] + "\n", vendor)
        _, prule = _single({**pb["local"], **pb["global"]}, "patching")
    pa = prule["attrs"]
    out = {"patch": _apply(pa["regexp"], pa["reverse"], c["fkey"], rows)}
    ab = rb_acl.compile_acl_text(c["raw_a"] + "\n", vendor)
    aid, arule = _single({**ab["local"], **ab["global"]}, "acl")
    out["acl_id"] = aid
    out["acl_d"] = _matches(arule["attrs"]["direct_regexp"], rows)
    out["acl_r"] = _matches(arule["attrs"]["reverse_regexp"], rows)
    ob = rb_ordering.compile_ordering_text(c["raw_o"] + "\n", vendor)
    _, orule = _single(ob, "ordering")
    out["ord_d"] = _matches(orule["attrs"]["direct_regexp"], rows)
    out["ord_r"] = _matches(orule["attrs"]["reverse_regexp"], rows)
    out["patterns"] = [pa["regexp"].pattern, arule["attrs"]["reverse_regexp"].pattern,
                       orule["attrs"]["reverse_regexp"].pattern]
    return out


def run_case(c):
    if c["kind"] == "text":
        try:
            return run_text(c)
        except Exception as e:  # noqa
            return {"exc": type(e).__name__ + ": " + str(e)[:200]}
    if c["kind"] == "raw":
        regexp = rb_patching._attrs_to_regexp({"row": c["rule"], "params": {"ignore_case": c["ic"]}})
        tmpl = rb_patching._make_reverse(c["rule"], c["prefix"], flags=regexp.flags)
        out = _apply(regexp, tmpl, c["fkey"], c["rows"])
        # ACL / ordering form of the reverse row
        out["reverse_row"] = rb_acl._make_reverse(c["rule"], c["prefix"])
        return out
    cvendor, prefix, rules = _book(c["file"], c["hw"])
    r = rules[c["idx"]]
    row = r["row"]
    others = _other_compilers(row, cvendor)
    same = []
    if not c["rev"]:
        regexp = r["direct"]
        tmpl = r["tmpl"] if r["tmpl"] is not None else rb_patching._make_reverse(row, prefix, flags=regexp.flags)
        cmp_with = [("acl_direct", others.get("acl_direct")), ("implicit", others.get("implicit"))]
        rule_text = row
    else:
        rule_text = rb_acl._make_reverse(row, prefix)
        regexp = r["reverse"] if r["reverse"] is not None else others.get("acl_reverse")
        if regexp is None:
            return {"exc": "no reverse regexp: " + str(others.get("acl_exc"))}
        tmpl = rb_patching._make_reverse(rule_text, prefix, flags=regexp.flags)
        cmp_with = [("acl_reverse", others.get("acl_reverse"))]
    out = _apply(regexp, tmpl, c["fkey"], c["rows"])
    out["rule_text"] = rule_text
    out["reverse_row"] = rb_acl._make_reverse(rule_text, prefix)
    for name, rx in cmp_with:
        if rx is None:
            same.append([name, "missing:" + str(others.get(name.split("_")[0] + "_exc"))])
            continue
        o2 = [None if m is None else _groups(m) for m in (rx.match(x) for x in c["rows"])]
        o1 = [None if x is None else x[0] for x in out["rows"]]
        # the patching regexp may carry IGNORECASE from %ignore_case; the others never do
        if rx.pattern != regexp.pattern or (o1 != o2 and rx.flags == regexp.flags):
            same.append([name, "differs"])
    out["kinds_differ"] = same
    return out


def entry(payload):
    if payload["op"] == "list":
        return op_list()
    return [run_case(c) for c in payload["cases"]]


main(entry)
