"""C06: the real apply_acl / compile_acl_text on generated (ACL text, tree) cases.

case = {"vendor", "acl": text A, "acl_b": text B or None, "tree": {...}, "exclusive": bool,
        "filter_text": bool}
result keys (each an outcome, see `outcome`):
   plain  = apply_acl(t, A, fatal_acl=False, exclusive=exclusive)
   fatal  = apply_acl(t, A, fatal_acl=True,  exclusive=exclusive)
   twice  = apply_acl(plain, A)                       (only when plain is a tree)
   b, ab  = apply_acl(t, B), apply_acl(t, A + "\n" + B)   (lenient, only with acl_b)
   fcfg   = filter_config(make_acl(A, vendor), CommonFormatter, join(t)) re-parsed (optional)
A case with a "diff" key ([[op, row, children], ...], op in added/removed/affected/moved/unchanged) is run through
patching.apply_acl_diff instead: {"ok": diff} | {"compile": ...}.
A case with a "ctext" key (an ACL text) is compiled only: the structure of compile_acl_text(ctext, vendor) is
returned, {"rules": {"local": [[rule_id, cant_delete, prio, generator_names, children], ...], "global": [...]}}
(children = the same structure, empty for a %global rule: children is None there; never the regexps) or
{"err": "parser", "line": n, "row": "..."} | {"err": "validator"} | {"err": "context"} | {"err": "notimpl"} | {"exc"}.
An outcome is {"ok": tree} | {"uncovered": [row path]} | {"notexcl": [row path], "gens": [...]}
| {"compile": "NotImplementedError"} | {"exc": "..."}.
"""
import re
from collections import OrderedDict as odict

from _common import main, tree_json
from annet.annlib import patching, tabparser, filter_acl
from annet.annlib.rbparser import acl as aclmod
from annet.vendors import registry_connector  # noqa: F401  (registry is loaded on import)


def to_odict(t):
    return odict((k, to_odict(v)) for k, v in t.items())


def all_paths(t, pre=()):
    for k, v in t.items():
        yield pre + (k,)
        yield from all_paths(v, pre + (k,))


def name_to_path(tree, name, sep):
    cands = [list(p) for p in all_paths(tree) if sep.join(p) == name]
    # several rows may print to the same name only if a row contains the separator
    return cands[0] if cands else None


def compile_acl(text, vendor):
    aclmod.compile_acl_text.cache_clear()      # compiled rules carry per-run scratch state
    return aclmod.compile_acl_text(text, vendor)


def outcome(fn, tree):
    try:
        return {"ok": tree_json(fn())}
    except patching.AclNotExclusiveError as e:
        m = re.match(r"^'(.*)', generators: '(.*)'$", str(e), re.S)
        p = name_to_path(tree, m.group(1), "/ ") if m else None
        if p is None:
            return {"exc": "AclNotExclusiveError:" + str(e)}
        return {"notexcl": p, "gens": m.group(2).split(", ")}
    except patching.AclError as e:
        p = name_to_path(tree, str(e), " / ")
        if p is None:
            return {"exc": "AclError:" + str(e)}
        return {"uncovered": p}
    except NotImplementedError:
        return {"compile": "NotImplementedError"}
    except Exception as e:  # noqa
        return {"exc": type(e).__name__ + ":" + str(e)[:300]}


def diff_in(d):
    return [(op, row, diff_in(kids), None) for op, row, kids in d]


def diff_out(d):
    return [[op, row, diff_out(kids)] for (op, row, kids, _m) in d]


def one_diff(case):
    try:
        rules = compile_acl(case["acl"], case["vendor"])
        return {"ok": diff_out(patching.apply_acl_diff(diff_in(case["diff"]), rules))}
    except NotImplementedError:
        return {"compile": "NotImplementedError"}
    except Exception as e:  # noqa
        return {"exc": type(e).__name__ + ":" + str(e)[:300]}


def dump_rules(rules):
    def side(d):
        out = []
        for rid, r in d.items():
            a = r["attrs"]
            kids = dump_rules(r["children"]) if r["children"] is not None else {"local": [], "global": []}
            out.append([rid, [bool(x) for x in a["cant_delete"]], int(a["prio"]), [str(x) for x in a["generator_names"]],
                        kids])
        return out
    return {"local": side(rules["local"]), "global": side(rules["global"])}


def one_ctext(case):
    from valkit.common import ValidatorError
    try:
        return {"rules": dump_rules(compile_acl(case["ctext"], case["vendor"]))}
    except tabparser.ParserError as e:
        m = re.match(r"^Invalid top indention: line (\d+): (.*)$", str(e), re.S)
        if not m:
            return {"exc": "ParserError:" + str(e)}
        return {"err": "parser", "line": int(m.group(1)), "row": m.group(2)}
    except ValidatorError:
        return {"err": "validator"}
    except NotImplementedError:
        return {"err": "notimpl"}
    except ValueError:
        return {"err": "context"}
    except Exception as e:  # noqa
        return {"exc": type(e).__name__ + ":" + str(e)[:300]}


def one(case):
    if "diff" in case:
        return one_diff(case)
    if "ctext" in case:
        return one_ctext(case)
    v = case["vendor"]
    t = to_odict(case["tree"])
    a = case["acl"]
    excl = bool(case.get("exclusive"))
    res = {}
    res["plain"] = outcome(lambda: patching.apply_acl(to_odict(case["tree"]), compile_acl(a, v),
                                                      fatal_acl=False, exclusive=excl), t)
    res["fatal"] = outcome(lambda: patching.apply_acl(to_odict(case["tree"]), compile_acl(a, v),
                                                      fatal_acl=True, exclusive=excl), t)
    if "ok" in res["plain"]:
        res["twice"] = outcome(lambda: patching.apply_acl(to_odict(res["plain"]["ok"]), compile_acl(a, v)), t)
    if case.get("acl_b") is not None:
        b = case["acl_b"]
        res["b"] = outcome(lambda: patching.apply_acl(to_odict(case["tree"]), compile_acl(b, v)), t)
        res["ab"] = outcome(lambda: patching.apply_acl(to_odict(case["tree"]), compile_acl(a + "\n" + b, v)), t)
    if case.get("filter_text"):
        def run_filter():
            fmtr = tabparser.CommonFormatter()
            text = fmtr.join(to_odict(case["tree"]))
            aclmod.compile_acl_text.cache_clear()
            out = filter_acl.filter_config(filter_acl.make_acl(a, v), fmtr, text)
            return tabparser.parse_to_tree(out, fmtr.split, ())
        res["fcfg"] = outcome(run_filter, t)
    return res


main(lambda cases: [one(c) for c in cases])
