"""C15: the real MeshExecutor.execute_for over stub storages, for every device of a generated
topology and every permutation of rule registration.  Imported by c15_runner.py."""
import dataclasses
import itertools
import json
from typing import Any, Optional, Sequence

from annet.bgp_models import PeerOptions
from annet.mesh import (Left, MeshExecutor, MeshRulesRegistry, Right, separate_ports, united_ports)
from annet.storage import Device, Interface, Storage


# ---- stubs (same shape as tests/annet/test_mesh/fakes.py) -----------------------------------------

class StubInterface(Interface):
    def __init__(self, name: str, neighbor_fqdn: Optional[str], neighbor_port: Optional[str], log: list):
        self._name = name
        self.neighbor_fqdn = neighbor_fqdn
        self.neighbor_port = neighbor_port
        self._log = log

    @property
    def name(self) -> str:
        return self._name

    def add_addr(self, address_mask: str, vrf: Optional[str]) -> None:
        self._log.append((self._name, address_mask, vrf))


class StubDevice(Device):
    def __init__(self, name: str) -> None:
        self._name = name
        self.interfaces: list[StubInterface] = []
        self.addr_log: list = []
        self.lag_log: list = []
        self._storage = None

    def add_port(self, name, nb=None, nb_port=None):
        self.interfaces.append(StubInterface(name, nb, nb_port, self.addr_log))
        return self.interfaces[-1]

    @property
    def storage(self):
        return self._storage

    @property
    def id(self):
        return self._name

    @property
    def fqdn(self):
        return self._name

    @property
    def hostname(self):
        return self._name

    def __hash__(self):
        return hash(self._name)

    def __eq__(self, other):
        return isinstance(other, StubDevice) and other._name == self._name

    def is_pc(self):
        return False

    @property
    def hw(self):
        return None

    @property
    def breed(self):
        return None

    @property
    def neighbours_ids(self):
        return self.neighbours_fqdns

    @property
    def neighbours_fqdns(self):
        out = []
        for i in self.interfaces:
            if i.neighbor_fqdn and i.neighbor_fqdn not in out:
                out.append(i.neighbor_fqdn)
        return out

    # annet.storage.Device: "Add ... interface or return existing one" (as annet.adapters.netbox does)
    def _add_or_reuse(self, name: str) -> Interface:
        return self.find_interface(name) or self.add_port(name)

    def make_lag(self, lag: int, ports: Sequence[str], lag_min_links: Optional[int]) -> Interface:
        self.lag_log.append((f"Trunk{lag}", sorted(ports), lag_min_links))
        return self._add_or_reuse(f"Trunk{lag}")

    def add_svi(self, svi: int) -> Interface:
        return self._add_or_reuse(f"Vlan{svi}")

    def add_subif(self, interface: str, subif: int) -> Interface:
        return self._add_or_reuse(f"{interface}.{subif}")

    def find_interface(self, name: str) -> Optional[Interface]:
        for i in self.interfaces:
            if i.name == name:
                return i
        return None


class StubStorage(Storage):
    def __init__(self):
        self.devices: list[StubDevice] = []

    def __enter__(self):
        return self

    def __exit__(self, *a):
        pass

    def resolve_object_ids_by_query(self, query: Any):
        return [d.id for d in self.devices if d.fqdn in query]

    def resolve_all_fdnds(self) -> list[str]:
        return [d.fqdn for d in self.devices]

    def resolve_fdnds_by_query(self, query: Any):
        return [d.fqdn for d in self.devices if d.fqdn in query]

    def make_devices(self, query: Any, preload_neighbors=False, use_mesh=None, preload_extra_fields=False, **kw):
        return [d for d in self.devices if d.fqdn in query]

    def get_device(self, obj_id, preload_neighbors=False, use_mesh=None, **kw):
        return next(d for d in self.devices if d.id == obj_id)

    def flush_perf(self):
        pass

    def search_connections(self, device, neighbor):
        res = []
        for lp in device.interfaces:
            if lp.neighbor_fqdn == neighbor.fqdn:
                for rp in neighbor.interfaces:
                    if rp.name == lp.neighbor_port and rp.neighbor_fqdn == device.fqdn:
                        res.append((lp, rp))
        return res


def make_storage(case) -> StubStorage:
    s = StubStorage()
    devs = {n: StubDevice(n) for n in case["devices"]}
    for n in case["devices"]:
        devs[n].add_port("lo0")
    # ports[dev] = ordered list of [port, neighbour, neighbour_port]
    for n, plist in case["ports"].items():
        for port, nb, nbp in plist:
            devs[n].add_port(port, nb, nbp)
    for n in case["devices"]:
        s.devices.append(devs[n])
    return s


# ---- registry from the case --------------------------------------------------------------------------

def _valuer(dec, consts):
    """consts is None: every assignment gets a fresh object (handlers written with literals).
    consts is a dict: equal values are ONE object for the life of the dict (handlers that assign module or
    handler level constants such as UNICAST = {"ipv4_unicast"}); the handlers stay pure functions."""
    if consts is None:
        return dec

    def val(v):
        k = json.dumps(v, sort_keys=True)
        if k not in consts:
            consts[k] = dec(v)
        return consts[k]
    return val


def make_virtual_handler(table, dec, consts=None):
    val = _valuer(dec, consts)

    def handler(local, virtual, session):
        ent = table.get(f"{local.device.fqdn}|{virtual.num}")
        if ent is None:
            return
        for obj, key in ((local, "l"), (virtual, "r"), (session, "s")):
            for f, v in ent[key].items():
                setattr(obj, f, val(v))
    return handler


def make_handler(table, dec, indirect, consts=None):
    val = _valuer(dec, consts)

    def handler(left, right, session):
        ports = "" if indirect else ",".join(sorted(left.ports))
        ent = table.get(f"{left.device.fqdn}|{right.device.fqdn}|{ports}")
        if ent is None:
            return
        for obj, key in ((left, "l"), (right, "r"), (session, "s")):
            for f, v in ent[key].items():
                setattr(obj, f, val(v))
    return handler


COND = {
    "none": lambda: (),
    "eq": lambda: (Left.n == Right.n,),
    "lt": lambda: (Left.n < Right.n,),
    "ne": lambda: (Left.n != Right.n,),
}


def make_registry(case, order, dec, consts=None) -> MeshRulesRegistry:
    """case["layout"] (optional) = {"parent": [-1, p1, ...], "short": [bool...], "of_rule": [node per rule],
    "domain": ".dc1.example.net" | ""}: a tree of registries joined with include() (node 0 is the one handed to the
    executor; parent[i] < i; children are included in index order), match_short_name per node, every rule registered
    in its node.  The rule masks of the case are written for the host name WITHOUT the domain part; a node that
    matches full names gets the mask followed by the (escaped) domain, so that the rule means the same device pairs
    in every layout."""
    lay = case.get("layout")
    if not lay:
        return _fill_registries(case, order, dec, consts, [MeshRulesRegistry()], [0] * len(case["rules"]), [False], "")
    nodes = [MeshRulesRegistry(match_short_name=bool(s)) for s in lay["short"]]
    for i, p in enumerate(lay["parent"]):
        if p >= 0:
            nodes[p].include(nodes[i])
    return _fill_registries(case, order, dec, consts, nodes, lay["of_rule"], lay["short"], lay.get("domain", ""))


def _fill_registries(case, order, dec, consts, nodes, of_rule, short, domain) -> MeshRulesRegistry:
    import re as _re

    def mask(m, node):
        return m if short[node] else m + _re.escape(domain)
    for idx in order:
        r = case["rules"][idx]
        node = of_rule[idx]
        reg = nodes[node]
        r = dict(r, left=mask(r["left"], node), **({"right": mask(r["right"], node)} if "right" in r else {}))
        if r["kind"] == "virtual":
            h = make_virtual_handler(r["table"], dec, consts)
            h.__qualname__ = f"h{idx}"
            reg.virtual(r["left"], list(r["num"]))(h)
            continue
        h = make_handler(r["table"], dec, r["kind"] == "indirect", consts)
        h.__qualname__ = f"h{idx}"
        conds = COND[r["cond"]]()
        if r["kind"] == "direct":
            pp = separate_ports if r["pp"] == "separate" else united_ports
            reg.direct(r["left"], r["right"], *conds, port_processor=pp)(h)
        else:
            reg.indirect(r["left"], r["right"], *conds)(h)
    return nodes[0]


OPTION_FIELDS = [f.name for f in dataclasses.fields(PeerOptions)]


def enc_peer(p, enc):
    opts = {}
    for f in OPTION_FIELDS:
        v = getattr(p.options, f)
        if v is not None:
            opts[f] = enc(int(v) if f == "local_as" else v)
    d = {
        "addr": enc(p.addr), "interface": enc(p.interface), "remote_as": enc(int(p.remote_as)),
        "hostname": enc(p.hostname), "families": enc(set(p.families)), "description": enc(p.description),
        "vrf_name": enc(p.vrf_name), "group_name": enc(p.group_name), "import_policy": enc(p.import_policy),
        "export_policy": enc(p.export_policy), "update_source": enc(p.update_source),
        "options": {"k": "obj", "cls": "PeerOptions", "v": opts},
    }
    return d


def _execute(executor, storage, devname, enc):
    dev = next(d for d in storage.devices if d.fqdn == devname)
    try:
        res = executor.execute_for(dev)
    except ValueError as e:
        return {"err": "ValueError", "msg": str(e)[:160]}
    except Exception as e:  # noqa
        return {"err": "other", "exc": type(e).__name__ + ": " + str(e)[:160]}
    return {"ok": {"peers": [enc_peer(p, enc) for p in res.peers],
                   "addrs": [[i, a, v] for (i, a, v) in dev.addr_log]}}


def run_one(case, order, devname, enc, dec):
    storage = make_storage(case)
    reg = make_registry(case, order, dec)
    return _execute(MeshExecutor(reg, storage), storage, devname, enc)


def run_seq(case, enc, dec):
    """Several execute_for calls in one process: ONE registry whose handlers assign shared constant objects,
    a first executor over one storage computing every device in turn, then a second executor over a new storage
    computing them in the reverse order.  Returns the runs in the order they were made: [[device, outcome]...]."""
    order = list(range(len(case["rules"])))
    reg = make_registry(case, order, dec, consts={})
    runs = []
    for devs in (case["devices"], list(reversed(case["devices"]))):
        storage = make_storage(case)
        executor = MeshExecutor(reg, storage)
        for d in devs:
            runs.append([d, _execute(executor, storage, d, enc)])
    return runs


def run_case(case, enc, dec):
    n = len(case["rules"])
    orders = [list(p) for p in itertools.permutations(range(n))]
    if len(orders) > 24:
        orders = orders[:24]
    out = {}
    for d in case["devices"]:
        out[d] = [run_one(case, o, d, enc, dec) for o in orders]
    res = {"orders": orders, "out": out, "option_fields": OPTION_FIELDS}
    if case.get("seq"):
        res["seq"] = run_seq(case, enc, dec)
    return res
