"""C18 runner: real HardwareView / parse_hw_model / Registry.match / get_rulebook.

stdin : {"cases": [{"model": str, "soft": str}], "perms": [spec, ...], "tables": bool}
        perm spec: "reverse" | ["front", name] | ["seed", int]
stdout: {"results": [...], "tables": {...}?}

Per case the runner reports
  hits     regex ids found in the model string (ids = first occurrence of each distinct
           regex source in the prepared db, the numbering tr_devdb.py uses)
  true     parse_hw_model(model)[0] as lists of names, or null + exc when building the
           hardware view raised
  vendor   {"name": s} | {"none": true} | {"exc": "..."}        HardwareView(model).vendor
  perm     the same under each permuted registration order (registry.vendors reordered in
           place, restored afterwards)
  rb       {"loaded", "logic_ok", "regex_ok", "digests": [..], "exc", "stats"} from two fresh
           DefaultRulebookProvider instances (all text/compile caches cleared in between)
           and the public annet.rulebook.get_rulebook; THEN real patch operations for that
           hardware run in the same process (api._diff_and_patch / api.patch_from_pre /
           Orderer.order_config on shipped before/after samples of the vendor, with a NON-EMPTY
           RefTracker as a generator run with references builds it) and the rulebook is loaded
           again: the public get_rulebook, a brand new provider (no cache cleared) - two more
           digests.  "The same model always yields an equal rulebook", whatever happened
           between the loads.  rb["ops"] says what was run.
A case with "ops": false skips the patch operations and the two digests after them (the harness asks for them
once per model string, not for every software-version shape).
A case with "static": true is only parsed (hits / true / vendor): no permutations, no loads.
"""
import hashlib
import json
import os
import random
import re
import types
import zlib
from collections import OrderedDict as odict
from types import SimpleNamespace

from _common import main, setup_connectors

setup_connectors()

from annet import rulebook as rb_mod                                    # noqa: E402
from annet.annlib.netdev import devdb                                   # noqa: E402
from annet.annlib.netdev.views.hardware import HardwareView             # noqa: E402
from annet.annlib.rbparser import ordering as ordering_mod              # noqa: E402
from annet.rulebook import DefaultRulebookProvider, deploying, patching  # noqa: E402
from annet.rulebook import common as rb_common                          # noqa: E402
from annet.vendors import registry_connector                            # noqa: E402

LOGIC_KEYS = ("logic", "diff_logic", "apply_logic")
REGEX_KEYS = ("regexp", "direct_regexp", "reverse_regexp")


def exc_enum(e: BaseException) -> str:
    return type(e).__name__ + ":" + str(e)[:200]


def rid_table():
    prepared = devdb._prepare_db()
    rid_of, rows = {}, []
    for seq, rx in prepared.items():
        rid_of.setdefault(rx.pattern, len(rid_of))
        rows.append((list(seq), rid_of[rx.pattern], rx))
    return rows, rid_of


def clear_caches():
    for fn in (patching.compile_patching_text, ordering_mod.compile_ordering_text,
               deploying.compile_deploying_text, rb_common.import_rulebook_function,
               patching._make_reverse):
        if hasattr(fn, "cache_clear"):
            fn.cache_clear()


def canon(x, stats, key=None):
    """Structural, address-free image of a compiled rulebook."""
    if isinstance(x, dict):
        return ["d"] + [[canon(k, stats), canon(v, stats, k if isinstance(k, str) else None)] for k, v in x.items()]
    if isinstance(x, re.Pattern):
        stats["regex"] += 1
        return ["re", x.pattern, x.flags]
    if key in REGEX_KEYS:
        stats["bad_regex"].append(f"{key}={x!r}"[:120])
    if key in LOGIC_KEYS:
        stats["logic"] += 1
        if not callable(x):
            stats["bad_logic"].append(f"{key}={x!r}"[:120])
    if isinstance(x, (types.FunctionType, types.BuiltinFunctionType, types.MethodType)):
        return ["fn", getattr(x, "__module__", "?"), getattr(x, "__qualname__", "?")]
    if isinstance(x, tuple) and hasattr(x, "_fields"):
        return ["nt", type(x).__name__] + [canon(v, stats) for v in x]
    if isinstance(x, (list, tuple)):
        return ["l"] + [canon(v, stats) for v in x]
    if isinstance(x, (set, frozenset)):
        return ["s"] + sorted(json.dumps(canon(v, stats), sort_keys=True) for v in x)
    if x is None or isinstance(x, (bool, int, float, str)):
        return x
    if callable(x) and hasattr(x, "__qualname__"):
        return ["fn", getattr(x, "__module__", "?"), x.__qualname__]
    r = repr(x)
    if " at 0x" in r:
        r = type(x).__module__ + "." + type(x).__qualname__
    return ["o", type(x).__name__, r]


def digest(rb, stats) -> str:
    if not (isinstance(rb, dict) and set(rb) == {"patching", "ordering", "deploying"}):
        stats["bad_shape"] = True
    return hashlib.sha1(json.dumps(canon(rb, stats), sort_keys=False, default=str).encode()).hexdigest()


def load_rulebooks(model, soft, ops=True):
    out = {"loaded": False, "logic_ok": False, "regex_ok": False, "digests": [], "exc": None, "stats": None}
    stats = {"regex": 0, "logic": 0, "bad_regex": [], "bad_logic": []}
    try:
        digs = []
        for k in range(2):
            clear_caches()
            prov = DefaultRulebookProvider()
            rb = prov.get_rulebook(HardwareView(model, soft))
            st = stats if k == 0 else {"regex": 0, "logic": 0, "bad_regex": [], "bad_logic": []}
            digs.append(digest(rb, st))
        st = {"regex": 0, "logic": 0, "bad_regex": [], "bad_logic": []}
        digs.append(digest(rb_mod.get_rulebook(HardwareView(model, soft)), st))
        out["digests"] = list(digs)
        # between the loads: patches with references are built for this hardware; then the same model is loaded again
        if not ops:
            return finish_load(out, stats, digs)
        out["ops"] = exercise(model, soft)
        digs.append(digest(rb_mod.get_rulebook(HardwareView(model, soft)), {"regex": 0, "logic": 0, "bad_regex": [], "bad_logic": []}))
        digs.append(digest(DefaultRulebookProvider().get_rulebook(HardwareView(model, soft)), {"regex": 0, "logic": 0, "bad_regex": [], "bad_logic": []}))
        finish_load(out, stats, digs)
    except BaseException as e:  # noqa  (mako raises arbitrary exceptions, asserts included)
        out["exc"] = exc_enum(e)
    return out


def finish_load(out, stats, digs):
    out["digests"] = digs
    out["loaded"] = not stats.get("bad_shape", False)
    out["logic_ok"] = not stats["bad_logic"] and stats["logic"] > 0
    out["regex_ok"] = not stats["bad_regex"] and stats["regex"] > 0
    out["stats"] = {"regex": stats["regex"], "logic": stats["logic"],
                    "bad": (stats["bad_regex"] + stats["bad_logic"])[:3]}
    return out


# ---- what happens between two loads in a long-lived process: patches are built ----------------

_SAMPLES = {}
GENERIC_NEW = {"system": {"host-name r1": {}}, "interface eth0": {"description x": {}, "mtu 9000": {}},
               "policy P": {"term 1": {}}}


class _RefUser:         # stands for a generator whose output refers to ...
    pass


class _RefDef:          # ... what this generator defines
    pass


def samples_for(vendor):
    if "all" not in _SAMPLES:
        try:
            import corpus
            _SAMPLES["all"] = corpus.samples(os.environ["ANNET_VERIF_REPO_ROOT"])
        except BaseException:  # noqa
            _SAMPLES["all"] = []
    return [x for x in _SAMPLES["all"] if x["vendor"] == vendor]


def to_odict(t):
    return odict((k, to_odict(v)) for k, v in t.items())


def ref_tracker_for(new):
    """A RefTracker as annet.generators.run_partial_generators fills it: generator _RefUser (first half
    of the top-level blocks of the device's new config) refers to generator _RefDef (second half)."""
    from annet.reference import RefTracker
    rows = list(new.items())
    half = max(1, len(rows) // 2)
    a, b = odict(rows[:half]), odict(rows[half:] or rows[:half])
    rt = RefTracker()
    rt.add(_RefUser, _RefDef)
    rt.config(_RefUser, a)
    rt.config(_RefDef, b)
    return rt


def exercise(model, soft):
    """Real patch operations for this hardware, in this process, between two loads of its rulebook."""
    from annet import api
    from annet.annlib import patching as lib_patching
    hw = HardwareView(model, soft)
    vendor = hw.vendor
    smp = samples_for(vendor)
    picked = []
    if smp:
        k = zlib.crc32(model.encode()) % len(smp)
        picked = [smp[k], smp[(k + 1) % len(smp)]]
    jobs = [(to_odict(x["old"]), to_odict(x["new"]), x["name"]) for x in picked] + [(odict(), to_odict(GENERIC_NEW), "generic")]
    ops = {"jobs": 0, "patched": 0, "raised": 0, "refs": 0, "names": []}
    for old, new, name in jobs:
        ops["jobs"] += 1
        ops["names"].append(name)
        rt = ref_tracker_for(new if new else old)
        ops["refs"] += len(rt.configs())
        try:                                        # the whole device job, references included
            api._diff_and_patch(SimpleNamespace(hw=hw), old, new, None, None, False, ref_track=rt)
            ops["patched"] += 1
        except BaseException:  # noqa
            ops["raised"] += 1
        try:                                        # and the boundary function on its own, as api.patch / deploy call it
            rb = rb_mod.get_rulebook(hw)
            pre = lib_patching.make_pre(lib_patching.make_diff(old, new, rb, []))
            api.patch_from_pre(pre, hw, rb, False, ref_track=rt)
            ops["patched"] += 1
        except BaseException:  # noqa
            ops["raised"] += 1
        try:
            o = lib_patching.Orderer(rb_mod.get_rulebook(hw)["ordering"], vendor)
            o.ref_insert(rt)
            o.order_config(new)
        except BaseException:  # noqa
            ops["raised"] += 1
    return ops


def vendor_of(model, soft):
    try:
        v = HardwareView(model, soft).vendor
        return {"none": True} if v is None else {"name": str(v)}
    except BaseException as e:  # noqa
        return {"exc": exc_enum(e)}


def apply_perm(names, spec):
    if spec == "reverse":
        return list(reversed(names))
    if isinstance(spec, list) and spec[0] == "front":
        return [n for n in names if n == spec[1]] + [n for n in names if n != spec[1]]
    if isinstance(spec, list) and spec[0] == "seed":
        out = list(names)
        random.Random(spec[1]).shuffle(out)
        return out
    raise ValueError(f"bad permutation spec {spec!r}")


def one(case, rows, perms):
    model, soft = case["model"], case["soft"]
    res = {"hits": sorted({rid for _, rid, rx in rows if rx.search(model)})}
    try:
        HardwareView(model, soft)
        tr, _fa = devdb.parse_hw_model(model)
        res["true"] = [list(s) for s in tr]
        # the attribute names of the hardware view = true | false sequences; the same set for every model string
        # (a plain equality of two real outputs, reported as a flag; the set itself goes into tables["all"])
        res["all_same"] = (set(tr) | set(_fa)) == all_attr_sequences()
    except BaseException as e:  # noqa
        res["true"] = None
        res["exc"] = exc_enum(e)
    res["vendor"] = vendor_of(model, soft)
    if case.get("static"):
        res["perm"] = []
        res["rb"] = {"loaded": False, "logic_ok": False, "regex_ok": False, "digests": [], "exc": None, "stats": None,
                     "skipped": True}
        return res
    reg = registry_connector.get()
    orig = list(reg.vendors.items())
    names = [n for n, _ in orig]
    res["perm"] = []
    try:
        for spec in perms:
            order = apply_perm(names, spec)
            d = dict(orig)
            reg.vendors.clear()
            reg.vendors.update((n, d[n]) for n in order)
            res["perm"].append(vendor_of(model, soft))
    finally:
        reg.vendors.clear()
        reg.vendors.update(orig)
    # registration HISTORY: a fresh registry filled vendor by vendor through the public register(), with a lookup
    # after every registration (plugins registered lazily, after somebody already asked) - the final answer must be
    # the one a registry filled before any lookup gives.  Forward and reversed order.
    if perms:
        for order in (names, list(reversed(names))):
            res["perm"].append(staged_vendor(reg, dict(orig), order, model, soft))
    res["rb"] = load_rulebooks(model, soft, ops=case.get("ops", True))
    return res


def staged_vendor(reg, by_name, order, model, soft):
    try:
        fresh = type(reg)()
        hw = HardwareView(model, soft)
        last = None
        for n in order:
            fresh.register(type(by_name[n]))
            last = fresh.match(hw, None)
        if last is None:
            return {"none": True}
        return {"name": str(last.NAME)}
    except BaseException as e:  # noqa
        return {"exc": exc_enum(e)}


_ALL = {}


def all_attr_sequences():
    """every sequence HardwareView answers an attribute access for (true or false): true | false of
    parse_hw_model, taken once from a string no regex of the database is found in"""
    if "all" not in _ALL:
        tr, fa = devdb.parse_hw_model("")
        _ALL["all"] = set(tr) | set(fa)
    return _ALL["all"]


def tables(rows):
    reg = registry_connector.get()
    out = {"db": [[seq, rid] for seq, rid, _ in rows],
           "vendors": [], "canonical": {}}
    try:
        out["all"] = sorted(list(s) for s in all_attr_sequences())
    except BaseException:  # noqa
        out["all"] = None
    for name, v in reg.vendors.items():
        try:
            items = list(v.match())
        except BaseException as e:  # noqa
            items = None
        out["vendors"].append([name, items])
        try:
            out["canonical"][name] = v.hardware.model
        except BaseException as e:  # noqa
            out["canonical"][name] = None
    return out


def run(payload):
    rows, _ = rid_table_safe()
    out = {"results": [one(c, rows, payload.get("perms", [])) for c in payload["cases"]]}
    if payload.get("tables"):
        out["tables"] = tables(rows)
    return out


def rid_table_safe():
    try:
        return rid_table()
    except BaseException as e:  # noqa
        return [], {}


if __name__ == "__main__":
    main(run)
