"""C02, generator stage: the production composition
       annet.gen._old_new_per_device(ctx, device, filterer) -> OldNewResult(old, new, acl_rules, filter_acl_rules)
       annet.api._diff_and_patch(device, res.old, res.new, res.acl_rules, res.filter_acl_rules, ...)
with real PartialGenerator subclasses, some of which do not run for the device.

case = {"vendor", "patching", "ordering", "old" (the device configuration, given to the code as TEXT), "new" (the desired
        configuration the generators draw their programs from), "filter": bool,
        "acls": [{"name", "text", "mode"}]}        one PartialGenerator subclass per entry, class name = name
  mode "run"          run_<vendor> and acl_<vendor> defined: the generator runs
       "novendor"     run_/acl_ defined for ANOTHER vendor only: supports_device() is false
       "novendor_acl" as novendor, but acl_<vendor> of the device is defined as well (still no run_<vendor>)
       "unsupported"  run_<vendor>/acl_<vendor> defined, supports_device() overridden to return False
       "refuse"       run_<vendor> raises NotSupportedDevice before yielding anything
       "refuse_late"  run_<vendor> yields its whole program and then raises NotSupportedDevice
  The program a generator replays is the part of `new` its OWN ACL passes (a generator may only yield rows of its ACL:
  _run_partial_generator applies it with fatal_acl=True); it is computed here with the real apply_acl and returned, the
  oracle (Coq) never sees it except as the desired configuration `new_gen` = merge of the programs of the generators
  that ran.

out = {"skip": reason}                        the case is outside the stage (ACL with an ignore rule, text round trip)
    | {"ran": [names of res.partial_results], "acl_text": res-side combined ACL text of the generators that ran,
       "new_gen": merge of the real partial configs (what the generators produced, before the combined ACL),
       "old_f", "new_f": res.get_old(), res.get_new()               (what _old_new_per_device hands to the patcher),
       "acl_is_none": res.get_acl_rules() is None,
       "diff", "patch", "cmd_paths", "patch_lines": _diff_and_patch on the result object's old / new / ACLs,
       "diff_full": make_diff(device config, new_gen, rb, [reference acl, filter]),
       "gen_paths": cmd_paths of _diff_and_patch(device config, new_gen, reference acl, filter)  - the direct call
                    the main stage of the check drives, with the ACL compiled from the texts of the generators that
                    support the device,
       "err" / "gen_err": "AssertionError" | "AclNotExclusiveError" | other}
"""
import textwrap
from types import SimpleNamespace

import pipeline_runner as PR
from _common import main, tree_json
from annet import api, gen, patching
from annet.annlib import tabparser
from annet.annlib.lib import merge_dicts
from annet.annlib.netdev.views.hardware import HardwareView
from annet.annlib.rbparser import acl as aclmod
from annet.annlib.rbparser.ordering import compile_ordering_text
from annet.generators import NotSupportedDevice, PartialGenerator
from annet.generators.result import RunGeneratorResult
from annet.rulebook.deploying import compile_deploying_text
from annet.rulebook.patching import compile_patching_text
from annet.types import GeneratorPartialResult

RUNS = ("run",)
INDENT = "  "


def compile_acl(text, vendor):
    aclmod.compile_acl_text.cache_clear()      # compiled rules carry per-run scratch state
    return aclmod.compile_acl_text(text, vendor)


class _Dev:
    """the least a network device needs for _old_new_per_device"""

    def __init__(self, hw):
        self.hw = hw
        self.tags = []
        self.hostname, self.fqdn, self.id, self.breed = "c02", "c02.example", 2, "c02"
        self.storage = SimpleNamespace(flush_perf=lambda: {})

    def is_pc(self):
        return False

    def __hash__(self):
        return 2

    def __eq__(self, other):
        return self is other


def tree_text(t, lvl=0):
    out = []
    for k, v in t.items():
        out.append(INDENT * lvl + k)
        out += tree_text(v, lvl + 1)
    return out


def walk(g, t):
    for k, v in t.items():
        if v:
            with g.block(k):
                yield from walk(g, v)
        else:
            yield k


def make_class(name, vend, other, mode, acl_text, program):
    def acl_fn(self, device):
        return acl_text

    def run_fn(self, device):
        if mode == "refuse":
            raise NotSupportedDevice("%s does not configure %s" % (name, device.hostname))
        yield from walk(self, program)
        if mode == "refuse_late":
            raise NotSupportedDevice("%s does not configure %s" % (name, device.hostname))

    ns = {"TAGS": ["c02"]}
    if mode in ("novendor", "novendor_acl"):
        ns["run_" + other] = run_fn
        ns["acl_" + other] = acl_fn
        if mode == "novendor_acl":
            ns["acl_" + vend] = acl_fn
    else:
        ns["run_" + vend] = run_fn
        ns["acl_" + vend] = acl_fn
        if mode == "unsupported":
            ns["supports_device"] = lambda self, device: False
    return type(name, (PartialGenerator,), ns)


def reference_text(parts):
    """the combined ACL of the generators that support the device, built by the real RunGeneratorResult.acl_text()"""
    r = RunGeneratorResult()
    for a in parts:
        r.add_partial(GeneratorPartialResult(name=a["name"], tags=[], acl=a["text"], acl_rules=None, acl_safe="",
                                             acl_safe_rules=None, output="", config={}, safe_config={}, perf=None))
    return r.acl_text()


def one(case):
    vendor = case["vendor"]
    res = {}
    try:
        hw = HardwareView(case.get("hw") or PR.HW[vendor], "")
        if hw.vendor != vendor:
            return {"skip": "hw-vendor"}
        rb = {"patching": compile_patching_text(case["patching"], vendor),
              "ordering": compile_ordering_text(case.get("ordering", ""), vendor),
              "deploying": compile_deploying_text("", vendor)}
        PR.OVERRIDE["rb"] = rb
        fmt = PR.fmt_for(vendor)
        old_text = "\n".join(tree_text(case["old"]))
        if tree_json(tabparser.parse_to_tree(text=old_text, splitter=fmt.split)) != case["old"] or not case["old"]:
            return {"skip": "old-text-round-trip"}
        other = "cisco" if vendor != "cisco" else "huawei"
        storage = SimpleNamespace(flush_perf=lambda: {})
        gens, programs = [], {}
        for a in case["acls"]:
            try:
                own = compile_acl(textwrap.dedent(a["text"]), vendor)
            except NotImplementedError:
                return {"skip": "acl-ignore-rule"}
            programs[a["name"]] = patching.apply_acl(PR.to_odict(case["new"]), own)
            gens.append(make_class(a["name"], vendor, other, a["mode"], a["text"], programs[a["name"]])(storage))
        res["programs"] = {k: tree_json(v) for k, v in programs.items()}
        dev = _Dev(hw)
        flt = bool(case.get("filter"))
        args = SimpleNamespace(no_acl=False, no_acl_exclusive=False, acl_safe=False, profile=False,
                               fail_on_empty_config=False, generators_context=None, required_packages_check=False,
                               filter_acl="stdin" if flt else None, filter_ifaces=None, filter_peers=None,
                               filter_policies=None)
        ctx = gen.OldNewDeviceContext(
            config="running", args=args, downloaded_files={}, failed_files={}, running={dev: old_text}, failed_running={},
            no_new=False, stdin={"filter_acl": "~ %global\n" if flt else None, "config": None}, add_annotations=False,
            add_implicit=False, do_files_download=False,
            gens=gen.DeviceGenerators(partial={dev: list(gens)}, ref={dev: []}, entire={dev: []}, json_fragment={dev: []}),
            fetched_packages={}, failed_packages={}, device_count=1, do_print_perf=False)
        aclmod.compile_acl_text.cache_clear()
        try:
            r = gen._old_new_per_device(ctx, dev, None)
            if r.err is not None:
                raise r.err
        except patching.AclNotExclusiveError:
            return {"skip": "AclNotExclusiveError"}
        ran = list(r.partial_results)
        res["ran"] = ran
        new_gen = PR.to_odict({})
        for name in ran:
            new_gen = merge_dicts(new_gen, r.partial_results[name].config)
        res["new_gen"] = tree_json(new_gen)
        expect = PR.to_odict({})
        for a in case["acls"]:
            if a["name"] in ran:
                expect = merge_dicts(expect, programs[a["name"]])
        if tree_json(expect) != res["new_gen"]:
            return {"skip": "program-text-round-trip"}
        res["old_f"] = tree_json(r.get_old(False))
        res["new_f"] = tree_json(r.get_new(False))
        res["acl_is_none"] = r.get_acl_rules(False) is None
        try:
            d, p = api._diff_and_patch(dev, r.get_old(False), r.get_new(False), r.get_acl_rules(False), r.filter_acl_rules,
                                       False, rb=rb)
            res["diff"] = PR.diff_json(d)
            res["patch"] = PR.patch_json(p)
            res["cmd_paths"] = [list(k) for k in fmt.cmd_paths(p).keys()]
            res["patch_lines"] = PR.lines_of(fmt, p)
        except AssertionError:
            res["err"] = "AssertionError"
        except Exception as e:  # noqa
            res["err"] = type(e).__name__ + ":" + str(e)[:200]
        # the direct call with the reference ACL: the texts of the generators that SUPPORT the device
        text = reference_text([a for a in case["acls"] if a["mode"] in RUNS])
        res["acl_text"] = text
        uflt = (lambda: compile_acl("~ %global\n", vendor)) if flt else (lambda: None)
        fresh_old = lambda: PR.to_odict(case["old"])       # noqa: E731
        fresh_new = lambda: PR.to_odict(res["new_gen"])    # noqa: E731
        try:
            res["diff_full"] = PR.diff_json(patching.make_diff(fresh_old(), fresh_new(), rb, [compile_acl(text, vendor), uflt()]))
        except Exception as e:  # noqa
            res["diff_full_err"] = type(e).__name__ + ":" + str(e)[:200]
        try:
            _, p2 = api._diff_and_patch(SimpleNamespace(hw=hw), fresh_old(), fresh_new(), compile_acl(text, vendor), uflt(),
                                        False, rb=rb)
            res["gen_paths"] = [list(k) for k in fmt.cmd_paths(p2).keys()]
        except AssertionError:
            res["gen_err"] = "AssertionError"
        except Exception as e:  # noqa
            res["gen_err"] = type(e).__name__ + ":" + str(e)[:200]
    except Exception:  # noqa
        import traceback
        res["fatal"] = traceback.format_exc()[-1500:]
    return res


if __name__ == "__main__":
    main(lambda cases: [one(c) for c in cases])
