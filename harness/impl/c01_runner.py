"""C01: chains of deployments through the real patching pipeline.

case: {vendor, patching, ordering, old, news: [new_1..new_k], [shipped: bool], [hw]}
out : {steps: [ {old, new, diff_full, diff, patch, cmd_paths, patch_lines | err,
                 dev,                         # device state after executing cmd_paths on `old`
                 second: {diff, cmd_paths | err}} ... ]}   # the pipeline run again on (dev, new)

The device state fed back as the next `old` is produced by `dev_exec` below, a plain mirror of
coq/Model/Device.v that asks the REAL rulebook matcher (`_match_row_to_rules`) for the slot of
a row.  It is not an oracle: for every step Coq recomputes `Device.exec` on the real cmd_paths
and compares (`c01_agree_device`), and evaluates `expected` / P_C01 itself.
"""
import copy
from collections import OrderedDict as odict
from types import SimpleNamespace

import pipeline_runner  # noqa  (sets the connectors, SynthProvider)
from pipeline_runner import HW, OVERRIDE, diff_json, patch_json, fmt_for, lines_of, to_odict
from _common import main, tree_json
from annet import api, patching, rulebook
from annet.annlib.patching import _match_row_to_rules
from annet.annlib.netdev.views.hardware import HardwareView
from annet.annlib.rbparser.ordering import compile_ordering_text
from annet.rulebook.patching import compile_patching_text
from annet.rulebook.deploying import compile_deploying_text

# Device.v_exits, per vendor: registry exit word + the words the formatter family emits
EXITS = {
    "huawei": ["quit", "end-filter", "end-list", "endif"], "h3c": ["quit", "end-filter", "end-list", "endif"],
    "optixtrans": ["quit"],
    "cisco": ["exit", "exit-address-family"], "iosxr": ["exit", "end-set", "endif", "end-policy"],
    "nexus": ["exit"], "arista": ["exit"], "aruba": ["exit"], "b4com": ["exit"], "ribbon": ["exit"],
}


def _slot(m):
    return (m["raw_rule"], tuple(m["key"]))


def _dl(m):
    return getattr(m["attrs"]["diff_logic"], "__name__", "")


def dev_cmd(vendor, rules, cmd, f):
    """Device.exec_cmd on one level (f: list of [row, subtree-list])."""
    if cmd in EXITS.get(vendor, ()):
        return f
    m, crs = _match_row_to_rules(cmd, rules)
    if m:
        s = _slot(m)
        idx = None
        for i, (r, _) in enumerate(f):                      # Device.find (in_slot rs s)
            x = _match_row_to_rules(r, rules)[0]
            if x and _slot(x) == s:
                idx = i
                break
        if idx is None:
            return f + [[cmd, []]]
        r, sub = f[idx]
        if r == cmd:                                        # enter: children of %rewrite rules are dropped
            keep = []
            for (cr, csub) in sub:
                cm, _ = _match_row_to_rules(cr, crs)
                if cm and _dl(cm) == "rewrite_diff":
                    continue
                keep.append([cr, csub])
            return f[:idx] + [[cmd, keep]] + f[idx + 1:]
        if _dl(m) == "ordered_diff":
            return f[:idx] + f[idx + 1:] + [[cmd, []]]
        return f[:idx] + [[cmd, []]] + f[idx + 1:]
    out = []
    for (r, sub) in f:
        x = _match_row_to_rules(r, rules)[0]
        if x and x["attrs"]["reverse"].format(*x["key"]) == cmd:
            continue
        out.append([r, sub])
    return out


def dev_path(vendor, rules, path, f):
    if not path:
        return f
    if len(path) == 1:
        return dev_cmd(vendor, rules, path[0], f)
    m, crs = _match_row_to_rules(path[0], rules)
    if not m:
        return f
    out, done = [], False
    for (r, sub) in f:
        if not done and r == path[0]:
            out.append([r, dev_path(vendor, crs, path[1:], sub)])
            done = True
        else:
            out.append([r, sub])
    return out


def dev_exec(vendor, rules, paths, tree):
    f = to_list(tree)
    for p in paths:
        f = dev_path(vendor, rules, list(p), f)
    return to_dict(f)


def to_list(t):
    return [[k, to_list(v)] for k, v in t.items()]


def to_dict(f):
    d = {}
    for k, v in f:
        d[k] = to_dict(v)     # duplicate rows (outside the domain): the last one wins
    return d


def slots_unique(rules, tree):
    """at most one row per (rule, key) on every level (the property's domain); statistics only"""
    seen = set()
    for row, sub in tree.items():
        m, crs = _match_row_to_rules(row, rules)
        if not m:
            continue
        s = _slot(m)
        if s in seen:
            return False
        seen.add(s)
        if not slots_unique(crs, sub):
            return False
    return True


def run_pair(dev, fmt, rb, old, new, full=True):
    res = {}
    o, n = to_odict(old), to_odict(new)
    if full:
        try:
            res["diff_full"] = diff_json(patching.make_diff(o, n, rb, [None]))
        except Exception as e:  # noqa
            res["diff_full_err"] = type(e).__name__
    try:
        d, p = api._diff_and_patch(dev, o, n, None, None, False, rb=rb)
        res["diff"] = diff_json(d)
        res["cmd_paths"] = [list(k) for k in fmt.cmd_paths(p).keys()]
        if full:
            res["patch"] = patch_json(p)
            res["patch_lines"] = lines_of(fmt, p)
    except AssertionError:
        res["err"] = "AssertionError"
    except Exception as e:  # noqa
        res["err"] = type(e).__name__ + ":" + str(e)[:200]
    return res


def one(case):
    vendor = case["vendor"]
    res = {"steps": []}
    try:
        hw = HardwareView(case.get("hw") or HW[vendor], "")
        if case.get("shipped"):
            OVERRIDE.pop("rb", None)
            rb = rulebook.get_rulebook(hw)
        else:
            rb = {"patching": compile_patching_text(case["patching"], vendor),
                  "ordering": compile_ordering_text(case.get("ordering", ""), vendor),
                  "deploying": compile_deploying_text("", vendor)}
            OVERRIDE["rb"] = rb
        fmt = fmt_for(vendor)
        dev = SimpleNamespace(hw=hw)
        cur = case["old"]
        for new in case["news"]:
            st = run_pair(dev, fmt, rb, cur, new)
            st["old"], st["new"] = cur, new
            st["slots_unique"] = slots_unique(rb["patching"], cur) and slots_unique(rb["patching"], new)
            if "err" in st or "diff_full_err" in st:
                res["steps"].append(st)
                break
            nxt = dev_exec(vendor, rb["patching"], st["cmd_paths"], cur)
            st["dev"] = nxt
            st["second"] = run_pair(dev, fmt, rb, nxt, new, full=False)
            res["steps"].append(st)
            cur = nxt
    except Exception:  # noqa
        import traceback
        res["fatal"] = traceback.format_exc()[-1500:]
    return res


if __name__ == "__main__":
    main(lambda cases: [one(c) for c in cases])
