"""C20: job sequences in ONE process versus each job alone in a FRESH process, on the real code.

payload {"mode": "corpus"}                       -> shipped before/after samples (hw, vendor, old, new)
payload {"mode": "probe", "models": [str]}        -> {"vendors": {name: reverse prefix}, "models": {model: vendor|null}}
payload {"mode": "seqs", "seqs": [[job, ...], ...], "spawn": k}
   job = {"kind": "synth"|"shipped", "vendor", "hw"?, "patching", "ordering", "acl", "facl",
          "old", "new", "old_id", "new_id", "add_comments", "refs"?}
   refs = [[tree, tree], ...]: the device's generators referred to each other; a RefTracker is filled as
          annet.generators.run_partial_generators fills it (one pair of generator classes per entry, the
          first one's config refers to the second one's) and handed to _diff_and_patch(ref_track=...)
   -> per sequence a list of per-job observations
      {"seq": run,  "fresh": result, "fresh_spawn": result?}
      run = {"result", "old_before", "old_after", "new_before", "new_after", "rb_before", "rb_after",
             "rb_changed", "cells_before", "cells_after", "acl_static_before", "acl_static_after", ...}

Process discipline.  This process only imports (it never runs a job): it is the pristine state of
a just-started interpreter.  Every sequence runs in its own forked child (one process for the whole
sequence: lru_caches, the provider cache and the compiled objects persist from job to job, as in
a pool worker), and every job runs alone in another child forked from the pristine state (no job
was ever processed there).  For the first `spawn` jobs the job also runs in a newly exec'ed
interpreter (`--single`), so that "forked from pristine" can be compared with "fresh interpreter".
"""
import hashlib
import json
import os
import re
import subprocess
import sys
import traceback
import types
from collections import OrderedDict as odict
from types import SimpleNamespace

from _common import main, tree_json
from annet.hardware import hardware_connector, AnnetHardwareProvider
from annet.rulebook import rulebook_provider_connector, DefaultRulebookProvider


class C20Provider(DefaultRulebookProvider):
    """The default provider (its caches included) plus one more root for %logic functions."""
    root_modules = ("annet.rulebook", "c20_rulebook")


hardware_connector.set(AnnetHardwareProvider)
rulebook_provider_connector.set(C20Provider)

from annet import api, patching, rulebook  # noqa: E402
from annet.annlib.netdev.views.hardware import HardwareView  # noqa: E402
from annet.annlib.rbparser.ordering import compile_ordering_text  # noqa: E402
from annet.annlib.rbparser.acl import compile_acl_text  # noqa: E402
from annet.rulebook.patching import compile_patching_text  # noqa: E402
from annet.rulebook.deploying import compile_deploying_text  # noqa: E402

HW = {
    "huawei": "Huawei CE6870", "h3c": "H3C S6800", "optixtrans": "Huawei OptiXtrans DC908", "cisco": "Cisco Catalyst C3750",
    "nexus": "Cisco Nexus 9000", "iosxr": "Cisco ASR 9000", "arista": "Arista DCS-7280", "aruba": "Aruba AP-505",
    "b4com": "B4com CS4100", "juniper": "Juniper MX960", "ribbon": "Ribbon NPT-1200", "nokia": "Nokia 7750",
    "routeros": "RouterOS", "pc": "PC",
}


# ------------------------------------------------------------------ canonical views

def to_odict(t):
    return odict((k, to_odict(v)) for k, v in t.items())


def diff_json(d):
    out = []
    for (op, row, children, match) in d:
        out.append({"op": op, "row": row, "raw": (match or {}).get("raw_rule", ""),
                    "key": [("" if k is None else str(k)) for k in ((match or {}).get("key", ()) or ())],
                    "kids": diff_json(children)})
    return out


def sk_json(sk):
    if not sk:
        return None
    n = sk[0]
    return ["inf" if n == float("inf") else ("-inf" if n == float("-inf") else int(n)), sk[1], bool(sk[2])]


def patch_json(p):
    return [{"row": str(i.row), "child": None if i.child is None else patch_json(i.child), "sk": sk_json(i.sort_key)}
            for i in p.itms]


def snap(x, _seen=None):
    """Deep canonical view of a compiled object: everything that can influence behaviour, nothing that
    is an address.  Order of dict entries is kept (rule order is behaviour)."""
    if x is None or isinstance(x, (str, int, float, bool)):
        return x
    _seen = _seen or ()
    if id(x) in _seen:
        return ["cycle"]
    _seen = _seen + (id(x),)
    if isinstance(x, dict):
        return ["d", [[snap(k, _seen), snap(v, _seen)] for k, v in x.items()]]
    if isinstance(x, (list, tuple)):
        return ["l", [snap(v, _seen) for v in x]]
    if isinstance(x, (set, frozenset)):
        return ["s", sorted(json.dumps(snap(v, _seen), sort_keys=True) for v in x)]
    if isinstance(x, re.Pattern):
        return ["re", x.pattern, int(x.flags)]
    if callable(x) and hasattr(x, "__qualname__"):
        closure = [snap(c.cell_contents, _seen) for c in (getattr(x, "__closure__", None) or ())]
        return ["fn", str(getattr(x, "__module__", None)) + "." + str(x.__qualname__), closure]
    if isinstance(x, bytes):
        return ["b", x.hex()]
    state = getattr(x, "__dict__", None)
    if state is None and hasattr(x, "__slots__"):
        state = {k: getattr(x, k, None) for k in x.__slots__}
    return ["obj", type(x).__module__ + "." + type(x).__qualname__, snap(state or {}, _seen)]


def strip_match(x):
    """The same view without the ACL scratch field attrs["match"]."""
    if isinstance(x, dict):
        return ["d", [[snap(k), strip_match(v)] for k, v in x.items() if k != "match"]]
    return snap(x)


def digest(s):
    return hashlib.sha1(json.dumps(s, sort_keys=True, default=str).encode()).hexdigest()


def flat(s, path=""):
    """snap view -> {path: leaf} (to name what changed)."""
    out = {}
    if isinstance(s, list) and s and s[0] == "d":
        for k, v in s[1]:
            out.update(flat(v, path + "/" + (k if isinstance(k, str) else json.dumps(k))))
    elif isinstance(s, list) and s and s[0] == "l":
        out[path] = json.dumps(s)
    else:
        out[path] = json.dumps(s)
    return out


def changed_paths(a, b):
    fa, fb = flat(a), flat(b)
    return sorted(k for k in set(fa) | set(fb) if fa.get(k) != fb.get(k))[:8]


def cells_of(rules):
    """The mutable attributes of a compiled patching rulebook in the model's allocation order:
    local rules in order, each followed by its subtree, then global rules."""
    out = []
    for scope in ("local", "global"):
        for raw, rule in rules[scope].items():
            a = rule["attrs"]
            if rule["type"] == "ignore":
                out.append({"raw": raw, "reverse": "", "fc": False, "comment": [], "context": []})
            else:
                out.append({"raw": raw, "reverse": a["reverse"], "fc": bool(a["force_commit"]),
                            "comment": [str(c) for c in a["comment"]],
                            "context": sorted(f"{k}={v}" for k, v in (a.get("context") or {}).items())})
            if rule.get("children"):
                out.extend(cells_of(rule["children"]))
    return out


def acl_matches(rules):
    """attrs["match"] of every compiled ACL rule (None = never written), same traversal."""
    out = []
    for scope in ("local", "global"):
        for raw, rule in rules[scope].items():
            m = rule["attrs"].get("match", None)
            out.append(None if m is None else sorted([str(k), str(v)] for k, v in m.items()))
            if rule.get("children"):
                out.extend(acl_matches(rule["children"]))
    return out


# ------------------------------------------------------------------ one job on the real code

def get_objects(job):
    vendor = job["vendor"]
    if job["kind"] == "shipped":
        hw = HardwareView(job["hw"], "")
        rb = rulebook.get_rulebook(hw)                      # provider cache, lru_caches below it
        rb_arg = None
    else:
        hw = HardwareView(job.get("hw") or HW[vendor], "")
        rb = {"patching": compile_patching_text(job["patching"], vendor),          # lru_cache: shared
              "ordering": compile_ordering_text(job.get("ordering") or "", vendor),
              "deploying": compile_deploying_text("", vendor)}
        rb_arg = rb
    acl = compile_acl_text(job["acl"], hw.vendor) if job.get("acl") is not None else None
    facl = compile_acl_text(job["facl"], hw.vendor, allow_ignore=True) if job.get("facl") is not None else None
    return hw, rb, rb_arg, acl, facl


def ref_tracker(refs):
    if not refs:
        return None
    from annet.reference import RefTracker
    rt = RefTracker()
    for i, (a, b) in enumerate(refs):
        ga, gb = type(f"RefUser{i}", (), {}), type(f"RefDef{i}", (), {})
        rt.add(ga, gb)
        rt.config(ga, to_odict(a))
        rt.config(gb, to_odict(b))
    return rt


def compute(hw, rb, rb_arg, acl, facl, old, new, add_comments, refs=None):
    res = {}
    try:
        d, p = api._diff_and_patch(SimpleNamespace(hw=hw), old, new, acl, facl, add_comments,
                                   ref_track=ref_tracker(refs), rb=rb_arg)
        res["diff"] = diff_json(d)
        res["patch"] = patch_json(p)
    except AssertionError:
        res["err"] = "AssertionError"
    except Exception as e:  # noqa
        res["err"] = type(e).__name__
        res["err_text"] = str(e)[:200]
    try:
        res["ordered"] = tree_json(patching.Orderer(rb["ordering"], hw.vendor).order_config(new))
    except Exception as e:  # noqa
        res["ordered_err"] = type(e).__name__
    return res


def exec_job(job, objs, observe):
    hw, rb, rb_arg, acl, facl = get_objects(job)

    def tree(side):
        k = job.get(side + "_id")
        if k is None:
            return to_odict(job[side])
        k = f"{side[0]}{k}" if not isinstance(k, str) else k
        if k not in objs:
            objs[k] = to_odict(job[side])
        return objs[k]

    old, new = tree("old"), tree("new")
    out = {"hw_vendor": hw.vendor}
    if observe:
        s0 = snap(rb)
        out["old_before"], out["new_before"] = tree_json(old), tree_json(new)
        out["rb_before"] = digest(s0)
        if job["kind"] == "synth":
            out["cells_before"] = cells_of(rb["patching"])
        a0 = [None if a is None else strip_match(a) for a in (acl, facl)]
        out["acl_static_before"] = digest(a0)
        out["acl_full_before"] = digest([None if a is None else snap(a) for a in (acl, facl)])
    out["result"] = compute(hw, rb, rb_arg, acl, facl, old, new, bool(job.get("add_comments")), job.get("refs"))
    if observe:
        s1 = snap(rb)
        out["old_after"], out["new_after"] = tree_json(old), tree_json(new)
        out["rb_after"] = digest(s1)
        if out["rb_after"] != out["rb_before"]:
            out["rb_changed"] = changed_paths(s0, s1)
        if job["kind"] == "synth":
            out["cells_after"] = cells_of(rb["patching"])
        a1 = [None if a is None else strip_match(a) for a in (acl, facl)]
        out["acl_static_after"] = digest(a1)
        if out["acl_static_after"] != out["acl_static_before"]:
            out["acl_changed"] = changed_paths(["l", [x for x in a0 if x is not None]], ["l", [x for x in a1 if x is not None]])
        out["acl_full_after"] = digest([None if a is None else snap(a) for a in (acl, facl)])
        out["acl_match_after"] = [None if a is None else acl_matches(a) for a in (acl, facl)]
    return out


# ------------------------------------------------------------------ processes

def in_child(fn, *args):
    r, w = os.pipe()
    pid = os.fork()
    if pid == 0:
        try:
            os.close(r)
            try:
                data = json.dumps(fn(*args))
            except BaseException:  # noqa
                data = json.dumps({"fatal": traceback.format_exc()[-2000:]})
            with os.fdopen(w, "w") as f:
                f.write(data)
        finally:
            os._exit(0)
    os.close(w)
    with os.fdopen(r) as f:
        data = f.read()
    os.waitpid(pid, 0)
    return json.loads(data) if data else {"fatal": "child died"}


def run_seq(jobs):
    objs = {}
    return [exec_job(j, objs, True) for j in jobs]


def run_fresh(job):
    return exec_job(job, {}, False)["result"]


def run_spawn(job):
    p = subprocess.run([sys.executable, os.path.abspath(__file__), "--single"], input=json.dumps(job),
                       capture_output=True, text=True, env=os.environ, timeout=300)
    if p.returncode != 0:
        return {"fatal": p.stderr[-1500:]}
    return json.loads(p.stdout.strip().splitlines()[-1])


def run(payload):
    if payload["mode"] == "corpus":
        import corpus
        sm = in_child(lambda: [dict(s, old=tree_json(s["old"]), new=tree_json(s["new"]))
                               for s in corpus.samples(os.environ["ANNET_VERIF_REPO_ROOT"])])
        return sm
    if payload["mode"] == "probe":
        def probe():
            from annet.vendors import registry_connector
            reg = registry_connector.get()
            vendors = {str(n): str(v.reverse) for n, v in reg.vendors.items()}
            models = {}
            for m in payload["models"]:
                try:
                    v = HardwareView(m, "").vendor
                    models[m] = None if v is None else str(v)
                except Exception:  # noqa
                    models[m] = None
            return {"vendors": vendors, "models": models, "canonical": HW}
        return in_child(probe)
    out = []
    spawn = int(payload.get("spawn", 0))
    for jobs in payload["seqs"]:
        seq = in_child(run_seq, jobs)
        if isinstance(seq, dict):      # fatal in the sequence child
            out.append({"fatal": seq.get("fatal", "?")})
            continue
        obs = []
        for j, run_ in zip(jobs, seq):
            o = {"seq": run_, "fresh": in_child(run_fresh, j)}
            if spawn > 0:
                spawn -= 1
                o["fresh_spawn"] = run_spawn(j)
            obs.append(o)
        out.append({"jobs": obs})
    return out


if __name__ == "__main__":
    if "--single" in sys.argv:
        job = json.load(sys.stdin)
        sys.stdout.write("\n" + json.dumps(run_fresh(job)) + "\n")
    else:
        main(run)
