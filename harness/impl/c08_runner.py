"""C08: the pipeline runner (pipeline_runner.one, unchanged) plus a second metamorphic run in which
the row removed from old and new is chosen by the harness (case["meta_row2"]) instead of by the runner.

out: everything pipeline_runner.one returns, plus
     meta2_row, and meta2_patch (the real patch of (old - row, new - row)) or meta2_err.
"""
from collections import OrderedDict as odict  # noqa: F401
from types import SimpleNamespace

from _common import main
import pipeline_runner as PR


def one(case):
    res = PR.one(case)
    r = case.get("meta_row2")
    if r is None or "fatal" in res:
        return res
    try:
        vendor = case["vendor"]
        hw = PR.HardwareView(case.get("hw") or PR.HW[vendor], "")
        # the rulebook PR.one compiled for this case (synthetic) or the shipped one
        rb = PR.rulebook.get_rulebook(hw) if case.get("shipped") else PR.OVERRIDE["rb"]
        dev = SimpleNamespace(hw=hw)
        old2 = PR.to_odict({k: v for k, v in case["old"].items() if k != r})
        new2 = PR.to_odict({k: v for k, v in case["new"].items() if k != r})
        res["meta2_row"] = r
        try:
            _, p2 = PR.api._diff_and_patch(dev, old2, new2, None, None, False, rb=rb)
            res["meta2_patch"] = PR.patch_json(p2)
        except AssertionError:
            res["meta2_err"] = "AssertionError"
    except Exception:  # noqa
        import traceback
        res["fatal"] = traceback.format_exc()[-1500:]
    return res


if __name__ == "__main__":
    main(lambda cases: [one(c) for c in cases])
