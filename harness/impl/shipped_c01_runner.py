"""C01 with the SHIPPED rulebooks: one deployment through the real _diff_and_patch with get_rulebook(hw).

case: {hw, vendor, path: [positions of p1..pn, r among the local rules of their level], old, new}
out : {matched: every row of old/new is matched, in the full real rulebook, by the rule of the chain it was built
                from (level by level, _match_row_to_rules),
       patch, cmd_paths, diff | err,
       dev:    device after executing cmd_paths on old - c01_runner.dev_exec (a plain mirror of Model/Device.v, checked
               by Coq on every case) over the FOCUSED rules (the chain alone, see coq/Spec/P_C01s.v),
       second: {diff, cmd_paths | err}  the real pipeline again on (dev, new), full rulebook}
"""
from types import SimpleNamespace

import c01_runner as C
from _common import main
from pipeline_runner import OVERRIDE, fmt_for
from annet import rulebook
from annet.annlib.patching import _match_row_to_rules
from annet.annlib.netdev.views.hardware import HardwareView


def focus(path, rules):
    if not path:
        return {"local": {}, "global": {}}
    keys = list(rules["local"])
    loc = {}
    if path[0] < len(keys):
        raw = keys[path[0]]
        r = dict(rules["local"][raw])
        r["children"] = focus(path[1:], r["children"] or {"local": {}, "global": {}})
        loc[raw] = r
    return {"local": loc, "global": {}}


def matched(path, rules, tree):
    if not tree:
        return True
    if not path:
        return False
    keys = list(rules["local"])
    if path[0] >= len(keys):
        return False
    for row, sub in tree.items():
        m, crs = _match_row_to_rules(row, rules)
        if not m or m["raw_rule"] != keys[path[0]] or m["raw_rule"] in rules["global"]:
            return False
        if not matched(path[1:], crs, sub):
            return False
    return True


def one(case):
    res = {}
    try:
        OVERRIDE.pop("rb", None)
        hw = HardwareView(case["hw"], "")
        rb = rulebook.get_rulebook(hw)
        fmt = fmt_for(case["vendor"])
        dev = SimpleNamespace(hw=hw)
        old, new = case["old"], case["new"]
        res["matched"] = matched(case["path"], rb["patching"], old) and matched(case["path"], rb["patching"], new)
        st = C.run_pair(dev, fmt, rb, old, new)
        res.update(st)
        if "err" not in st:
            res["dev"] = C.dev_exec(case["vendor"], focus(case["path"], rb["patching"]), st["cmd_paths"], old)
            res["second"] = C.run_pair(dev, fmt, rb, res["dev"], new, full=False)
    except Exception:  # noqa
        import traceback
        res["fatal"] = traceback.format_exc()[-1500:]
    return res


if __name__ == "__main__":
    main(lambda cases: [one(c) for c in cases])
