"""C02: the real ACL-aware patching pipeline on generated (rulebook, ACL, old, new) cases.

case = {"vendor", "patching", "ordering", "old", "new",
        "acls": [{"name": generator name or None, "text": ACL text}, ...]}
  several entries with names are combined exactly as annet.generators.result does
  (_combine_acl_text: every line tagged with %generator_names=<name>); a single entry with
  name None is used as it is.
out  = {"acl_text": the combined text,
        "compile": "NotImplementedError"                     (ignore rule in the ACL) or
        "old_f", "new_f": patching.apply_acl(old|new, acl),
        "diff_full": patching.make_diff(old, new, rb, [acl])       (unfiltered inputs),
        "diff", "patch", "cmd_paths", "patch_lines": api._diff_and_patch(dev, old, new, acl, None, False, rb=rb),
        "err": "AssertionError" when a logic function asserts,
        "gen_paths": cmd_paths of the same call on inputs filtered first, as annet.gen._old_new_per_device does}
"""
from types import SimpleNamespace

import pipeline_runner as PR
from _common import main, tree_json
from annet import api, patching
from annet.annlib.netdev.views.hardware import HardwareView
from annet.annlib.rbparser import acl as aclmod
from annet.annlib.rbparser.ordering import compile_ordering_text
from annet.generators.result import _combine_acl_text
from annet.rulebook.deploying import compile_deploying_text
from annet.rulebook.patching import compile_patching_text


def acl_text_of(case):
    acls = case["acls"]
    if len(acls) == 1 and acls[0].get("name") is None:
        return acls[0]["text"]
    # the combined ACL exactly as annet.gen builds it: one RunGeneratorResult per device, one partial result per
    # generator, acl_text() over them (a fresh result object per case - what one device sees must not depend on
    # the generators of devices processed before it in this process)
    from annet.generators.result import RunGeneratorResult
    from annet.types import GeneratorPartialResult
    res = RunGeneratorResult()
    for a in acls:
        res.add_partial(GeneratorPartialResult(name=a["name"], tags=[], acl=a["text"], acl_rules=None, acl_safe="",
                                               acl_safe_rules=None, output="", config={}, safe_config={}, perf=None))
    return res.acl_text()


def compile_acl(text, vendor):
    aclmod.compile_acl_text.cache_clear()      # compiled rules carry per-run scratch state
    return aclmod.compile_acl_text(text, vendor)


def one(case):
    vendor = case["vendor"]
    res = {}
    try:
        hw = HardwareView(case.get("hw") or PR.HW[vendor], "")
        rb = {"patching": compile_patching_text(case["patching"], vendor),
              "ordering": compile_ordering_text(case.get("ordering", ""), vendor),
              "deploying": compile_deploying_text("", vendor)}
        PR.OVERRIDE["rb"] = rb
        text = acl_text_of(case)
        res["acl_text"] = text
        try:
            compile_acl(text, vendor)
        except NotImplementedError:
            res["compile"] = "NotImplementedError"
            return res
        fmt = PR.fmt_for(vendor)
        dev = SimpleNamespace(hw=hw)
        fresh = lambda k: PR.to_odict(case[k])  # noqa: E731
        # a user filter (--filter-acl) that passes everything: the patch must be what it is without a filter; in
        # particular the protection the generators' ACL gives (%cant_delete) must survive a later ACL of the list
        flt = (lambda: compile_acl("~ %global\n", vendor)) if case.get("filter") else (lambda: None)
        res["old_f"] = tree_json(patching.apply_acl(fresh("old"), compile_acl(text, vendor)))
        res["new_f"] = tree_json(patching.apply_acl(fresh("new"), compile_acl(text, vendor)))
        try:
            res["diff_full"] = PR.diff_json(patching.make_diff(fresh("old"), fresh("new"), rb, [compile_acl(text, vendor), flt()]))
        except Exception as e:  # noqa
            res["diff_full_err"] = type(e).__name__ + ":" + str(e)[:200]
        try:
            d, p = api._diff_and_patch(dev, fresh("old"), fresh("new"), compile_acl(text, vendor), flt(), False, rb=rb)
            res["diff"] = PR.diff_json(d)
            res["patch"] = PR.patch_json(p)
            res["cmd_paths"] = [list(k) for k in fmt.cmd_paths(p).keys()]
            res["patch_lines"] = PR.lines_of(fmt, p)
        except AssertionError:
            res["err"] = "AssertionError"
        except Exception as e:  # noqa
            res["err"] = type(e).__name__ + ":" + str(e)[:200]
        # the composition of annet.gen._old_new_per_device followed by _diff_and_patch
        try:
            acl = compile_acl(text, vendor)
            o2 = patching.apply_acl(fresh("old"), acl)
            n2 = patching.apply_acl(fresh("new"), acl, exclusive=False)
            _, p2 = api._diff_and_patch(dev, o2, n2, acl, flt(), False, rb=rb)
            res["gen_paths"] = [list(k) for k in fmt.cmd_paths(p2).keys()]
        except AssertionError:
            res["gen_err"] = "AssertionError"
        except Exception as e:  # noqa
            res["gen_err"] = type(e).__name__ + ":" + str(e)[:200]
    except Exception:  # noqa
        import traceback
        res["fatal"] = traceback.format_exc()[-1500:]
    return res


if __name__ == "__main__":
    main(lambda cases: [one(c) for c in cases])
