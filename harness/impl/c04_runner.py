"""C04: drive the real formatters.  For every case {vendor, indent, tree}:
     fmt  = registry_connector.get()[vendor].make_formatter(indent=indent)
     text = fmt.join(tree)                      -> {"join": text} | {"join_exc": class}
     tree'= parse_to_tree(text, fmt.split)      -> {"ok": tree'} | {"err": [line, row]} | {"exc": ...}
     text2= fmt.join(tree')                     -> str | None
"""
import re
from collections import OrderedDict as odict

from _common import main, tree_json
from annet.annlib import tabparser
from annet.vendors import registry_connector


def mk(t):
    return odict((k, mk(v)) for k, v in t)


def one(case):
    reg = registry_connector.get()
    if case["vendor"] not in reg:
        return {"novendor": True}
    fmt = reg[case["vendor"]].make_formatter(indent=case["indent"])
    tree = mk(case["tree"])
    try:
        text = fmt.join(tree)
    except Exception as e:  # noqa
        return {"join_exc": type(e).__name__}
    out = {"join": text}
    try:
        back = tabparser.parse_to_tree(text, fmt.split)
    except tabparser.ParserError as e:
        m = re.match(r"Invalid top indention: line (\d+): (.*)$", str(e), re.S)
        out["parse"] = {"err": [int(m.group(1)), m.group(2)]} if m else {"exc": "ParserError:" + str(e)}
        return out
    except Exception as e:  # noqa
        out["parse"] = {"exc": type(e).__name__ + ":" + str(e)[:200]}
        return out
    out["parse"] = {"ok": tree_pairs(back)}
    try:
        out["rejoin"] = fmt.join(back)
    except Exception:  # noqa
        out["rejoin"] = None
    return out


def tree_pairs(t):
    return [[k, tree_pairs(v)] for k, v in t.items()]


def registered(_):
    return sorted(registry_connector.get())


def run(payload):
    if isinstance(payload, dict) and payload.get("op") == "vendors":
        return registered(None)
    return [one(c) for c in payload]


main(run)
