"""Runs the real patching pipeline on synthetic (or shipped) rulebooks.

case: {vendor, patching, ordering, old, new, [acl], [shipped: bool], [hw]}
out : {diff_full, diff, patch, cmd_paths, patch_lines, file_diff, file_patch, file_cmd_paths, err}
"""
import copy
import sys
from collections import OrderedDict as odict
from types import SimpleNamespace

from _common import main, tree_json
from annet.hardware import hardware_connector, AnnetHardwareProvider
from annet.rulebook import rulebook_provider_connector, DefaultRulebookProvider

OVERRIDE = {}


class SynthProvider(DefaultRulebookProvider):
    def get_rulebook(self, hw):
        if "rb" in OVERRIDE:
            return OVERRIDE["rb"]
        return super().get_rulebook(hw)


hardware_connector.set(AnnetHardwareProvider)
rulebook_provider_connector.set(SynthProvider)

from annet import api, patching, rulebook  # noqa: E402
from annet.annlib.netdev.views.hardware import HardwareView  # noqa: E402
from annet.annlib.rbparser.ordering import compile_ordering_text  # noqa: E402
from annet.annlib.rbparser.acl import compile_acl_text  # noqa: E402
from annet.rulebook.patching import compile_patching_text  # noqa: E402
from annet.rulebook.deploying import compile_deploying_text  # noqa: E402
from annet.vendors import registry_connector  # noqa: E402

HW = {
    "huawei": "Huawei CE6870", "h3c": "H3C S6800", "optixtrans": "Huawei OptiXtrans DC908", "cisco": "Cisco Catalyst C3750",
    "nexus": "Cisco Nexus 9000", "iosxr": "Cisco ASR 9000", "arista": "Arista DCS-7280", "aruba": "Aruba AP-505",
    "b4com": "B4com CS4100", "juniper": "Juniper MX960", "ribbon": "Ribbon NPT-1200", "nokia": "Nokia 7750",
    "routeros": "RouterOS", "pc": "PC",
}


def to_odict(t):
    return odict((k, to_odict(v)) for k, v in t.items())


def diff_json(d):
    out = []
    for (op, row, children, match) in d:
        out.append({"op": op, "row": row, "raw": (match or {}).get("raw_rule", ""),
                    "key": list((match or {}).get("key", ()) or ()), "kids": diff_json(children)})
    return out


def sk_json(sk):
    if not sk:
        return None
    n = sk[0]
    return ["inf" if n == float("inf") else ("-inf" if n == float("-inf") else int(n)), sk[1], bool(sk[2])]


def patch_json(p):
    return [{"row": str(i.row), "child": None if i.child is None else patch_json(i.child), "sk": sk_json(i.sort_key)}
            for i in p.itms]


def fmt_for(vendor):
    return registry_connector.get()[vendor].make_formatter()


def lines_of(fmt, p):
    # (level, row) pairs of formatter.patch(): recompute from the same generator the text is joined from
    text = fmt.patch(p)
    ind = fmt._indent
    out = []
    for ln in text.split("\n") if text else []:
        lvl = 0
        while ln.startswith(ind):
            ln = ln[len(ind):]
            lvl += 1
        out.append([lvl, ln])
    return out


def one(case):
    vendor = case["vendor"]
    res = {}
    try:
        hw = HardwareView(case.get("hw") or HW[vendor], "")
        if case.get("shipped"):
            OVERRIDE.pop("rb", None)
            rb = rulebook.get_rulebook(hw)
        else:
            rb = {"patching": compile_patching_text(case["patching"], vendor),
                  "ordering": compile_ordering_text(case.get("ordering", ""), vendor),
                  "deploying": compile_deploying_text(case.get("deploying", ""), vendor)}
            OVERRIDE["rb"] = rb
        res["hw_vendor"] = hw.vendor
        old, new = to_odict(case["old"]), to_odict(case["new"])
        acl = compile_acl_text(case["acl"], vendor) if case.get("acl") is not None else None
        fmt = fmt_for(vendor)
        try:
            res["diff_full"] = diff_json(patching.make_diff(old, new, rb, [acl]))
        except Exception as e:  # noqa
            res["diff_full_err"] = type(e).__name__
        dev = SimpleNamespace(hw=hw)
        try:
            d, p = api._diff_and_patch(dev, old, new, acl, None, False, rb=rb)
            res["diff"] = diff_json(d)
            res["patch"] = patch_json(p)
            res["cmd_paths"] = [list(k) for k in fmt.cmd_paths(p).keys()]
            res["patch_lines"] = lines_of(fmt, p)
        except AssertionError as e:
            res["err"] = "AssertionError"
        except Exception as e:  # noqa
            res["err"] = type(e).__name__ + ":" + str(e)[:200]
        if case.get("file_mode"):
            try:
                _, d2, pre2, p2 = api._read_old_new_diff_patch(old, new, hw, False)
                res["file_diff"] = diff_json(d2)
                res["file_patch"] = patch_json(p2)
                res["file_cmd_paths"] = [list(k) for k in fmt.cmd_paths(p2).keys()]
            except AssertionError:
                res["file_err"] = "AssertionError"
            except Exception as e:  # noqa
                res["file_err"] = type(e).__name__ + ":" + str(e)[:200]
        if case.get("c08"):
            from unittest import mock
            from annet.annlib.patching import PatchTree, Orderer
            try:
                with mock.patch.object(PatchTree, "sort", lambda self: None):
                    _, pu = api._diff_and_patch(dev, to_odict(case["old"]), to_odict(case["new"]), acl, None, False, rb=rb)
                res["patch_unsorted"] = patch_json(pu)
                # C08: the real PatchTree.sort() (stable, recursive) applied to the fully unsorted tree
                import copy as _copy
                pr = _copy.deepcopy(pu)
                pr.sort()
                res["patch_resorted"] = patch_json(pr)
            except AssertionError:
                res["patch_unsorted_err"] = "AssertionError"
            orderer = Orderer(rb["ordering"], vendor)
            # C08 may supply its own tree for order_config (rows with the negation word, exit word)
            o1 = orderer.order_config(to_odict(case.get("order_cfg", case["new"])))
            res["order_new"] = tree_json(o1)
            res["order_twice"] = tree_json(Orderer(rb["ordering"], vendor).order_config(o1))
            pick = case.get("meta_pick")
            if pick is not None and "diff_full" in res:
                # an *unrelated* top-level row: its (rule, key) slot is shared with no other top-level row
                slots = {}
                for n in res["diff_full"]:
                    slots.setdefault((n["raw"], tuple(n["key"])), []).append(n["row"])
                elig = sorted(rows[0] for rows in slots.values() if len(rows) == 1)
                if elig:
                    r = elig[pick % len(elig)]
                    res["meta_row"] = r
                    old2 = to_odict({k: v for k, v in case["old"].items() if k != r})
                    new2 = to_odict({k: v for k, v in case["new"].items() if k != r})
                    try:
                        _, p2 = api._diff_and_patch(dev, old2, new2, acl, None, False, rb=rb)
                        res["meta_patch"] = patch_json(p2)
                    except AssertionError:
                        res["meta_err"] = "AssertionError"
        res["old_after"] = tree_json(old) == case["old"]
        res["new_after"] = tree_json(new) == case["new"]
    except Exception as e:  # noqa
        import traceback
        res["fatal"] = traceback.format_exc()[-1500:]
    return res


if __name__ == "__main__":
    main(lambda cases: [one(c) for c in cases])
