"""C03, textual views: the real formatter.diff of a vendor's formatter and the real
gen_pre_as_diff(make_pre(.)) (also after annet.annlib.diff.resort_diff, as `annet diff` does) on a diff.

case: {vendor, indent, diff: [{op,row,raw,key,kids}]}
out : {confirm: [lines] | null, confirm_err, pre: [lines], pre_resorted: [lines]}
"""
from _common import main, setup_connectors

setup_connectors()

from annet import patching  # noqa: E402
from annet.annlib.diff import gen_pre_as_diff, resort_diff  # noqa: E402
from annet.vendors import registry_connector  # noqa: E402

ATTRS = {"multiline": False, "context": {}, "comment": [], "logic": None}


def to_diff(nodes):
    return [(n["op"], n["row"], to_diff(n["kids"]), {"raw_rule": n["raw"], "key": tuple(n["key"]), "attrs": ATTRS})
            for n in nodes]


def back(d):
    return [{"op": op, "row": row, "raw": (m or {}).get("raw_rule", ""), "key": list((m or {}).get("key", ()) or ()),
             "kids": back(ch)} for (op, row, ch, m) in d]


def one(case):
    res = {}
    try:
        d = to_diff(case["diff"])
        fmt = registry_connector.get()[case["vendor"]].make_formatter(indent=case["indent"])
        try:
            res["confirm"] = list(fmt.diff(d))
        except KeyError as e:
            res["confirm"] = None
            res["confirm_err"] = "KeyError"
        if case.get("want_resorted"):
            res["resorted"] = back(resort_diff(d))
        res["pre"] = list(gen_pre_as_diff(patching.make_pre(d), False, case["indent"], True))
        try:
            res["pre_resorted"] = list(gen_pre_as_diff(patching.make_pre(resort_diff(d)), False, case["indent"], True))
        except Exception as e:  # noqa   (resort_diff is outside the property; only reported)
            res["pre_resorted_err"] = type(e).__name__ + ":" + str(e)[:200]
    except Exception as e:  # noqa
        import traceback
        res["fatal"] = traceback.format_exc()[-1500:]
    return res


if __name__ == "__main__":
    main(lambda cases: [one(c) for c in cases])
