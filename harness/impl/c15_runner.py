"""C15 implementation runner: the real annet.mesh.basemodel.merge on instances of the real
model classes (plus small synthetic BaseMeshModel subclasses covering every merger), and the
real MeshExecutor.execute_for over stub storages (see c15_exec.py).

stdin:  {"op": "schemas"}                      -> class table read from the classes
        {"op": "merge", "cases": [...]}        -> merge outcomes
        {"op": "exec",  "cases": [...]}        -> execute_for outcomes
"""
import dataclasses
import itertools
import types
import typing
from typing import Annotated, Literal, Optional, Union, get_args, get_origin, get_type_hints

from _common import main

from annet.bgp_models import BFDTimers, Redistribute
from annet.mesh import basemodel as bm
from annet.mesh import device_models, peer_models
from annet.mesh.basemodel import (BaseMeshModel, Concat, DictMerge, Forbid, ForbidChange, Merge,
                                  MergeForbiddenError, Unite, UseFirst, UseLast, merge)
from annet.mesh.executor import Pair, VirtualPair
from annet.storage import Device


# ---- synthetic classes: every merger, nested and inside dicts ---------------------------------

class SynFree(BaseMeshModel):
    fc: int
    fcs: str
    fcl: list[str]
    fcset: set[str]
    opt: Optional[int]
    fb: Annotated[int, Forbid()]
    cc: Annotated[tuple[str, ...], Concat()]
    un: Annotated[set[str], Unite()]


class SynLeaf(BaseMeshModel):
    fc: int
    fb: Annotated[int, Forbid()]
    uf: Annotated[str, UseFirst()]
    ul: Annotated[str, UseLast()]
    cc: Annotated[tuple[str, ...], Concat()]
    un: Annotated[set[str], Unite()]


class SynNodeFree(BaseMeshModel):
    x: int
    leaf: Annotated[SynFree, Merge()]
    d_forbid: Annotated[dict[str, int], DictMerge()]
    d_fc: Annotated[dict[str, int], DictMerge(ForbidChange())]
    d_cc: Annotated[dict[str, tuple[str, ...]], DictMerge(Concat())]
    d_un: Annotated[dict[str, set[str]], DictMerge(Unite())]
    d_m: Annotated[dict[str, SynFree], DictMerge(Merge())]
    d_dd: Annotated[dict[str, dict[str, SynFree]], DictMerge(DictMerge(Merge()))]


class SynNode(BaseMeshModel):
    x: int
    leaf: Annotated[SynLeaf, Merge()]
    free: Annotated[SynFree, Merge()]
    d_last: Annotated[dict[str, int], DictMerge(UseLast())]
    d_first: Annotated[dict[str, int], DictMerge(UseFirst())]
    d_m: Annotated[dict[str, SynLeaf], DictMerge(Merge())]


class PairDirect(Pair):
    """Pair as _execute_direct builds it: both DTOs are DirectPeerDTO."""
    local: Annotated[peer_models.DirectPeerDTO, Merge()]
    connected: Annotated[peer_models.DirectPeerDTO, Merge()]


class PairIndirect(Pair):
    local: Annotated[peer_models.IndirectPeerDTO, Merge()]
    connected: Annotated[peer_models.IndirectPeerDTO, Merge()]


CLASSES = {c.__name__: c for c in [
    peer_models.MeshSession, peer_models.DirectPeerDTO, peer_models.IndirectPeerDTO,
    peer_models.VirtualLocalDTO, peer_models.VirtualPeerDTO, peer_models.MeshPeerGroup,
    device_models.Aggregate, device_models.FamilyOptions, device_models.VrfOptions,
    device_models.L2VpnOptions, device_models.GlobalOptionsDTO,
    VirtualPair, PairDirect, PairIndirect,
    SynFree, SynLeaf, SynNodeFree, SynNode,
]}
# merge() only reads type(a)._field_mergers; PairDirect/PairIndirect must carry exactly Pair's mergers
for _c in (PairDirect, PairIndirect):
    assert {k: type(v) for k, v in _c._field_mergers.items()} == {k: type(v) for k, v in Pair._field_mergers.items()}


class Unsupported(Exception):
    pass


def merger_desc(m, hint):
    """merger instance -> JSON descriptor (nested class taken from the declared hint)"""
    t = type(m)
    if t is ForbidChange:
        return "FC"
    if t is Forbid:
        return "F"
    if t is UseFirst:
        return "UF"
    if t is UseLast:
        return "UL"
    if t is Concat:
        return "CC"
    if t is Unite:
        return "UN"
    if t is Merge:
        k = kind_of(hint)
        if not (isinstance(k, dict) and "obj" in k):
            raise Unsupported(f"Merge() on non-model hint {hint}")
        return {"M": k["obj"]}
    if t is DictMerge:
        k = kind_of(hint)
        if not (isinstance(k, dict) and "dict" in k):
            raise Unsupported(f"DictMerge() on non-dict hint {hint}")
        return {"D": merger_desc(m.value_merger, _dict_value_hint(hint))}
    raise Unsupported(f"merger {t.__name__}")


def _strip(hint):
    if get_origin(hint) is Annotated:
        return get_args(hint)[0]
    return hint


def _dict_value_hint(hint):
    return get_args(_strip(hint))[1]


def kind_of(hint):
    h = _strip(hint)
    if h is bool:
        return "bool"
    if h is int:
        return "int"
    if h is str:
        return "str"
    if h is BFDTimers:
        return "BFDTimers"
    if h is Redistribute:
        return "Redistribute"
    if h is Device:
        return "opaque"
    if isinstance(h, type) and issubclass(h, BaseMeshModel):
        if h.__name__ not in CLASSES:
            raise Unsupported(f"class {h.__name__} not listed")
        return {"obj": h.__name__}
    o = get_origin(h)
    if o is Literal:
        return {"lit": list(get_args(h))}
    if o is Union or o is types.UnionType:
        args = [a for a in get_args(h)]
        if type(None) in args:
            rest = [a for a in args if a is not type(None)]
            if len(rest) == 1:
                return {"opt": kind_of(rest[0])}
        if set(args) == {int, str}:
            return "int|str"
        raise Unsupported(f"union {h}")
    if o is list:
        return {"list": kind_of(get_args(h)[0])}
    if o is tuple:
        a = get_args(h)
        if len(a) == 2 and a[1] is Ellipsis:
            return {"tuple": kind_of(a[0])}
        raise Unsupported(f"tuple {h}")
    if o is set:
        e = kind_of(get_args(h)[0])
        return {"set": e}
    if o is dict:
        k, v = get_args(h)
        if k is not str:
            raise Unsupported(f"dict key {k}")
        return {"dict": kind_of(v)}
    raise Unsupported(f"hint {h}")


def class_table():
    out = {}
    for name, cls in CLASSES.items():
        hints = get_type_hints(cls, include_extras=True)
        fields = []
        for f, m in cls._field_mergers.items():
            fields.append({"name": f, "merger": merger_desc(m, hints[f]), "kind": kind_of(hints[f])})
        out[name] = fields
    return out


# ---- value encoding -----------------------------------------------------------------------------

def enc(v):
    if isinstance(v, bool):
        return {"k": "bool", "v": v}
    if isinstance(v, int):
        return {"k": "int", "v": int(v)}
    if isinstance(v, str):
        return {"k": "str", "v": v}
    if v is None:
        return {"k": "none"}
    if isinstance(v, BaseMeshModel):
        return {"k": "obj", "cls": type(v).__name__, "v": {f: enc(x) for f, x in vars(v).items()}}
    if dataclasses.is_dataclass(v):
        return {"k": "rec", "cls": type(v).__name__, "v": [getattr(v, f.name) for f in dataclasses.fields(v)]}
    if isinstance(v, list):
        return {"k": "list", "v": [enc(x) for x in v]}
    if isinstance(v, tuple):
        return {"k": "tuple", "v": [enc(x) for x in v]}
    if isinstance(v, (set, frozenset)):
        return {"k": "set", "v": sorted((enc(x) for x in v), key=lambda e: (e["k"], str(e.get("v"))))}
    if isinstance(v, dict):
        return {"k": "dict", "v": {str(k): enc(x) for k, x in v.items()}}
    raise Unsupported(f"value {type(v).__name__}")


RECS = {"BFDTimers": BFDTimers, "Redistribute": Redistribute}


def dec(e):
    k = e["k"]
    if k in ("bool", "int", "str"):
        return e["v"]
    if k == "none":
        return None
    if k == "rec":
        return RECS[e["cls"]](*e["v"])
    if k == "list":
        return [dec(x) for x in e["v"]]
    if k == "tuple":
        return tuple(dec(x) for x in e["v"])
    if k == "set":
        return {dec(x) for x in e["v"]}
    if k == "dict":
        return {kk: dec(x) for kk, x in e["v"].items()}
    if k == "obj":
        return build(e)
    raise Unsupported(k)


def build(e):
    """obj descriptor -> real instance.  raw: bypass __init__ (an instance with nothing set);
    otherwise the class constructor runs (defaults such as FamilyOptions.aggregate appear) and
    the given attributes are assigned through the public __setattr__."""
    cls = CLASSES[e["cls"]]
    fields = {f: dec(x) for f, x in e["v"].items()}
    if e.get("raw"):
        o = cls.__new__(cls)
    elif cls is device_models.VrfOptions:
        o = cls(vrf_name=fields.pop("vrf_name", "v"))
    else:
        o = cls()
    for f, x in fields.items():
        setattr(o, f, x)
    return o


def outcome(fn):
    try:
        return {"ok": enc(fn())}
    except MergeForbiddenError:
        return {"err": "forbidden"}
    except Exception as e:  # noqa
        return {"err": "other", "exc": type(e).__name__ + ": " + str(e)[:200]}


class _Prev(Exception):
    pass


def run_merge(case):
    a, b, c = (build(case[x]) for x in "abc")
    cls = type(a)
    before = [enc(a), enc(b), enc(c)]
    empty = cls.__new__(cls)

    def chain_left(xs):
        def f():
            r = xs[0]
            for y in xs[1:]:
                r = merge(r, y)
            return r
        return f

    outs = [
        outcome(lambda: merge(a, b)),
        outcome(lambda: merge(b, a)),
        outcome(lambda: merge(b, c)),
        outcome(chain_left([a, b, c])),
        outcome(lambda: merge(a, merge(b, c))),
        outcome(lambda: merge(a, empty)),
        outcome(lambda: merge(empty, a)),
        outcome(lambda: merge(a, b, c)),
    ]
    perms = [outcome(chain_left([(a, b, c)[i] for i in p])) for p in itertools.permutations(range(3))]
    after = [enc(a), enc(b), enc(c)]
    return {"inputs": before, "after": after, "outs": outs, "perms": perms, "mutated": before != after}


def run(payload):
    op = payload["op"]
    if op == "schemas":
        return class_table()
    if op == "option_fields":
        import c15_exec
        return list(c15_exec.OPTION_FIELDS)
    if op == "merge":
        return [run_merge(c) for c in payload["cases"]]
    if op == "exec":
        import c15_exec
        return [c15_exec.run_case(c, enc, dec) for c in payload["cases"]]
    raise SystemExit(f"unknown op {op}")


if __name__ == "__main__":
    main(run)
