"""C10 runner: real PartialGenerator subclasses replaying generator programs.

case: {"hw": model string (optional), "gens": [{"name", "acl", "prog"}], ["probe_paths": bool]}

  prog  := [stmt]
  stmt  := {"y": yval}
         | {"b": [tok], "indent": int|None, "body": prog}                  with self.block(*tok, indent=" "*n)
         | {"bi": [tok], "cond": None|bool, "body": prog}                  with self.block_if(*tok[, condition=c])
         | {"mb": [[tok]|tok], "body": prog}                               with self.multiblock(*blocks)
         | {"mbi": [[tok]|tok], "cond": None|bool, "body": prog}           with self.multiblock_if(*blocks[, condition=c])
  tok   := {"s": str} | {"i": int} | {"bool": bool} | {"n": 1}   (None)
  yval  := {"s": str} | {"i": int} | {"bool": bool} | {"n": 1} | {"t": [yval]} (tuple) | {"l": [yval]} (list)
  cond  := None (left at the default) | any JSON value, passed as condition= as it is (0, "", [], 1, "x", true ...)

out: {"gens": [ {"noacl": R, "acl": R} ], "old_new": R2}
  R   := {"ok": tree} | {"err": [kind, payload]}
         kind: "invalid" (InvalidValueFromGenerator), "none" (the None assertion), "parse" (ParserError: [lineno,row]),
               "acl" (AclError: payload = its text "parent / row"), "compile" (NotImplementedError from
               compile_acl_text), "other"
  R2  := {"ok": tree} | {"err": [kind, payload]}   kind additionally "exclusive": payload ["parent/ row", [generator names]]
"""
import re
from collections import OrderedDict as odict
from types import SimpleNamespace

from _common import main, tree_json, setup_connectors

setup_connectors()

from annet import generators, gen as annet_gen, patching, tabparser  # noqa: E402
from annet.annlib.netdev.views.hardware import HardwareView  # noqa: E402
from annet.generators import PartialGenerator, GeneratorError  # noqa: E402
from annet.generators.exceptions import InvalidValueFromGenerator  # noqa: E402
from annet.types import GeneratorPartialRunArgs  # noqa: E402

DEFAULT_HW = "Huawei OptiXtrans DC908"


def tok(t):
    if "s" in t:
        return t["s"]
    if "i" in t:
        return t["i"]
    if "bool" in t:
        return bool(t["bool"])
    return None


def yval(v, top=True):
    if "s" in v:
        return v["s"]
    if "i" in v:
        return v["i"]
    if "bool" in v:
        return bool(v["bool"])
    if "t" in v:
        return tuple(yval(x, False) for x in v["t"])
    if "l" in v:
        return [yval(x, False) for x in v["l"]]
    return None


def blk(b):
    return [tok(t) for t in b] if isinstance(b, list) else tok(b)


class _Replay(PartialGenerator):
    PROG = []
    ACL = ""

    def acl(self, device):
        return self.ACL

    def run(self, device):
        yield from self._replay(self.PROG)

    def _replay(self, prog):
        for st in prog:
            if "y" in st:
                yield yval(st["y"])
            elif "b" in st:
                kw = {}
                if st.get("indent") is not None:
                    kw["indent"] = " " * st["indent"]
                with self.block(*[tok(t) for t in st["b"]], **kw):
                    yield from self._replay(st["body"])
            elif "bi" in st:
                kw = {}
                if st.get("cond") is not None:
                    kw["condition"] = st["cond"]
                with self.block_if(*[tok(t) for t in st["bi"]], **kw):
                    yield from self._replay(st["body"])
            elif "mb" in st:
                with self.multiblock(*[blk(b) for b in st["mb"]]):
                    yield from self._replay(st["body"])
            elif "mbi" in st:
                kw = {}
                if st.get("cond") is not None:
                    kw["condition"] = st["cond"]
                with self.multiblock_if(*[blk(b) for b in st["mbi"]], **kw):
                    yield from self._replay(st["body"])
            else:
                raise RuntimeError("bad stmt %r" % (st,))


class _Storage:
    def flush_perf(self):
        return {}


def make_device(hw):
    dev = SimpleNamespace(hw=HardwareView(hw, ""), hostname="h1", fqdn="h1.example", id=1, tags=[], breed="",
                          storage=_Storage())
    dev.is_pc = lambda: False
    return dev


class _Dev:
    """hashable device stub (SimpleNamespace is unhashable; _old_new_per_device uses it as a dict key)"""

    def __init__(self, hw):
        self.hw = HardwareView(hw, "")
        self.hostname = "h1"
        self.fqdn = "h1.example"
        self.id = 1
        self.tags = []
        self.breed = ""
        self.storage = _Storage()

    def is_pc(self):
        return False

    def __repr__(self):
        return "dev"


def make_gen(g):
    cls = type(g["name"], (_Replay,), {"PROG": g["prog"], "ACL": g["acl"], "__module__": "c10_synth"})
    return cls(_Storage())


def classify(exc):
    """GeneratorError -> [kind, payload] from its __cause__ (class and the row/path it names)."""
    cause = exc.__cause__ if isinstance(exc, GeneratorError) else exc
    if isinstance(cause, patching.AclNotExclusiveError):
        m = re.match(r"^'(.*)', generators: '(.*)'$", str(cause), re.S)
        if m:
            return ["exclusive", [m.group(1), m.group(2).split(", ")]]
        return ["other", "AclNotExclusiveError:" + str(cause)]
    if isinstance(cause, patching.AclError):
        return ["acl", str(cause)]
    if isinstance(cause, tabparser.ParserError):
        m = re.match(r"Invalid top indention: line (\d+): (.*)$", str(cause), re.S)
        if m:
            return ["parse", [int(m.group(1)), m.group(2)]]
        return ["other", "ParserError:" + str(cause)]
    if isinstance(cause, NotImplementedError):
        return ["compile", ""]
    if isinstance(cause, InvalidValueFromGenerator):
        return ["invalid", ""]
    if isinstance(cause, AssertionError) and str(cause).startswith("Found 'None' in yield result"):
        return ["none", ""]
    return ["other", type(cause).__name__ + ":" + str(cause)[:200]]


def run_one_gen(g, dev, use_acl):
    try:
        r = generators._run_partial_generator(make_gen(g), GeneratorPartialRunArgs(dev, use_acl=use_acl))
        return {"ok": tree_json(r.config)}
    except Exception as e:  # noqa
        return {"err": classify(e)}


def paths_of(t, pre=()):
    for k, v in t.items():
        yield pre + (k,)
        yield from paths_of(v, pre + (k,))


def probe_paths(g, dev):
    """for every path of the generator's parsed output: does the generator's own ACL (non-fatal) keep it?"""
    try:
        r = generators._run_partial_generator(make_gen(g), GeneratorPartialRunArgs(dev, use_acl=False))
    except Exception:  # noqa
        return None
    kept = patching.apply_acl(r.config, r.acl_rules, fatal_acl=False)
    keptp = set(paths_of(kept))
    return [[list(p), p in keptp] for p in paths_of(r.config)]


def old_new(case, dev):
    args = SimpleNamespace(no_acl=False, no_acl_exclusive=False, acl_safe=False, profile=False,
                           fail_on_empty_config=False, generators_context=None, required_packages_check=False,
                           filter_acl="", filter_ifaces=[], filter_peers=[], filter_policies=[])
    gens = [make_gen(g) for g in case["gens"]]
    ctx = annet_gen.OldNewDeviceContext(
        config="empty", args=args, downloaded_files={}, failed_files={}, running={}, failed_running={},
        no_new=False, stdin=None, add_annotations=False, add_implicit=False, do_files_download=False,
        gens=annet_gen.DeviceGenerators(partial={dev: gens}, ref={dev: []}, entire={dev: []}, json_fragment={dev: []}),
        fetched_packages={}, failed_packages={}, device_count=1, do_print_perf=False)
    try:
        res = annet_gen._old_new_per_device(ctx, dev, None)
    except Exception as e:  # noqa
        return {"err": classify(e)}
    if res.err is not None:
        return {"err": classify(res.err)}
    return {"ok": tree_json(res.new)}


def union(case, dev, use_acl):
    """run_partial_generators(...).config_tree()"""
    try:
        res = generators.run_partial_generators([make_gen(g) for g in case["gens"]], [],
                                                GeneratorPartialRunArgs(dev, use_acl=use_acl))
        return {"ok": tree_json(res.config_tree())}
    except Exception as e:  # noqa
        return {"err": classify(e)}


def one(case):
    hw = case.get("hw") or DEFAULT_HW
    dev = _Dev(hw)
    out = {"gens": [], "union_noacl": union(case, dev, False)}
    for g in case["gens"]:
        o = {"noacl": run_one_gen(g, dev, False), "acl": run_one_gen(g, dev, True)}
        if case.get("probe_paths"):
            o["paths"] = probe_paths(g, dev)
        out["gens"].append(o)
    out["old_new"] = old_new(case, dev)
    return out


if __name__ == "__main__":
    main(lambda cases: [one(c) for c in cases])
