"""C11 runner: drive the real annet.api._diff_and_patch (device mode) over the SHIPPED
rulebook of the given hardware for one block (or the global level) holding VLAN-list lines.

case = {"hw": "Huawei CE6870", "block": "interface GE1/0/1" | None,
        "old": [row | [row, [child rows]] ...], "new": [...]}
result = {"rows": [[row, [child rows]], ...]}      patch rows in emitted order (inside the block);
                                                  a patch block (`vlan N` + its option rows) lists its rows
       | {"exc": "AssertionError:..."}
"""
from types import SimpleNamespace
from collections import OrderedDict as odict

from _common import main, setup_connectors

setup_connectors()

from annet import api  # noqa: E402
from annet.annlib.netdev.views.hardware import HardwareView  # noqa: E402

_HW = {}


def _tree(block, rows):
    level = odict()
    for r in rows:
        if isinstance(r, str):
            level[r] = odict()
        else:
            level[r[0]] = odict((c, odict()) for c in r[1])
    if block is None:
        return level
    top = odict()
    if rows or True:
        top[block] = level
    return top


def one(case):
    hw = _HW.get(case["hw"])
    if hw is None:
        hw = _HW[case["hw"]] = HardwareView(case["hw"], "")
    dev = SimpleNamespace(hw=hw)
    old = _tree(case.get("block"), case["old"])
    new = _tree(case.get("block"), case["new"])
    try:
        _diff, patch = api._diff_and_patch(dev, old, new, None, None, False)
    except AssertionError as e:
        return {"exc": "AssertionError:" + str(e)[:200]}
    except Exception as e:  # noqa
        return {"exc": type(e).__name__ + ":" + str(e)[:200]}
    items = patch.itms
    if case.get("block") is not None:
        inner = []
        for it in items:
            if it.row != case["block"]:
                return {"exc": "UnexpectedTopRow:" + str(it.row)}
            if it.child is not None:
                inner.extend(it.child.itms)
        items = inner
    rows = []
    for it in items:
        kids = []
        if it.child:
            for sub in it.child.itms:
                if sub.child:
                    return {"exc": "NestedPatchBlock:" + str(it.row)}
                kids.append(str(sub.row))
        rows.append([str(it.row), kids])
    return {"rows": rows}


main(lambda cases: [one(c) for c in cases])
