"""C13 runner: drives the four public entry points of annet.annlib.jsontools.

stdin : JSON list of cases {"kind": "frag"|"filter"|"patch"|"apply", ...}
stdout: one JSON list with the real implementation's outputs (exceptions -> {"exc": class}).
"""
import copy
import json

from _common import main
from annet.annlib import jsontools


def outcome(fn):
    try:
        v = fn()
        json.dumps(v)          # must be a JSON document (no EndOfList or other foreign objects)
        return {"ok": v}
    except Exception as e:  # noqa
        return {"exc": type(e).__name__}


def frag(c):
    old, f, acl = c["old"], c["f"], c["acl"]
    r = outcome(lambda: jsontools.apply_json_fragment(copy.deepcopy(old), copy.deepcopy(f), list(acl)))
    out = {"r": r}
    if "ok" in r:
        out["rr"] = outcome(lambda: jsontools.apply_json_fragment(copy.deepcopy(r["ok"]), copy.deepcopy(f), list(acl)))
    else:
        out["rr"] = {"exc": "skipped"}
    return out


def filt(c):
    return {"r": outcome(lambda: jsontools.apply_acl_filters(copy.deepcopy(c["d"]), list(c["filters"])))}


def via_apply_patch(doc, ops):
    content = json.dumps(doc).encode()
    patch_bytes = json.dumps(ops).encode()
    return json.loads(jsontools.apply_patch(content, patch_bytes))


def patch(c):
    import jsonpatch
    old, new = c["old"], c["new"]
    # the third-party diff (the Section variable D of the Coq development), unsorted
    lib = outcome(lambda: list(jsonpatch.make_patch(copy.deepcopy(old), copy.deepcopy(new)).patch))
    p = outcome(lambda: jsontools.make_patch(copy.deepcopy(old), copy.deepcopy(new)))
    out = {"lib": lib, "patch": p}
    if "ok" in p:
        out["applied"] = outcome(lambda: via_apply_patch(old, p["ok"]))
    else:
        out["applied"] = {"exc": "skipped"}
    return out


def apply_(c):
    return {"r": outcome(lambda: via_apply_patch(c["doc"], c["ops"]))}


KINDS = {"frag": frag, "filter": filt, "patch": patch, "apply": apply_}

main(lambda cases: [KINDS[c["kind"]](c) for c in cases])
