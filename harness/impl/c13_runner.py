"""C13 runner: drives the four public entry points of annet.annlib.jsontools.

stdin : JSON list of cases {"kind": "frag"|"filter"|"patch"|"apply"|"session", ...}
stdout: one JSON list with the real implementation's outputs (exceptions -> {"exc": class}).

Every kind also reports "mutated": the list of [function, argument] pairs for which an object handed to
the function no longer serialises to the text it had before the call (json.dumps without sort_keys: key
order, bool/int and container kinds included).  The arguments are private deep copies, the reference
texts are taken from the case itself.

kind "session" is the operation sequence the API performs on ONE old object (annet/api/__init__.py:
_patch_worker / Deployer, annet/generators/result.py: new_json_fragment_files):
    doc = old; for (f, acl) in steps: doc = apply_json_fragment(doc, f, acl)      # chaining
    patch = make_patch(old, doc)                                                   # the SAME old object
    applied = apply_patch(serialised ORIGINAL old, serialised patch)               # what the device holds
"""
import copy
import json

from _common import main
from annet.annlib import jsontools


def outcome(fn):
    try:
        v = fn()
        json.dumps(v)          # must be a JSON document (no EndOfList or other foreign objects)
        return {"ok": v}
    except Exception as e:  # noqa
        return {"exc": type(e).__name__}


def text(v):
    try:
        return json.dumps(v)
    except Exception as e:  # noqa  (a foreign object was stored into a caller's document)
        return "unserialisable:" + type(e).__name__


class Watch:
    """objects handed to the implementation, each with the text it must keep"""

    def __init__(self):
        self.items = []         # (name, object, text)
        self.mutated = []

    def add(self, name, obj, ref=None):
        self.items.append((name, obj, text(obj) if ref is None else text(ref)))
        return obj

    def check(self, fn):
        """after a call of fn: which watched objects changed (reported once, then re-based)"""
        for i, (name, obj, t) in enumerate(self.items):
            now = text(obj)
            if now != t:
                self.mutated.append([fn, name])
                self.items[i] = (name, obj, now)


def frag(c):
    old, f, acl = c["old"], c["f"], c["acl"]
    w = Watch()
    a_old, a_f, a_acl = w.add("old", copy.deepcopy(old), old), w.add("fragment", copy.deepcopy(f), f), w.add("acl", list(acl), acl)
    r = outcome(lambda: jsontools.apply_json_fragment(a_old, a_f, a_acl))
    w.check("apply_json_fragment")
    out = {"r": r}
    if "ok" in r:
        ref = copy.deepcopy(r["ok"])
        b_old, b_f, b_acl = w.add("old(2nd merge)", copy.deepcopy(ref), ref), w.add("fragment(2nd merge)", copy.deepcopy(f), f), list(acl)
        out["rr"] = outcome(lambda: jsontools.apply_json_fragment(b_old, b_f, b_acl))
        w.check("apply_json_fragment")
    else:
        out["rr"] = {"exc": "skipped"}
    out["mutated"] = w.mutated
    return out


def filt(c):
    w = Watch()
    d, fl = w.add("content", copy.deepcopy(c["d"]), c["d"]), w.add("filters", list(c["filters"]), c["filters"])
    r = outcome(lambda: jsontools.apply_acl_filters(d, fl))
    w.check("apply_acl_filters")
    return {"r": r, "mutated": w.mutated}


def apply_bytes(content, patch_bytes, w=None):
    """jsontools.apply_patch on the serialised forms; the two byte strings are watched like every other input"""
    c0, p0 = bytes(content), bytes(patch_bytes)
    r = jsontools.apply_patch(content, patch_bytes)
    if w is not None:
        if content != c0:
            w.mutated.append(["apply_patch", "content"])
        if patch_bytes != p0:
            w.mutated.append(["apply_patch", "patch"])
    return r


def via_apply_patch(doc, ops, w=None):
    content = json.dumps(doc).encode()
    patch_bytes = json.dumps(ops).encode()
    return json.loads(apply_bytes(content, patch_bytes, w))


def patch(c):
    import jsonpatch
    old, new = c["old"], c["new"]
    # the third-party diff (the Section variable D of the Coq development), unsorted
    lib = outcome(lambda: list(jsonpatch.make_patch(copy.deepcopy(old), copy.deepcopy(new)).patch))
    w = Watch()
    a_old, a_new = w.add("old", copy.deepcopy(old), old), w.add("new", copy.deepcopy(new), new)
    p = outcome(lambda: jsontools.make_patch(a_old, a_new))
    w.check("make_patch")
    out = {"lib": lib, "patch": p}
    if "ok" in p:
        out["applied"] = outcome(lambda: via_apply_patch(old, p["ok"], w))
    else:
        out["applied"] = {"exc": "skipped"}
    out["mutated"] = w.mutated
    return out


def apply_(c):
    w = Watch()
    return {"r": outcome(lambda: via_apply_patch(c["doc"], c["ops"], w)), "mutated": w.mutated}


def session(c):
    """one old object through apply_json_fragment (chained) -> make_patch -> apply_patch on the device's bytes"""
    import jsonpatch
    old0, steps = c["old"], c["steps"]
    content = json.dumps(old0).encode()                 # the device holds the ORIGINAL old document
    w = Watch()
    old_obj = w.add("old", copy.deepcopy(old0), old0)
    doc, docs, failed = old_obj, [], False
    for k, (f, acl) in enumerate(steps):
        a_f, a_acl = w.add(f"fragment[{k}]", copy.deepcopy(f), f), w.add(f"acl[{k}]", list(acl), acl)
        cur = doc
        r = outcome(lambda: jsontools.apply_json_fragment(cur, a_f, a_acl))
        w.check("apply_json_fragment")
        docs.append(copy.deepcopy(r))
        if "ok" not in r:
            failed = True
            break
        doc = w.add(f"result[{k}]", r["ok"])
    out = {"docs": docs}
    if failed:
        out.update({"lib": {"exc": "skipped"}, "patch": {"exc": "skipped"}, "applied": {"exc": "skipped"}})
    else:
        new = copy.deepcopy(doc)                        # the value the chain returned
        out["lib"] = outcome(lambda: list(jsonpatch.make_patch(copy.deepcopy(old0), copy.deepcopy(new)).patch))
        p = outcome(lambda: jsontools.make_patch(old_obj, doc))
        w.check("make_patch")
        out["patch"] = copy.deepcopy(p)
        if "ok" in p:
            out["applied"] = outcome(lambda: json.loads(apply_bytes(content, json.dumps(p["ok"]).encode(), w)))
        else:
            out["applied"] = {"exc": "skipped"}
    out["old_after"] = outcome(lambda: old_obj)
    out["mutated"] = w.mutated
    return out


KINDS = {"frag": frag, "filter": filt, "patch": patch, "apply": apply_, "session": session}

main(lambda cases: [KINDS[c["kind"]](c) for c in cases])
