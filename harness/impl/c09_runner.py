"""C09 runner: the real formatter.patch / formatter.cmd_paths / annet.deploy.apply_deploy_rulebook.

case: {corpus_names: true} -> names of the shipped tests/annet/test_patch samples of block-structured vendors
 or   {corpus: name, ...} -> the sample's patch (shipped rulebooks, as tests/annet/test_patch.py builds it)
 or   {vendor, [hw], patch: PatchTree json (row, child, context) | pipeline: {patching, ordering, old, new},
       deploying: text | None (= shipped rulebook of the hardware), combos: [[do_commit, do_finalize], ...],
       atoms: [hw flag paths], opaque: [python source of opaque atoms]}
 or   {dcpipe: {patching, ordering, old, new}, vendor, deploying: text}
        -> what CliDeployerJob.parse_result computes with and without --dont-commit:
           {patch_t, patch_f: PatchTree json of api._diff_and_patch(..., do_commit=True / False) | None (AssertionError),
            paths_f: make_formatter(indent="").cmd_paths(patch_f) keys,
            runs: [{df, cmds: [command text] | err}]  apply_deploy_rulebook(hw, cmd_paths(patch_f), do_finalize=df, do_commit=False)}
 optional key `patch_dc` (with `pipeline`): the do_commit flag _diff_and_patch builds the patch with (default true)
 or   {render: vendor}  -> the Mako-rendered shipped deploy rulebook text and what it compiles to
 or   {dlg: deploy rulebook text (one top-level rule with dialog:/ignore: children), vendor, contents: [str]}
        -> {dialogs: [[question text, answer, send_nl]], ignore: [text], runs: [{content, answer | None, hits, ign}]}
           from the compiled rule's MakeMessageMatcher objects and annet.deploy.RulebookQuestionHandler
 optional key `unmodelled`: [rule rows]: adds `touches_unmodelled` = some row of some command path is matched by
        the compiled regexp of one of these rules (the model rulebook does not contain them)
out : {patch, lines, paths, paths0, flags, opq, runs: [{dc, df, common: [before, after] | None, ap_env, cmds | err}]}
"""
import functools
import os
from collections import OrderedDict as odict
from types import SimpleNamespace

from _common import main
from annet.hardware import hardware_connector, AnnetHardwareProvider
from annet.rulebook import rulebook_provider_connector, DefaultRulebookProvider

OVERRIDE = {}


class SynthProvider(DefaultRulebookProvider):
    def get_rulebook(self, hw):
        if "rb" in OVERRIDE:
            return OVERRIDE["rb"]
        return super().get_rulebook(hw)


hardware_connector.set(AnnetHardwareProvider)
rulebook_provider_connector.set(SynthProvider)

from annet import api, deploy, rulebook  # noqa: E402
from annet.annlib.netdev.views.hardware import HardwareView  # noqa: E402
from annet.annlib.patching import PatchTree  # noqa: E402
from annet.annlib.rbparser.ordering import compile_ordering_text  # noqa: E402
from annet.annlib.rulebook import common as rb_common  # noqa: E402
from annet.rulebook.aruba import ap_env  # noqa: E402
from annet.rulebook.deploying import compile_deploying_text  # noqa: E402
from annet.rulebook.patching import compile_patching_text  # noqa: E402
from annet.vendors import registry_connector  # noqa: E402

HW = {
    "huawei": "Huawei CE6870", "h3c": "H3C S6800", "optixtrans": "Huawei OptiXtrans DC908", "cisco": "Cisco Catalyst C3750",
    "nexus": "Cisco Nexus 9000", "iosxr": "Cisco ASR 9000", "arista": "Arista DCS-7280", "aruba": "Aruba AP-505",
    "b4com": "B4com CS4100", "pc": "PC",
}


def to_odict(t):
    return odict((k, to_odict(v)) for k, v in t.items())


def patch_json(p):
    return [{"row": str(i.row), "child": None if i.child is None else patch_json(i.child),
             "context": dict(i.context or {})} for i in p.itms]


def patch_from(js):
    def conv(items):
        return [{"row": i["row"], "child": None if i["child"] is None else conv(i["child"]),
                 "context": dict(i.get("context") or {}), "sort_key": []} for i in items]
    return PatchTree.from_json(conv(js))


def lines_of(fmt, p):
    text = fmt.patch(p)
    ind = fmt._indent
    out = []
    for ln in text.split("\n") if text else []:
        lvl = 0
        while ind and ln.startswith(ind):
            ln = ln[len(ind):]
            lvl += 1
        out.append([lvl, ln])
    return out


def wrapper_json(ba):
    before, after = ba
    return [[c.cmd for c in before], [c.cmd for c in after]]


def cmd_json(c):
    return {"cmd": c.cmd, "level": getattr(c, "level", -1), "timeout_ms": -1 if c.timeout is None else int(round(c.timeout * 1000)),
            "questions": [[q.question, q.answer, bool(q.is_regexp)] for q in (c.questions or [])]}


def rules_json(rules):
    """compiled deploy rulebook -> what can be seen of it (ids, timeouts, dialogs, ifcontext, apply logic)"""
    out = []
    for rid, r in rules.items():
        a = r["attrs"]
        out.append({"id": rid, "timeout": a["timeout"], "ifcontext": list(a["ifcontext"]),
                    "apply": a["apply_logic"].__module__.split("rulebook.")[-1] + "." + a["apply_logic"].__name__,
                    "dialogs": [[m._text, ans.text, bool(ans.send_nl)] for m, ans in a["dialogs"].items()],
                    "kids": rules_json(r["children"])})
    return out


def pat_of_id(rid):
    """the rule row of a compiled rule id (as harness/props/c09.py:pat_of_id)"""
    import re
    if "%" in rid and re.findall(r"\s%([a-zA-Z_]\w*)(?:=([^\s]*))?", rid):
        rid = rid[:rid.index("%")]
    return re.sub(r"\s+", " ", rid.strip())


CORPUS = {}


def corpus_samples():
    if not CORPUS:
        import corpus
        root = os.environ.get("ANNET_VERIF_REPO_ROOT") or os.path.dirname(os.path.dirname(os.path.abspath(api.__file__)))
        for smp in corpus.samples(root):
            CORPUS[smp["name"]] = smp
    return CORPUS


def corpus_patch(smp, hw):
    from unittest import mock
    from annet import implicit, lib, patching
    rb = rulebook.get_rulebook(hw)
    old, new = smp["old"], smp["new"]
    implicit_rules = implicit.compile_rules(mock.Mock(hw=hw))
    old = lib.merge_dicts(old, implicit.config(old, implicit_rules))
    new = lib.merge_dicts(new, implicit.config(new, implicit_rules))
    diff = patching.make_diff(old, new, rb, [])
    return patching.make_patch(pre=patching.make_pre(diff), rb=rb, hw=hw, add_comments=False)


def dcpipe(case):
    """the data flow of `annet deploy` / `annet deploy --dont-commit` (CliDeployerJob.parse_result): the patch is built by
    _diff_and_patch with do_commit = not dont_commit, its cmd_paths go to apply_deploy_rulebook with the same flag"""
    res = {}
    vendor = case["vendor"]
    hw = HardwareView(case.get("hw") or HW[vendor], "")
    pc = case["dcpipe"]
    prb = {"patching": compile_patching_text(pc["patching"], vendor),
           "ordering": compile_ordering_text(pc.get("ordering", ""), vendor),
           "deploying": compile_deploying_text(case.get("deploying") or "", vendor)}
    OVERRIDE["rb"] = prb
    patches = {}
    for name, dc in (("patch_t", True), ("patch_f", False)):
        try:
            _, p = api._diff_and_patch(SimpleNamespace(hw=hw), to_odict(pc["old"]), to_odict(pc["new"]), None, None,
                                       False, do_commit=dc, rb=prb)
            patches[name] = p
            res[name] = patch_json(p)
        except AssertionError:
            res[name] = None
    res["paths_f"] = []
    res["runs"] = []
    if res["patch_f"] is not None:
        fmt0 = registry_connector.get()[vendor].make_formatter(indent="")
        res["paths_f"] = [list(k) for k in fmt0.cmd_paths(patches["patch_f"]).keys()]
        for df in (False, True):
            r = {"df": df}
            try:
                cl = deploy.apply_deploy_rulebook(hw, fmt0.cmd_paths(patches["patch_f"]), do_finalize=df, do_commit=False)
                r["cmds"] = [c.cmd for c in cl]
            except Exception as e:  # noqa
                msg = str(e)
                r["err"] = "send_nl" if msg == "not supported false send_nl" else (type(e).__name__ + ":" + msg[:200])
            res["runs"].append(r)
    return res


def one(case):
    res = {}
    try:
        if "corpus_names" in case:
            return {"names": [[n, smp["vendor"]] for n, smp in corpus_samples().items()]}
        if "corpus" in case:
            smp = corpus_samples()[case["corpus"]]
            case = dict(case, vendor=smp["vendor"], hw=smp["hw"], deploying=None)
            OVERRIDE.pop("rb", None)
            try:
                case["_patch"] = corpus_patch(smp, HardwareView(smp["hw"], ""))
            except Exception as e:  # noqa
                return {"skip": "corpus sample does not build a patch: " + type(e).__name__}
        if "dlg" in case:
            rules = compile_deploying_text(case["dlg"], case["vendor"])
            attrs = next(iter(rules.values()))["attrs"]
            handler = deploy.RulebookQuestionHandler(attrs["dialogs"])
            res["dialogs"] = [[m._text, a.text, bool(a.send_nl)] for m, a in attrs["dialogs"].items()]
            res["ignore"] = [m._text for m in attrs["ignore"]]
            runs = []
            for content in case["contents"]:
                raw = content.encode()
                ans = handler(None, None, raw)
                c = raw.strip().decode()
                runs.append({"content": content, "answer": None if ans is None else ans.cmd,
                             "hits": [bool(m(c)) for m in attrs["dialogs"]],
                             "ign": [bool(m(c)) for m in attrs["ignore"]]})
            res["runs"] = runs
            return res
        if "render" in case:
            vendor = case["render"]
            hw = HardwareView(case.get("hw") or HW[vendor], "")
            prov = DefaultRulebookProvider()
            try:
                text = prov._render_rul(hw.vendor + ".deploy", hw)
            except FileNotFoundError:
                text = ""
            res["hw_vendor"] = hw.vendor
            res["text"] = text
            res["compiled"] = rules_json(compile_deploying_text(text, hw.vendor))
            return res
        if "dcpipe" in case:
            return dcpipe(case)
        vendor = case["vendor"]
        hw = HardwareView(case.get("hw") or HW[vendor], "")
        res["hw_vendor"] = hw.vendor
        OVERRIDE.pop("rb", None)
        if case.get("deploying") is None:
            rb = dict(rulebook.get_rulebook(hw))
        else:
            rb = {"patching": None, "ordering": None,
                  "deploying": compile_deploying_text(case["deploying"], vendor)}
        if case.get("pipeline"):
            pc = case["pipeline"]
            prb = {"patching": compile_patching_text(pc["patching"], vendor),
                   "ordering": compile_ordering_text(pc.get("ordering", ""), vendor),
                   "deploying": rb["deploying"]}
            OVERRIDE["rb"] = prb
            try:
                _, p = api._diff_and_patch(SimpleNamespace(hw=hw), to_odict(pc["old"]), to_odict(pc["new"]), None, None,
                                           False, do_commit=bool(case.get("patch_dc", True)), rb=prb)
            except AssertionError:
                res["skip"] = "AssertionError"
                return res
        elif "_patch" in case:
            p = case["_patch"]
        else:
            p = patch_from(case["patch"])
        OVERRIDE["rb"] = rb
        res["compiled"] = rules_json(rb["deploying"])
        res["patch"] = patch_json(p)
        reg = registry_connector.get()
        fmt = reg[vendor].make_formatter()
        fmt0 = reg[vendor].make_formatter(indent="")
        res["lines"] = lines_of(fmt, p)
        paths = fmt.cmd_paths(p)
        paths0 = fmt0.cmd_paths(p)
        res["paths"] = [[list(k), dict(v or {})] for k, v in paths.items()]
        res["paths0"] = [[list(k), dict(v or {})] for k, v in paths0.items()]
        if case.get("unmodelled"):
            want = set(case["unmodelled"])

            def regs(rules):
                for rid, r in rules.items():
                    if pat_of_id(rid) in want:
                        yield r["attrs"]["regexp"]
                    yield from regs(r["children"])
            rx = list(regs(rb["deploying"]))
            res["touches_unmodelled"] = any(x.match(row) for k in paths0 for row in k for x in rx)
        res["flags"] = {a: bool(functools.reduce(getattr, a.split("."), hw)) for a in case.get("atoms", [])}
        res["opq"] = {s: bool(eval(s, {"hw": hw, "os": os})) for s in case.get("opaque", [])}  # noqa: S307
        runs = []
        for dc, df in case["combos"]:
            r = {"dc": bool(dc), "df": bool(df)}
            try:
                r["common"] = wrapper_json(rb_common.apply(hw, do_commit=bool(dc), do_finalize=bool(df)))
            except Exception as e:  # noqa
                r["common"] = None
                r["common_err"] = str(e)[:100]
            r["ap_env"] = wrapper_json(ap_env.apply(hw, do_commit=bool(dc), do_finalize=bool(df)))
            try:
                cl = deploy.apply_deploy_rulebook(hw, fmt0.cmd_paths(p), do_finalize=bool(df), do_commit=bool(dc))
                r["cmds"] = [cmd_json(c) for c in cl]
            except Exception as e:  # noqa
                msg = str(e)
                r["err"] = "send_nl" if msg == "not supported false send_nl" else (type(e).__name__ + ":" + msg[:200])
            runs.append(r)
        res["runs"] = runs
    except Exception:  # noqa
        import traceback
        res["fatal"] = traceback.format_exc()[-1500:]
    return res


if __name__ == "__main__":
    main(lambda cases: [one(c) for c in cases])
