import re
from _common import main, tree_json
from annet.annlib import tabparser


def one(case):
    try:
        t = tabparser.parse_to_tree(case["text"], tabparser.CommonFormatter().split, tuple(case["comments"]))
        return {"ok": tree_json(t)}
    except tabparser.ParserError as e:
        m = re.match(r"Invalid top indention: line (\d+): (.*)$", str(e), re.S)
        if not m:
            return {"exc": "ParserError:" + str(e)}
        return {"err": [int(m.group(1)), m.group(2)]}
    except Exception as e:  # noqa
        return {"exc": type(e).__name__ + ":" + str(e)}


main(lambda cases: [one(c) for c in cases])
