"""C12 runner: drives the REAL annet.parallel.Parallel pool (fork start method) under a schedule.

stdin : JSON list of cases
  {"ids": [int], "parallel": int, "max_tasks": int, "raising": [int], "tolerate": bool, "mode": "irun"|"run",
   "dur": {"default": s, "id": {"<id>": s}}, "consumer": {"default": s, "nth": {"<k>": s}},
   "sched": {...ANNET_VERIF_SCHED...}, "timeout": s}
stdout: one JSON line, list of
  {"hook": bool, "outcome": "done"|"raised"|"timeout"|"error", "raised_id": int|null,
   "delivered": [[id, "ok"|"fail", value]], "trace": [[t, actor, event, id]], "wall": s}

Every case runs in its own session (os.setsid) so that a pool that never terminates can be killed as a
group; the payload of id i is 7*i+3, a raising task raises ValueError(str(13*i+5)).

Extended cases: {"session": [run, ...], "timeout": s} - the runs are executed ONE AFTER ANOTHER BY THE SAME
PROCESS, each by a Parallel object of its own.  A run has the keys of a case plus
  "x": true, "gen": bool (the task is a generator function, as the production workers are),
  "flaky": {"<id>": k} (the first k invocations for that id die with a network error), "net_kind":
  "reset"|"pipe"|"wrapped", "net_retry": int|null (null = not tuned), "callback": null | {"table": [ids],
  "in_thread": bool} (a PoolProgressLogger-like callback registered with add_callback).
This is Spec/P_C12x.v's std_task: a generator task yields 7*i+3, then (attempt n < k) raises the network error
1000+11*i+n, else raises ValueError(13*i+5) if i is raising, else yields i; a plain task does the same
without the first yield and returns 7*i+3.  Output: {"session": [out, ...]} with
  "delivered": [[id, "ok", ["int", v] | ["list", [v..]] | ["lazy"] | ["other"]] | [id, "fail", code] |
                [id, "failother", 0]]   (["lazy"] = a generator object nobody consumed)
"""
import inspect
import json
import multiprocessing as mp
import os
import shutil
import signal
import sys
import tempfile
import time


class Progress:
    """PoolProgressLogger-like callback: looks the device up in its OWN table, returns the result."""

    def __init__(self, table):
        self.table = table

    def __call__(self, pool, task_result):
        name = self.table[task_result.device_id]
        self.last = "%s %d%%" % (name, int(pool.tasks_done / len(self.table) * 100))
        return task_result



class StructuredError(Exception):
    """An exception with a structured constructor: it pickles (by reference + args) but does not unpickle, because
    args holds ONE formatted string while __init__ wants two arguments.  A task may raise anything; the failure
    must still come back as the failure of its id."""

    def __init__(self, code, ctx):
        super().__init__(str(code))
        self.code, self.ctx = code, ctx

def _raise_net(kind, code):
    if kind == "pipe":
        raise BrokenPipeError(str(code))
    if kind == "wrapped":       # found by find_exc_in_stack through the context chain
        try:
            raise ConnectionResetError("inner")
        except ConnectionResetError:
            raise RuntimeError(str(code))
    raise ConnectionResetError(str(code))


def _one_case_child(case, trace_paths, wfd):
    os.setsid()
    devnull = os.open(os.devnull, os.O_WRONLY)
    os.dup2(devnull, 1)
    os.dup2(devnull, 2)
    import annet.parallel as par

    if "session" in case:
        outs = []
        for k, run in enumerate(case["session"]):
            sched = dict(run.get("sched") or {})
            sched["run"] = k            # a new text: the hook's event counters restart for every pool
            outs.append(_one_run(par, run, trace_paths[k], sched))
        out = {"session": outs}
    else:
        out = _one_run(par, case, trace_paths[0], case.get("sched") or {})
    with os.fdopen(wfd, "w") as f:
        f.write(json.dumps(out))
    os._exit(0)


def _one_run(par, case, trace_path, sched):
    os.environ["ANNET_VERIF_TRACE"] = trace_path
    os.environ["ANNET_VERIF_SCHED"] = json.dumps(sched)
    dur = case.get("dur") or {}
    dur_id = {int(k): v for k, v in (dur.get("id") or {}).items()}
    dur_default = dur.get("default", 0)
    raising = set(case.get("raising") or [])
    unpicklable = set(case.get("unpicklable") or [])      # a subset of raising; only meaningful with real workers
    real_pool = min(case["parallel"], len(case["ids"])) > 1

    def fail_code(device_id, exc):
        try:
            return int(getattr(exc, "orig_exc_msg", "x"))
        except ValueError:
            cls = getattr(getattr(exc, "orig_exc_cls", None), "__name__", "")
            msg = str(getattr(exc, "orig_exc_msg", ""))
            if device_id in unpicklable and ("ickl" in cls or "ickl" in msg):
                return 13 * device_id + 5           # the failure the model expects for this id
            return -1

    def task(i):
        d = dur_id.get(i, dur_default)
        if d:
            time.sleep(d)
        if i in unpicklable and real_pool:
            # a result the done queue cannot carry (a builtin container holding a closure): the worker must
            # report it as the failure of this id - never drop it silently
            return [7 * i + 3, lambda: 0]
        if i in raising:
            if i % 3 == 0:
                raise StructuredError(13 * i + 5, "while computing %d" % i)
            raise ValueError(str(13 * i + 5))
        return 7 * i + 3

    ext = bool(case.get("x"))
    flaky = {int(k): v for k, v in (case.get("flaky") or {}).items()}
    net_kind = case.get("net_kind", "reset")
    attempts = {}       # per process: the retries of one task happen inside one process

    def outcome_of_attempt(i):
        """None = this invocation ends normally; raises otherwise"""
        n = attempts.get(i, 0)
        if n < flaky.get(i, 0):
            attempts[i] = n + 1
            _raise_net(net_kind, 1000 + 11 * i + n)
        attempts[i] = 0
        d = dur_id.get(i, dur_default)
        if d:
            time.sleep(d)
        if i in raising:
            if i % 3 == 0:
                raise StructuredError(13 * i + 5, "while computing %d" % i)
            raise ValueError(str(13 * i + 5))

    def xtask_plain(i):
        outcome_of_attempt(i)
        return 7 * i + 3

    def xtask_gen(i):
        yield 7 * i + 3
        outcome_of_attempt(i)
        yield i

    def enc_val(v):
        if isinstance(v, bool):
            return ["other"]
        if isinstance(v, int):
            return ["int", v]
        if isinstance(v, list) and all(isinstance(x, int) and not isinstance(x, bool) for x in v):
            return ["list", v]
        if inspect.isgenerator(v):
            return ["lazy"]
        return ["other"]

    def enc_x(device_id, result, exc):
        if exc is not None:
            try:
                code = int(getattr(exc, "orig_exc_msg", "x"))
            except ValueError:
                code = -1
            return [device_id, "fail", code] if code >= 0 else [device_id, "failother", 0]
        return [device_id, "ok", enc_val(result)]

    cons = case.get("consumer") or {}
    cons_nth = {int(k): v for k, v in (cons.get("nth") or {}).items()}
    cons_default = cons.get("default", 0)

    def enc(tr):
        if ext:
            return enc_x(tr.device_id, tr.result, tr.exc)
        if tr.exc is not None:
            return [tr.device_id, "fail", fail_code(tr.device_id, tr.exc)]
        return [tr.device_id, "ok", tr.result if isinstance(tr.result, int) else -2]

    out = {"hook": hasattr(par, "_verif_event"), "outcome": "error", "raised_id": None, "delivered": []}
    t0 = time.monotonic()
    try:
        if ext:
            pool = par.Parallel(xtask_gen if case.get("gen") else xtask_plain)
            pool.tune(parallel=case["parallel"], max_tasks=case["max_tasks"])
            if case.get("net_retry") is not None:
                pool.tune(net_retry=case["net_retry"])
            cb = case.get("callback")
            if cb:
                pool.add_callback(Progress({i: "host%d" % i for i in cb["table"]}), in_thread=bool(cb.get("in_thread")))
        else:
            pool = par.Parallel(task).tune(parallel=case["parallel"], max_tasks=case["max_tasks"])
        if case.get("mode") == "run":
            success, fail = pool.run(list(case["ids"]), tolerate_fails=case.get("tolerate", True))
            if ext:
                out["delivered"] = [enc_x(k, v, None) for k, v in success.items()]
                out["delivered"] += [enc_x(k, None, e) for k, e in fail.items()]
            else:
                out["delivered"] = [[k, "ok", v] for k, v in success.items()]
                for k, e in fail.items():
                    out["delivered"].append([k, "fail", fail_code(k, e)])
        else:
            for k, tr in enumerate(pool.irun(list(case["ids"]), case.get("tolerate", True))):
                out["delivered"].append(enc(tr))
                d = cons_nth.get(k, cons_default)
                if d:
                    time.sleep(d)
        out["outcome"] = "done"
    except par.PickleSafeException as e:
        out["outcome"] = "raised"
        out["raised_id"] = e.device_id
    except BaseException as e:  # noqa
        out["outcome"] = "error"
        out["error"] = type(e).__name__ + ":" + str(e)[:300]
    out["wall"] = round(time.monotonic() - t0, 3)
    return out


def read_trace(trace_path):
    trace = []
    if os.path.exists(trace_path):
        with open(trace_path) as f:
            for line in f:
                line = line.strip()
                if line:
                    trace.append(json.loads(line))
        os.unlink(trace_path)
    trace.sort(key=lambda r: r[0])
    if trace:
        t0 = trace[0][0]
        trace = [[round((r[0] - t0) * 1e6), r[1], r[2], r[3]] for r in trace]   # microseconds since first event
    return trace


def run_case(case, tmpdir, k):
    nruns = len(case["session"]) if "session" in case else 1
    trace_paths = [os.path.join(tmpdir, "trace_%d_%d.jsonl" % (k, j)) for j in range(nruns)]
    trace_path = trace_paths[0]
    rfd, wfd = os.pipe()
    pid = os.fork()
    if pid == 0:
        os.close(rfd)
        try:
            _one_case_child(case, trace_paths, wfd)
        finally:
            os._exit(3)
    os.close(wfd)
    deadline = time.monotonic() + case.get("timeout", 30)
    status = None
    while time.monotonic() < deadline:
        p, st = os.waitpid(pid, os.WNOHANG)
        if p:
            status = st
            break
        time.sleep(0.005)
    out = None
    if status is None:
        try:
            os.killpg(pid, signal.SIGKILL)
        except ProcessLookupError:
            pass
        os.waitpid(pid, 0)
        out = {"hook": None, "outcome": "timeout", "raised_id": None, "delivered": [], "wall": case.get("timeout", 30)}
        os.close(rfd)
    else:
        with os.fdopen(rfd) as f:
            txt = f.read()
        out = json.loads(txt) if txt else {"hook": None, "outcome": "error", "raised_id": None, "delivered": [],
                                           "error": "case process died with status %r" % status, "wall": 0}
        try:  # make sure no worker of this case is left behind
            os.killpg(pid, signal.SIGKILL)
        except (ProcessLookupError, PermissionError):
            pass
    if "session" in case:
        # a session that did not come back: every run gets the verdict of the whole (timeout / error)
        runs = out.get("session") or [dict(out) for _ in range(nruns)]
        for j, o in enumerate(runs):
            trace = read_trace(trace_paths[j])
            if o.get("hook") is None:
                o["hook"] = bool(trace)
            o["trace"] = trace
        return {"session": runs, "outcome": out.get("outcome", "done")}
    trace = read_trace(trace_path)
    if out.get("hook") is None:
        out["hook"] = bool(trace)
    out["trace"] = trace
    return out


def main():
    mp.set_start_method("fork", force=True)
    cases = json.load(sys.stdin)
    try:    # imported once; every case still runs in a forked child of its own, which starts from this
        import annet.parallel  # noqa: F401   pristine module state (this process never creates a pool)
    except BaseException:  # noqa
        pass                # the children report it case by case
    base = os.path.join(os.getcwd(), "c12_tmp")
    os.makedirs(base, exist_ok=True)
    tmpdir = tempfile.mkdtemp(prefix="run_", dir=base)
    try:
        outs, timeouts = [], 0
        for k, c in enumerate(cases):
            if timeouts >= 2:       # a pool that hangs on every schedule must not cost deadline x cases
                outs.append({"hook": None, "outcome": "skipped", "raised_id": None, "delivered": [], "trace": [],
                             "wall": 0})
                continue
            o = run_case(c, tmpdir, k)
            timeouts += o["outcome"] == "timeout"
            outs.append(o)
    finally:
        shutil.rmtree(tmpdir, ignore_errors=True)
    sys.stdout.write("\n" + json.dumps(outs) + "\n")


if __name__ == "__main__":
    main()
