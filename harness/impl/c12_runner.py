"""C12 runner: drives the REAL annet.parallel.Parallel pool (fork start method) under a schedule.

stdin : JSON list of cases
  {"ids": [int], "parallel": int, "max_tasks": int, "raising": [int], "tolerate": bool, "mode": "irun"|"run",
   "dur": {"default": s, "id": {"<id>": s}}, "consumer": {"default": s, "nth": {"<k>": s}},
   "sched": {...ANNET_VERIF_SCHED...}, "timeout": s}
stdout: one JSON line, list of
  {"hook": bool, "outcome": "done"|"raised"|"timeout"|"error", "raised_id": int|null,
   "delivered": [[id, "ok"|"fail", value]], "trace": [[t, actor, event, id]], "wall": s}

Every case runs in its own session (os.setsid) so that a pool that never terminates can be killed as a
group; the payload of id i is 7*i+3, a raising task raises ValueError(str(13*i+5)).
"""
import json
import multiprocessing as mp
import os
import shutil
import signal
import sys
import tempfile
import time


def _one_case_child(case, trace_path, wfd):
    os.setsid()
    devnull = os.open(os.devnull, os.O_WRONLY)
    os.dup2(devnull, 1)
    os.dup2(devnull, 2)
    os.environ["ANNET_VERIF_TRACE"] = trace_path
    os.environ["ANNET_VERIF_SCHED"] = json.dumps(case.get("sched") or {})
    import annet.parallel as par

    dur = case.get("dur") or {}
    dur_id = {int(k): v for k, v in (dur.get("id") or {}).items()}
    dur_default = dur.get("default", 0)
    raising = set(case.get("raising") or [])
    unpicklable = set(case.get("unpicklable") or [])      # a subset of raising; only meaningful with real workers
    real_pool = min(case["parallel"], len(case["ids"])) > 1

    def fail_code(device_id, exc):
        try:
            return int(getattr(exc, "orig_exc_msg", "x"))
        except ValueError:
            cls = getattr(getattr(exc, "orig_exc_cls", None), "__name__", "")
            msg = str(getattr(exc, "orig_exc_msg", ""))
            if device_id in unpicklable and ("ickl" in cls or "ickl" in msg):
                return 13 * device_id + 5           # the failure the model expects for this id
            return -1

    def task(i):
        d = dur_id.get(i, dur_default)
        if d:
            time.sleep(d)
        if i in unpicklable and real_pool:
            # a result the done queue cannot carry (a builtin container holding a closure): the worker must
            # report it as the failure of this id - never drop it silently
            return [7 * i + 3, lambda: 0]
        if i in raising:
            raise ValueError(str(13 * i + 5))
        return 7 * i + 3

    cons = case.get("consumer") or {}
    cons_nth = {int(k): v for k, v in (cons.get("nth") or {}).items()}
    cons_default = cons.get("default", 0)

    def enc(tr):
        if tr.exc is not None:
            return [tr.device_id, "fail", fail_code(tr.device_id, tr.exc)]
        return [tr.device_id, "ok", tr.result if isinstance(tr.result, int) else -2]

    out = {"hook": hasattr(par, "_verif_event"), "outcome": "error", "raised_id": None, "delivered": []}
    t0 = time.monotonic()
    try:
        pool = par.Parallel(task).tune(parallel=case["parallel"], max_tasks=case["max_tasks"])
        if case.get("mode") == "run":
            success, fail = pool.run(list(case["ids"]), tolerate_fails=case.get("tolerate", True))
            out["delivered"] = [[k, "ok", v] for k, v in success.items()]
            for k, e in fail.items():
                out["delivered"].append([k, "fail", fail_code(k, e)])
        else:
            for k, tr in enumerate(pool.irun(list(case["ids"]), case.get("tolerate", True))):
                out["delivered"].append(enc(tr))
                d = cons_nth.get(k, cons_default)
                if d:
                    time.sleep(d)
        out["outcome"] = "done"
    except par.PickleSafeException as e:
        out["outcome"] = "raised"
        out["raised_id"] = e.device_id
    except BaseException as e:  # noqa
        out["outcome"] = "error"
        out["error"] = type(e).__name__ + ":" + str(e)[:300]
    out["wall"] = round(time.monotonic() - t0, 3)
    with os.fdopen(wfd, "w") as f:
        f.write(json.dumps(out))
    os._exit(0)


def run_case(case, tmpdir, k):
    trace_path = os.path.join(tmpdir, "trace_%d.jsonl" % k)
    rfd, wfd = os.pipe()
    pid = os.fork()
    if pid == 0:
        os.close(rfd)
        try:
            _one_case_child(case, trace_path, wfd)
        finally:
            os._exit(3)
    os.close(wfd)
    deadline = time.monotonic() + case.get("timeout", 30)
    status = None
    while time.monotonic() < deadline:
        p, st = os.waitpid(pid, os.WNOHANG)
        if p:
            status = st
            break
        time.sleep(0.005)
    out = None
    if status is None:
        try:
            os.killpg(pid, signal.SIGKILL)
        except ProcessLookupError:
            pass
        os.waitpid(pid, 0)
        out = {"hook": None, "outcome": "timeout", "raised_id": None, "delivered": [], "wall": case.get("timeout", 30)}
        os.close(rfd)
    else:
        with os.fdopen(rfd) as f:
            txt = f.read()
        out = json.loads(txt) if txt else {"hook": None, "outcome": "error", "raised_id": None, "delivered": [],
                                           "error": "case process died with status %r" % status, "wall": 0}
        try:  # make sure no worker of this case is left behind
            os.killpg(pid, signal.SIGKILL)
        except (ProcessLookupError, PermissionError):
            pass
    trace = []
    if os.path.exists(trace_path):
        with open(trace_path) as f:
            for line in f:
                line = line.strip()
                if line:
                    trace.append(json.loads(line))
        os.unlink(trace_path)
    trace.sort(key=lambda r: r[0])
    if trace:
        t0 = trace[0][0]
        trace = [[round((r[0] - t0) * 1e6), r[1], r[2], r[3]] for r in trace]   # microseconds since first event
    if out.get("hook") is None:
        out["hook"] = bool(trace)
    out["trace"] = trace
    return out


def main():
    mp.set_start_method("fork", force=True)
    cases = json.load(sys.stdin)
    base = os.path.join(os.getcwd(), "c12_tmp")
    os.makedirs(base, exist_ok=True)
    tmpdir = tempfile.mkdtemp(prefix="run_", dir=base)
    try:
        outs, timeouts = [], 0
        for k, c in enumerate(cases):
            if timeouts >= 2:       # a pool that hangs on every schedule must not cost deadline x cases
                outs.append({"hook": None, "outcome": "skipped", "raised_id": None, "delivered": [], "trace": [],
                             "wall": 0})
                continue
            o = run_case(c, tmpdir, k)
            timeouts += o["outcome"] == "timeout"
            outs.append(o)
    finally:
        shutil.rmtree(tmpdir, ignore_errors=True)
    sys.stdout.write("\n" + json.dumps(outs) + "\n")


if __name__ == "__main__":
    main()
