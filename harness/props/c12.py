"""C12 — the worker pool returns exactly one result per submitted id (DESIGN §3.C12).

Proof stage: Properties/C12.v (invariants of the transition system Model/Pool.v, tie to the loop shape
re-read from annet/parallel.py into Gen/Src_parallel.v).
Correspondence: the REAL pool is driven under generated schedules (task durations, consumer delays, delay
points of the ANNET_VERIF hook), with generator / retried tasks, callbacks and several pools per process
(sessions, Spec/P_C12x.v); Coq evaluates
  holds = P_C12 on what the caller of irun/run really received, and
  agree = the recorded trace is a run of Model/Pool.v's `exec` (per-actor trace inclusion; the silent steps
          -- feeder flush, exit visibility -- are supplied by a witness search below and *checked* by Coq).
"""
from __future__ import annotations

import json
import re

from .. import core
from ..core import clist, cnat, cbool

ID = "C12"
THEOREM_FILE = "Properties/C12.v"
IMPORTS = "From Annet Require Import Model.Pool Spec.P_C12."
TY = "list nat * list nat * nat * nat * bool * option (list label * list label) * outcome"
META = {
    "category": "proof",
    "text": "Proof (Coq, unbounded in number of ids, pool size, max_tasks, any interleaving): in the transition "
            "system parent loop x workers x task queue x done queue (x feeder buffers), every reachable state "
            "conserves the submitted ids (delivered + in flight + busy + pending = submitted, payload = f id) and "
            "every reachable state in which the parent loop has exited has delivered exactly the submitted "
            "multiset -- for the repaired loop (break only when a get issued after the pool was seen empty finds "
            "nothing), whose shape is re-read from annet/parallel.py on every run; the loop as originally written "
            "and the naive repair are refuted by concrete schedules. Also proved for all inputs (Model/PoolSession.v): "
            "invoke_retry delivers what the first attempt that does not die with a network error computes (for a "
            "generator task the list of yielded values, never the generator object) whenever that attempt is among "
            "the first net_retry+1, else the last network error; the protocol theorem lifted to such payloads; the "
            "single-process path with retry and progress callbacks; and what the pools of one Parallel object "
            "deliver is determined by the operations on that object alone (independence of the pools of a process). "
            "Correspondence: the real process pool is run under generated schedules and Coq evaluates the property "
            "predicate on the delivered results and replays each recorded trace through the model's step function; "
            "extended runs use generator and plain tasks with k = 0..net_retry+1 leading BrokenPipe/ConnectionReset "
            "errors, tune(net_retry=0..3), progress-logger-like callbacks, and sessions of several pools run one after "
            "another by the same process, each pool judged by Coq (P_C12_session) against what was submitted to it "
            "alone.",
    "technique": "Coq invariants over an executable labelled transition system; AST translator for the loop shape; "
                 "hooked real-pool runs with Coq-checked trace inclusion; pure models of invoke_retry and of the per-object "
                 "callback/tuning store, compared with the real single-process path and judged per pool in sessions",
    "note": "Partial w.r.t. the runtime: theorems are about the model; OS scheduling, signals, workers killed from "
            "outside, task_timeout expiry, mp.Queue pipe-capacity effects and callbacks that multiply or drop "
            "results are not modelled (callbacks are modelled and tested only as progress loggers: a lookup in a "
            "table that contains the ids of their own run, the result returned unchanged); the independence theorem is "
            "about the model's object store, its tie to the Python class is the session runs (testing); pools of one "
            "process are run one after another, never concurrently. Assumed law (hypothesis of the theorems): a worker's put on the done queue "
            "is visible to the parent before its exit code is (mp.Queue joins its feeder thread at process exit). "
            "The tie to /repo is the regenerated loop shape plus trace inclusion on real runs (testing, bounded by "
            "the schedule generator).",
}

F_OK = lambda i: 7 * i + 3      # noqa: E731   payload computed by the runner's task
F_FAIL = lambda i: 13 * i + 5   # noqa: E731


# ------------------------------------------------------------------------------------------------------
# schedules


def _mk(ids, parallel, max_tasks, raising=(), tolerate=True, mode="irun", dur=None, consumer=None, delay=None,
        src="grid", unit=0.01, get_timeout=0.03, timeout=10, unpicklable=()):
    return {"ids": list(ids), "parallel": parallel, "max_tasks": max_tasks, "raising": sorted(raising),
            "unpicklable": sorted(set(unpicklable) & set(raising)),
            "tolerate": tolerate, "mode": mode, "dur": dur or {}, "consumer": consumer or {},
            "sched": {"get_timeout": get_timeout, "delay": delay or {}}, "timeout": timeout, "src": src}


def refuting_schedule(scaled: bool) -> dict:
    """DESIGN §7 F1: pool=3, 8 ids, the consumer is slow after the first result."""
    if scaled:
        return _mk(range(8), 3, 25, dur={"default": 0.01}, consumer={"nth": {"0": 0.4}}, src="F1-slow-consumer")
    c = _mk(range(8), 3, 25, dur={"default": 0.05}, consumer={"nth": {"0": 1.5}}, src="F1-slow-consumer", timeout=40)
    c["sched"] = {}
    return c


def adversarial(scaled: bool) -> list[dict]:
    if not scaled:      # no hook in the repository: real 1 s get timeouts, consumer/task delays only
        out = [refuting_schedule(False)]
        for (n, p, m) in [(2, 2, 25), (5, 2, 2), (6, 3, 1), (9, 4, 3)]:
            c = _mk(range(n), p, m, dur={"default": 0.02}, consumer={"nth": {"0": 1.3}}, src="slow-consumer", timeout=40)
            c["sched"] = {}
            out.append(c)
            c = _mk(range(n), p, m, raising=[1], dur={"default": 0.02}, src="plain", timeout=40)
            c["sched"] = {}
            out.append(c)
        return out
    out = [refuting_schedule(True)]
    # failing tasks that return something the done queue cannot carry instead of raising
    for (n, p, m) in [(4, 2, 25), (6, 3, 2), (8, 4, 1)]:
        out.append(_mk(range(n), p, m, raising=[1, n - 1], unpicklable=[1, n - 1], dur={"default": 0.005},
                       src="unpicklable-result"))
    # consumer slow at various positions, with and without retirement, with failures
    for (n, p, m, k, rs) in [(2, 2, 25, 0, []), (3, 2, 1, 0, []), (5, 2, 2, 1, [3]), (8, 3, 2, 0, [0, 7]),
                             (8, 8, 25, 0, []), (12, 4, 3, 2, [5]), (6, 3, 1, 0, []), (16, 5, 4, 3, []),
                             (40, 8, 5, 0, [9]), (9, 2, 9, 4, [])]:
        out.append(_mk(range(n), p, m, raising=rs, dur={"default": 0.005}, consumer={"nth": {str(k): 0.3}},
                       src="slow-consumer"))
    # the parent is slow between the (timed-out) get and the reaping while the workers put and exit:
    # the schedule that defeats `if not pool and queue_empty: break`
    for (n, p, m) in [(2, 2, 25), (3, 3, 25), (4, 2, 2), (6, 3, 1), (8, 4, 25), (5, 5, 1)]:
        out.append(_mk(range(n), p, m, dur={"default": 0.06}, delay={"before_reap": {"nth": {"0": 0.35}}},
                       src="slow-before-reap"))
        out.append(_mk(range(n), p, m, dur={"default": 0.06},
                       delay={"before_reap": {"nth": {"0": 0.35}}, "put_done": 0.02}, src="slow-before-reap+slow-exit"))
    # a worker lingers between its last put and its exit / between STOP and exit
    for (n, p, m) in [(4, 2, 2), (6, 3, 1), (9, 3, 3), (10, 4, 25)]:
        out.append(_mk(range(n), p, m, dur={"default": 0.004}, delay={"put_done": 0.03}, src="slow-exit"))
        out.append(_mk(range(n), p, m, dur={"default": 0.004}, delay={"stop": 0.08}, src="slow-stop"))
        out.append(_mk(range(n), p, m, dur={"default": 0.004}, delay={"get": 0.03}, src="slow-after-get"))
        out.append(_mk(range(n), p, m, dur={"default": 0.004}, delay={"put": 0.02}, src="slow-before-put"))
    # retirement exactly when the ids run out; every task fails; max_tasks 1 with many ids
    out.append(_mk(range(6), 3, 2, src="retire-at-end"))
    out.append(_mk(range(8), 2, 4, src="retire-at-end"))
    out.append(_mk(range(7), 3, 25, raising=range(7), src="all-fail"))
    out.append(_mk(range(7), 3, 2, raising=range(7), tolerate=False, src="all-fail-intolerant"))
    out.append(_mk(range(40), 8, 1, src="max-tasks-1"))
    out.append(_mk(range(40), 2, 25, src="quota-never-reached"))
    out.append(_mk([], 4, 25, src="no-ids"))
    out.append(_mk([5, 5, 7, 5], 3, 2, src="duplicate-ids"))
    out.append(_mk([3, 1, 3], 2, 25, raising=[3], src="duplicate-ids"))
    return out


def exhaustive_small() -> list[dict]:
    out = []
    for n in range(0, 5):
        for p in range(1, 4):
            for m in (1, 2):
                for cons in ({}, {"nth": {"0": 0.12}}):
                    out.append(_mk(range(n), p, m, dur={"default": 0.003}, consumer=cons, src="small-scope"))
    return out


def random_grid(ctx, count: int) -> list[dict]:
    rng = ctx.rng("grid")
    out = []
    for _ in range(count):
        n = rng.choice([0, 1, 2, 3, 4, 5, 6, 8, 10, 13, 17, 21, 30, 40])
        p = rng.randint(1, 8)
        m = rng.choice([1, 2, 3, 4, 5, 8, 13, 25])
        ids = rng.sample(range(0, 300), n)
        raising = [i for i in ids if rng.random() < rng.choice([0, 0, 0.15, 0.5])]
        tol = rng.random() < 0.8
        prof = rng.choice(["zero", "uniform", "one-slow", "ramp", "jitter"])
        u = rng.choice([0.002, 0.005, 0.01])
        if prof == "zero":
            dur = {}
        elif prof == "uniform":
            dur = {"default": u}
        elif prof == "one-slow":
            dur = {"default": u / 2, "id": {str(rng.choice(ids)): 8 * u}} if ids else {}
        elif prof == "ramp":
            dur = {"id": {str(i): round(u * (k % 5), 4) for k, i in enumerate(ids)}}
        else:
            dur = {"id": {str(i): round(rng.random() * 2 * u, 4) for i in ids}}
        cprof = rng.choice(["none", "none", "first", "every", "some", "last"])
        if cprof == "none" or not n:
            cons = {}
        elif cprof == "first":
            cons = {"nth": {"0": rng.choice([0.1, 0.25])}}
        elif cprof == "every":
            cons = {"default": rng.choice([0.003, 0.01])}
        elif cprof == "some":
            cons = {"nth": {str(rng.randrange(n)): 0.08 for _ in range(3)}}
        else:
            cons = {"nth": {str(n - 1): 0.1}}
        delay = {}
        r = rng.random()
        if r < 0.15:
            delay["before_reap"] = {"nth": {str(rng.randrange(4)): rng.choice([0.05, 0.2])}}
        elif r < 0.25:
            delay["put_done"] = rng.choice([0.005, 0.02])
        elif r < 0.32:
            delay["stop"] = rng.choice([0.02, 0.06])
        elif r < 0.4:
            delay["get"] = 0.01
        mode = "run" if (rng.random() < 0.12 and not cons and tol) else "irun"
        # some failing tasks do not raise but return something the done queue cannot carry
        unp = [i for i in raising if rng.random() < 0.5] if rng.random() < 0.3 else []
        out.append(_mk(ids, p, m, raising=raising, tolerate=tol, mode=mode, dur=dur, consumer=cons, delay=delay,
                       src="grid", get_timeout=rng.choice([0.02, 0.03, 0.05]), unpicklable=unp))
    return out


# ------------------------------------------------------------------------------------------------------
# extended runs: generator tasks, network-error retries (invoke_retry), tune(net_retry=...), callbacks, and
# sessions = several pools run one after another by the SAME runner process


def _mkx(ids, parallel, max_tasks, *, gen=True, flaky=None, net_retry=None, net_kind="reset", callback=None,
         raising=(), tolerate=True, mode="irun", dur=None, consumer=None, delay=None, get_timeout=0.03):
    ids = list(ids)
    flaky = {int(k): int(v) for k, v in (flaky or {}).items() if int(v) > 0 and int(k) in ids}
    if flaky and len(set(ids)) != len(ids):
        raise ValueError("flaky ids need distinct ids (the runner counts attempts per id)")
    if callback is not None and not set(ids) <= set(callback["table"]):
        raise ValueError("a progress callback is built from a table that contains the ids of its own run")
    return {"x": True, "ids": ids, "parallel": parallel, "max_tasks": max_tasks, "gen": bool(gen),
            "flaky": {str(k): v for k, v in sorted(flaky.items())}, "net_retry": net_retry, "net_kind": net_kind,
            "callback": callback, "raising": sorted(set(raising) & set(ids)), "tolerate": tolerate, "mode": mode,
            "dur": dur or {}, "consumer": consumer or {}, "sched": {"get_timeout": get_timeout, "delay": delay or {}}}


def _session(runs, src, timeout=None):
    return {"session": list(runs), "src": src, "timeout": timeout or 10 + 6 * len(runs)}


DEFAULT_NET_RETRY = 3       # only used to choose interesting fault counts; the reference is Coq's new_obj


def retry_family() -> list[dict]:
    """k leading network errors for k = 0 .. net_retry + 1 (the last permitted attempt succeeds / one more: the
    failure is delivered), net_retry tuned 0..3 and untouched, generator and plain tasks, both paths."""
    out = []
    for gen in (True, False):
        for nr in (None, 0, 1, 2, 3):
            eff = DEFAULT_NET_RETRY if nr is None else nr
            for par, m in ((1, 25), (3, 2)):
                base = 10 * (eff + 1) + (100 if gen else 0)
                ids = list(range(base, base + 6))
                flaky = {ids[1]: eff, ids[2]: min(1, eff), ids[3]: max(eff - 1, 0), ids[4]: eff + 1}
                kind = ("reset", "pipe", "wrapped")[(eff + par) % 3]
                out.append(_session([_mkx(ids, par, m, gen=gen, flaky=flaky, net_retry=nr, net_kind=kind,
                                          raising=[ids[5]], dur={"default": 0.002})], "retry"))
    # the failure of an exhausted retry aborts an intolerant run; Parallel.run(); one id only (parallel > ids)
    out.append(_session([_mkx([7, 8, 9], 1, 25, flaky={8: 4}, tolerate=False)], "retry-intolerant"))
    out.append(_session([_mkx([7, 8, 9], 1, 25, flaky={8: 3}, tolerate=False)], "retry-intolerant"))
    out.append(_session([_mkx([7, 8, 9, 10], 2, 25, flaky={8: 1}, net_retry=0, tolerate=False,
                              dur={"default": 0.004})], "retry-intolerant"))
    out.append(_session([_mkx(range(20, 26), 2, 3, flaky={22: 3, 24: 1}, mode="run")], "retry-run"))
    out.append(_session([_mkx(range(20, 26), 1, 3, flaky={22: 3, 24: 4}, mode="run", gen=False)], "retry-run"))
    out.append(_session([_mkx([2], 4, 25, flaky={2: 3})], "retry-single-id"))
    out.append(_session([_mkx(range(12), 4, 1, flaky={i: i % 4 for i in range(12)}, net_kind="pipe",
                              dur={"default": 0.003})], "retry-max-tasks-1"))
    return out


def session_family() -> list[dict]:
    """a pool with a progress callback over its own ids, followed in the same process by pools nobody registered a
    callback on, over other ids; tunings of an earlier pool followed by an untuned pool that needs the default."""
    out = []
    for in_thread in (False, True):
        for pa, pb in ((2, 3), (1, 1), (1, 3), (3, 1)):
            a = _mkx([1, 2, 3], pa, 25, callback={"table": [1, 2, 3], "in_thread": in_thread}, dur={"default": 0.002})
            b = _mkx(range(10, 15), pb, 2, gen=bool(pa % 2), dur={"default": 0.002})
            out.append(_session([a, b], "callback-then-fresh-pool"))
    for pa, pb, pc in ((1, 1, 1), (2, 1, 3), (1, 3, 2)):
        a = _mkx([1, 2, 3, 4], pa, 25, net_retry=0, callback={"table": list(range(8)), "in_thread": False})
        b = _mkx([20, 21, 22, 23], pb, 25, flaky={21: 3, 22: 1}, dur={"default": 0.002})
        c = _mkx([30, 31, 32], pc, 1, callback={"table": [30, 31, 32], "in_thread": True}, gen=False,
                 dur={"default": 0.002})
        d = _mkx([1, 40, 41], pb, 25, raising=[40])
        out.append(_session([a, b, c, d], "tuned-callback-then-fresh-pools"))
    # the same ids again in a later pool; an empty run in between
    a = _mkx([5, 6, 7], 2, 1, callback={"table": [5, 6, 7], "in_thread": True}, dur={"default": 0.002})
    out.append(_session([a, _mkx([], 3, 25), _mkx([5, 6, 7, 8], 2, 25, dur={"default": 0.002})], "callback-then-same-ids"))
    return out


def random_sessions(ctx, count: int) -> list[dict]:
    rng = ctx.rng("sessions")
    out = []
    for _ in range(count):
        runs = []
        nruns = rng.choice([1, 1, 2, 2, 3])
        for k in range(nruns):
            n = rng.choice([0, 1, 2, 3, 4, 5, 6, 8, 10])
            lo = rng.choice([0, 50 * k, 50 * k])                  # mostly other ids than the pools before
            ids = rng.sample(range(lo, lo + 40), n)
            p = rng.randint(1, 4)
            m = rng.choice([1, 2, 3, 25])
            nr = rng.choice([None, None, 0, 1, 2, 3])
            eff = DEFAULT_NET_RETRY if nr is None else nr
            flaky = {}
            if rng.random() < 0.7:
                for i in ids:
                    if rng.random() < 0.4:
                        flaky[i] = rng.choice([eff, eff, eff + 1, rng.randint(0, eff + 1)])
            raising = [i for i in ids if rng.random() < rng.choice([0, 0, 0.2])]
            cb = None
            if rng.random() < (0.6 if k + 1 < nruns else 0.25):
                extra = rng.sample(range(300, 340), rng.choice([0, 0, 2]))
                cb = {"table": sorted(ids + extra), "in_thread": rng.random() < 0.5}
            tol = rng.random() < 0.85
            u = rng.choice([0, 0.002, 0.004])
            cons = {"nth": {"0": 0.08}} if (n and rng.random() < 0.1) else {}
            delay = {}
            r = rng.random()
            if r < 0.1:
                delay["before_reap"] = {"nth": {str(rng.randrange(3)): 0.05}}
            elif r < 0.18:
                delay["put_done"] = 0.005
            mode = "run" if (rng.random() < 0.15 and tol and not cons) else "irun"
            runs.append(_mkx(ids, p, m, gen=rng.random() < 0.7, flaky=flaky, net_retry=nr,
                             net_kind=rng.choice(["reset", "pipe", "wrapped"]), callback=cb, raising=raising,
                             tolerate=tol, mode=mode, dur={"default": u} if u else {}, consumer=cons, delay=delay,
                             get_timeout=rng.choice([0.02, 0.03])))
        out.append(_session(runs, "random-session"))
    return out


# ------------------------------------------------------------------------------------------------------
# recorded trace -> labels, witness search


class Anomaly(Exception):
    pass


def slot_of(actor: str) -> int:
    m = re.fullmatch(r"Worker-(\d+)", actor)
    if not m:
        raise Anomaly(f"unknown actor {actor}")
    return int(m.group(1))


def recorded_labels(trace: list) -> list[tuple]:
    """[(t_us, actor_index, label tuple)] for the events the model makes visible; actor 0 = parent."""
    out = []
    iters = 0
    # On an abort the parent terminates its workers at once; a worker can be killed between taking a task
    # from the queue and writing its trace record, so worker records later than the abort are not a reliable
    # account of what the workers did (the outcome is already decided at that point).
    t_abort = min((t for t, actor, ev, _ in trace if actor == "parent" and ev == "abort"), default=None)
    for t, actor, ev, ident in trace:
        if t_abort is not None and actor != "parent" and t > t_abort:
            continue
        if actor == "parent":
            if ev == "iter":
                iters += 1
                if iters > 1:
                    out.append((t, 0, ("LLoop",)))
            elif ev == "get":
                out.append((t, 0, ("LGet", ident)))
            elif ev == "empty":
                out.append((t, 0, ("LGetEmpty",)))
            elif ev == "reap":
                if ident["failed"]:
                    raise Anomaly(f"workers failed: {ident['failed']}")
                failed = set(ident["failed"])
                obs = [(slot_of(a), "C9") for a in ident["retired"]] + \
                      [(slot_of(a), "C0") for a in ident["removed"] if a not in failed]
                out.append((t, 0, ("LReap", tuple(sorted(obs)))))
            elif ev == "deliver":
                out.append((t, 0, ("LDeliver", ident)))
            elif ev == "abort":
                if ident is None:
                    raise Anomaly("abort without a failed result (task_timeout?)")
                out.append((t, 0, ("LAbort", ident)))
            elif ev == "break":
                out.append((t, 0, ("LBreak",)))
            elif ev in ("start", "before_reap"):
                pass
            else:
                raise Anomaly(f"unknown parent event {ev}")
        else:
            w = slot_of(actor)
            if ev == "take":
                out.append((t, w + 1, ("LTake", w, ident)))
            elif ev == "stop":
                out.append((t, w + 1, ("LStop", w)))
            elif ev == "put":
                out.append((t, w + 1, ("LFinish", w, ident)))
            elif ev in ("put_done", "retire"):
                pass
            else:
                raise Anomaly(f"unknown worker event {ev}")
    return out


class Sim:
    """Just enough of Model/Pool.v's `exec` to decide where the silent steps go.  Not an oracle: Coq replays
    the resulting witness with the real `exec` and compares its visible part with the recording."""

    def __init__(self, ids, pool, max_tasks, pipe_order):
        self.taskq = [("Inv", i) for i in ids] + [("Stop",)] * pool
        self.doneq: list = []
        self.w = [{"st": "Idle", "k": 0, "out": [], "in": True, "ret": False} for _ in range(pool)]
        self.got = None
        self.pc = "AtGet"
        self.m = max_tasks
        self.order = list(pipe_order)        # ids in the order they went through the pipe
        self.flushed = 0                     # prefix of self.order already flushed
        self.producer: dict = {}             # position in self.order -> slot
        self.wit: list[tuple] = []

    # -- feeder flushes, as late as possible but in pipe order
    def _pos_upto(self, ident, slot=None):
        """index in order of the first unflushed occurrence of ident (produced by slot, if given)"""
        for k in range(self.flushed, len(self.order)):
            if self.order[k] == ident:
                return k
        return None

    def can_flush_upto(self, k) -> bool:
        outs = [list(w["out"]) for w in self.w]
        for j in range(self.flushed, k + 1):
            ident = self.order[j]
            src = [s for s, o in enumerate(outs) if o and o[0] == ident]
            if not src:
                return False
            outs[src[0]].pop(0)
        return True

    def flush_upto(self, k):
        for j in range(self.flushed, k + 1):
            ident = self.order[j]
            s = [s for s, w in enumerate(self.w) if w["out"] and w["out"][0] == ident][0]
            self.w[s]["out"].pop(0)
            self.doneq.append(ident)
            self.wit.append(("LFlush", s))
        self.flushed = max(self.flushed, k + 1)

    def last_pos_of_slot(self, s):
        """position (in pipe order) of the last item still in slot s's outbox, or None/False"""
        need = list(self.w[s]["out"])
        if not need:
            return None
        outs = [list(w["out"]) for w in self.w]
        for j in range(self.flushed, len(self.order)):
            ident = self.order[j]
            src = [t for t, o in enumerate(outs) if o and o[0] == ident]
            if not src:
                return False
            outs[src[0]].pop(0)
            if not outs[s]:
                return j
        return False

    def silent_parent(self):
        if self.pc == "AtDeliver" and self.got is None:
            self.wit.append(("LNoDeliver",))
            self.pc = "AtBreak"

    def try_apply(self, lab) -> bool:
        kind = lab[0]
        if kind == "LTake":
            _, s, i = lab
            w = self.w[s]
            if w["st"] == "Idle" and self.taskq and self.taskq[0] == ("Inv", i):
                self.taskq.pop(0)
                w["st"] = ("Busy", i)
                self.wit.append(lab)
                return True
            return False
        if kind == "LStop":
            w = self.w[lab[1]]
            if w["st"] == "Idle" and self.taskq and self.taskq[0] == ("Stop",):
                self.taskq.pop(0)
                w["st"] = ("Dying", "C0")
                self.wit.append(lab)
                return True
            return False
        if kind == "LFinish":
            _, s, i = lab
            w = self.w[s]
            if w["st"] == ("Busy", i):
                w["out"].append(i)
                w["k"] += 1
                w["st"] = ("Dying", "C9") if (self.m and w["k"] >= self.m) else "Idle"
                self.wit.append(lab)
                return True
            return False
        # parent
        if kind in ("LGet", "LGetEmpty"):
            if self.pc != "AtGet":
                return False
            if kind == "LGetEmpty":
                if self.doneq:
                    return False
                self.got = None
            else:
                i = lab[1]
                if not self.doneq:
                    k = self._pos_upto(i)
                    if k is None or not self.can_flush_upto(k):
                        return False
                    self.flush_upto(k)
                if self.doneq[0] != i:
                    return False
                self.doneq.pop(0)
                self.got = i
            self.pc = "AtReap"
            self.wit.append(lab)
            return True
        if kind == "LReap":
            if self.pc != "AtReap":
                return False
            obs = dict(lab[1])
            need = -1
            for s, c in obs.items():
                if s >= len(self.w):
                    return False
                w = self.w[s]
                if not w["in"]:
                    return False
                if w["st"] == ("Exited", c):
                    continue
                if w["st"] != ("Dying", c):
                    return False
                k = self.last_pos_of_slot(s)
                if k is False:
                    return False
                if k is not None:
                    need = max(need, k)
            for s, w in enumerate(self.w):
                if w["in"] and s not in obs and isinstance(w["st"], tuple) and w["st"][0] == "Exited":
                    return False
            if need >= 0:
                if not self.can_flush_upto(need):
                    return False
                self.flush_upto(need)
            for s, c in sorted(obs.items()):
                w = self.w[s]
                if w["st"] == ("Dying", c):
                    w["st"] = ("Exited", c)
                    self.wit.append(("LExit", s))
            for s, c in obs.items():
                if c == "C9":
                    self.w[s]["ret"] = True
                else:
                    self.w[s]["in"] = False
            self.pc = "AtDeliver"
            self.wit.append(lab)
            return True
        if kind in ("LDeliver", "LAbort"):
            if self.pc != "AtDeliver" or self.got != lab[1] or self.got is None:
                return False
            if kind == "LDeliver":
                self.got = None
                self.pc = "AtBreak"
            else:
                self.pc = "Aborted"
            self.wit.append(lab)
            return True
        if kind in ("LLoop", "LBreak"):
            self.silent_parent()
            if self.pc != "AtBreak":
                return False
            if kind == "LLoop":
                for w in self.w:
                    if w["ret"]:
                        w.update({"st": "Idle", "k": 0, "out": [], "in": True, "ret": False})
                self.pc = "AtGet"
            else:
                self.pc = "Done"
            self.wit.append(lab)
            return True
        raise Anomaly(f"label {lab}")


def build_witness(case: dict, pool: int, rec: list[tuple]) -> tuple[list[tuple], int, bool]:
    """Greedy search: take the recorded events in time order; an event that is not enabled yet is deferred
    (together with the later events of its actor).  Returns (witness labels, max time inversion in us, complete)."""
    got_order = [lab[1] for _, _, lab in rec if lab[0] == "LGet"]
    puts = [lab[2] for _, _, lab in rec if lab[0] == "LFinish"]
    rest = list(puts)
    for i in got_order:
        if i in rest:
            rest.remove(i)
    sim = Sim(case["ids"], pool, case["max_tasks"], got_order + rest)
    pending = list(rec)
    tmax, inversion = 0, 0
    while pending:
        blocked = set()
        for idx, (t, a, lab) in enumerate(pending):
            if a in blocked:
                continue
            if a - 1 >= pool:
                raise Anomaly(f"event of worker slot {a - 1} with pool size {pool}")
            if sim.try_apply(lab):
                inversion = max(inversion, tmax - t)
                tmax = max(tmax, t)
                del pending[idx]
                break
            blocked.add(a)
        else:
            return sim.wit + [lab for _, _, lab in pending], inversion, False
    return sim.wit, inversion, True


# ------------------------------------------------------------------------------------------------------
# Coq terms


def clabel(lab: tuple) -> str:
    k = lab[0]
    if k in ("LTake", "LFinish"):
        return f"{k} {lab[1]} {lab[2]}"
    if k in ("LStop", "LFlush", "LExit", "LGet", "LDeliver", "LAbort"):
        return f"{k} {lab[1]}"
    if k == "LReap":
        return "LReap " + clist(f"({s}, {c})" for s, c in lab[1])
    return k


def cresults(d: list) -> str:
    items = []
    for i, kind, v in d:
        if not (isinstance(i, int) and isinstance(v, int) and 0 <= i < 5000 and 0 <= v < 5000):
            raise core.CheckFailure(f"result outside the printable domain: {(i, kind, v)}")
        items.append(f"({i}, {'VOk' if kind == 'ok' else 'VFail'} {v})")
    return clist(items)


def coutcome(o: dict) -> str:
    d = cresults(o["delivered"])
    if o["outcome"] == "done":
        return f"Completed {d}"
    if o["outcome"] == "raised" and isinstance(o["raised_id"], int):
        return f"Raised {o['raised_id']} {d}"
    return f"Other {d}"


def extra_defs(brk: str) -> str:
    return f"""
Definition mk (ids raising : list nat) (par m : nat) (tol : bool) : config :=
  Cfg ids (pool_size par (List.length ids)) m tol (std_f raising) ({brk}) lawful_exit.
Definition agree (c : {TY}) : bool :=
  match c with (ids, raising, par, m, tol, tr, o) =>
    if Nat.eqb (pool_size par (List.length ids)) 1 then outcome_eqb (seq_run tol (std_f raising) ids) o
    else match tr with
         | Some (recd, wit) => replay_ok (mk ids raising par m tol) recd wit o
         | None => true
         end
  end.
Definition holds (c : {TY}) : bool :=
  match c with (ids, raising, par, m, tol, _, o) => P_C12 (ids, tol, std_f raising) o end.
"""


def case_term(case: dict, out: dict, tr) -> str:
    ids = clist(str(i) for i in case["ids"])
    rs = clist(str(i) for i in case["raising"])
    if tr is None:
        trs = "None"
    else:
        trs = f"Some ({clist(clabel(l) for l in tr[0])}, {clist(clabel(l) for l in tr[1])})"
    return (f"({ids}, {rs}, {cnat(case['parallel'])}, {cnat(case['max_tasks'])}, {cbool(case['tolerate'])}, "
            f"{trs}, {coutcome(out)})")


# ---- extended runs

IMPORTS_X = "From Annet Require Import Model.Pool Spec.P_C12 Model.PoolSession Spec.P_C12x."
TY_X = ("list nat * bool * list nat * list (nat * nat) * (nat * nat * bool * option nat) * "
        "(list (list nat) * list (list nat)) * option (list label * list label) * xoutcome")


def extra_defs_x(brk: str) -> str:
    return f"""
Definition xrun := ({TY_X})%type.
Definition xobj (tcb cb : list (list nat)) (nr : option nat) : pobj :=
  PObj (map CbTable tcb) (map CbTable cb) (match nr with Some n => n | None => o_retry new_obj end).
Definition agreex (c : xrun) : bool :=
  match c with (ids, gen, raising, flaky, (par, m, tol, nr), (tcb, cb), tr, o) =>
    let ob := xobj tcb cb nr in
    let tk := std_task gen raising flaky in
    if Nat.eqb (pool_size par (List.length ids)) 1 then xoutcome_eqb (run_obj ob ids tol tk) o
    else match tr with
         | Some (recd, wit) =>
           replay_ok (Cfg ids (pool_size par (List.length ids)) m tol (fun i => shadow (eff_f (o_retry ob) tk i))
                          ({brk}) lawful_exit) recd wit (shadow_outcome o)
         | None => true
         end
  end.
(* what was submitted to the pool of this run - and only that - with what its caller received *)
Definition judged (c : xrun) : xinput * xoutcome :=
  match c with (ids, gen, raising, flaky, (par, m, tol, nr), (tcb, cb), tr, o) =>
    ((ids, tol, eff_f (o_retry (xobj tcb cb nr)) (std_task gen raising flaky)), o)
  end.
Definition agree_session (s : list xrun) : bool := forallb agreex s.
Definition holds_session (s : list xrun) : bool := P_C12_session (map judged s).
Definition holds_run (c : xrun) : bool := P_C12x (fst (judged c)) (snd (judged c)).
"""


def cxval(r: list) -> str:
    i, kind, v = r
    if not (isinstance(i, int) and 0 <= i < 5000):
        raise core.CheckFailure(f"result outside the printable domain: {r}")
    if kind == "fail":
        if not (isinstance(v, int) and 0 <= v < 50000):
            raise core.CheckFailure(f"result outside the printable domain: {r}")
        return f"({i}, XFail {v})"
    if kind == "failother":
        return f"({i}, XFailOther)"
    if v[0] == "int" and 0 <= v[1] < 50000:
        return f"({i}, XOk (PInt {v[1]}))"
    if v[0] == "list" and all(0 <= x < 50000 for x in v[1]):
        return f"({i}, XOk (PList {clist(str(x) for x in v[1])}))"
    if v[0] == "lazy":
        return f"({i}, XOk PLazy)"
    return f"({i}, XOk POther)"


def cxoutcome(o: dict) -> str:
    d = clist(cxval(r) for r in o["delivered"])
    if o["outcome"] == "done":
        return f"XCompleted {d}"
    if o["outcome"] == "raised" and isinstance(o["raised_id"], int):
        return f"XRaised {o['raised_id']} {d}"
    return f"XOther {d}"


def xcase_term(run: dict, out: dict, tr) -> str:
    ids = clist(str(i) for i in run["ids"])
    rs = clist(str(i) for i in run["raising"])
    fl = clist(f"({k}, {v})" for k, v in run["flaky"].items())
    nr = "None" if run["net_retry"] is None else f"Some {run['net_retry']}"
    cb = run["callback"]
    tbl = clist(str(i) for i in cb["table"]) if cb else ""
    tcb = clist([tbl] if cb and cb["in_thread"] else [])
    pcb = clist([tbl] if cb and not cb["in_thread"] else [])
    if tr is None:
        trs = "None"
    else:
        trs = f"Some ({clist(clabel(l) for l in tr[0])}, {clist(clabel(l) for l in tr[1])})"
    return (f"({ids}, {cbool(run['gen'])}, {rs}, {fl}, ({cnat(run['parallel'])}, {cnat(run['max_tasks'])}, "
            f"{cbool(run['tolerate'])}, {nr}), ({tcb}, {pcb}), {trs}, {cxoutcome(out)})")


def classify_x(run: dict, out: dict, k: int) -> str:
    ids = sorted(run["ids"])
    got = sorted(r[0] for r in out["delivered"])
    path = "sequential" if min(run["parallel"], len(ids)) == 1 else "pool"
    later = "/pool-run-after-other-pools" if k > 0 else ""
    if out["outcome"] == "timeout":
        kind = "no-termination"
    elif out["outcome"] in ("error", "skipped"):
        kind = "unexpected-exception"
    elif out["outcome"] == "done" and len(got) < len(ids):
        kind = "results-lost"
    elif len(got) > len(ids):
        kind = "result-delivered-twice"
    elif out["outcome"] == "done" and got != ids:
        kind = "wrong-ids"
    elif any(r[1] == "ok" and r[2][0] == "lazy" for r in out["delivered"]):
        kind = "generator-result-not-consumed"
    elif any(r[1] == "failother" for r in out["delivered"]):
        kind = "failure-the-task-did-not-raise"
    elif out["outcome"] == "raised":
        kind = "unexpected-raise"
    else:
        kind = "wrong-payload"
    return f"C12/{path}/{kind}{later}"


def session_terms(sessions: list[dict], souts: list[dict], stats: dict) -> list[list[str]]:
    """per session the Coq terms of its runs (with the witness of each recorded pool trace)"""
    out = []
    for s, so in zip(sessions, souts):
        terms = []
        for run, o in zip(s["session"], so["session"]):
            pool = min(run["parallel"], len(run["ids"]))
            tr = None
            if pool != 1 and o.get("hook") and o["outcome"] in ("done", "raised") and \
                    len(set(run["ids"])) == len(run["ids"]):
                try:
                    rec = recorded_labels(o["trace"])
                    wit, inv, complete = build_witness(run, pool, rec)
                    tr = ([lab for _, _, lab in rec], wit)
                    stats["traced"] += 1
                    stats["witness_incomplete"] += not complete
                    stats["max_inversion_us"] = max(stats["max_inversion_us"], inv)
                except Anomaly as e:
                    stats["anomalies"].append(str(e))
                    tr = ([("LBreak",)], [])
            terms.append(xcase_term(run, o, tr))
        out.append(terms)
    return out


def evaluate_x(ctx, sessions: list[dict], souts: list[dict], brk: str, tag: str):
    """one Coq term per session (the list of its runs): holds = P_C12_session, agree = every run is a run of
    the model.  Returns (res, stats, terms)."""
    stats = {"traced": 0, "witness_incomplete": 0, "max_inversion_us": 0, "anomalies": []}
    terms = session_terms(sessions, souts, stats)
    res = core.run_case_files(ID, f"list ({TY_X})", IMPORTS_X, {"agree": "agree_session", "holds": "holds_session"},
                              [clist(t) for t in terms], per_file=25, tag=tag, extra_defs=extra_defs_x(brk))
    return res, stats, terms


def locate_x(run_terms: list[str], brk: str, tag: str) -> dict:
    """which runs of ONE session fail: the conjuncts of the session predicates, evaluated by Coq one by one"""
    return core.run_case_files(ID, TY_X, IMPORTS_X, {"agree": "agreex", "holds": "holds_run"}, run_terms,
                               per_file=40, tag=tag, extra_defs=extra_defs_x(brk))


def order_run_mode(run: dict, o: dict) -> None:
    """Parallel.run returns dicts: restore the order of delivery for the comparison with the model"""
    if run.get("mode") == "run":
        order = [r[3] for r in o.get("trace", []) if r[2] == "deliver"] or list(run["ids"])
        o["delivered"].sort(key=lambda r: order.index(r[0]) if r[0] in order else len(order))


def slim_session(s: dict) -> dict:
    return {"session": [{k: v for k, v in r.items() if v not in ({}, [], None)} for r in s["session"]],
            "src": s.get("src"), "timeout": s.get("timeout")}


def _came_back(o: dict) -> bool:
    return o.get("outcome") != "skipped" and "session" in o


def run_sessions(ctx, sessions: list[dict], brk: str, tag: str = "xcases"):
    """-> (sessions kept, outputs, res, stats, terms, skipped)"""
    souts = core.run_impl_sharded("c12_runner.py", sessions, shards=min(core.NPROC, max(1, len(sessions) // 3)),
                                  timeout=1500)
    live = [(s, o) for s, o in zip(sessions, souts) if _came_back(o)]
    skipped = len(sessions) - len(live)
    sessions = [s for s, _ in live]
    souts = [o for _, o in live]
    for s, so in zip(sessions, souts):
        for run, o in zip(s["session"], so["session"]):
            order_run_mode(run, o)
    res, stats, terms = evaluate_x(ctx, sessions, souts, brk, tag)
    # an aborted run can carry a truncated worker account (see run()): such a session is repeated, the
    # disagreement is reported only if the same session disagrees every time
    stats["aborted_runs_repeated"] = 0
    for attempt in range(2):
        again = [i for i in res["agree"] if i not in res["holds"]
                 and any(o["outcome"] == "raised" for o in souts[i]["session"])]
        if not again:
            break
        stats["aborted_runs_repeated"] += len(again)
        outs2 = core.run_impl("c12_runner.py", [sessions[i] for i in again], timeout=600)
        keep = [j for j, o in enumerate(outs2) if _came_back(o)]
        for j in keep:
            for run, o in zip(sessions[again[j]]["session"], outs2[j]["session"]):
                order_run_mode(run, o)
        res2, _, terms2 = evaluate_x(ctx, [sessions[again[j]] for j in keep], [outs2[j] for j in keep], brk,
                                     f"{tag}_again{attempt}")
        for jj, j in enumerate(keep):
            i = again[j]
            souts[i], terms[i] = outs2[j], terms2[jj]
            if jj not in res2["agree"]:
                res["agree"].remove(i)
            if jj in res2["holds"]:
                res["holds"].append(i)
    return sessions, souts, res, stats, terms, skipped


def classify(case: dict, out: dict) -> str:
    ids = sorted(case["ids"])
    got = sorted(r[0] for r in out["delivered"])
    path = "sequential" if min(case["parallel"], len(ids)) == 1 else "pool"
    if out["outcome"] == "timeout":
        return f"C12/{path}/no-termination"
    if out["outcome"] == "error":
        return f"C12/{path}/unexpected-exception"
    if out["outcome"] == "raised" and (case["tolerate"] or out["raised_id"] not in case["raising"]):
        return f"C12/{path}/unexpected-raise"
    if out["outcome"] == "done" and len(got) < len(ids):
        return f"C12/{path}/results-lost"
    if len(got) > len(set(got)) and len(set(ids)) == len(ids) or len(got) > len(ids):
        return f"C12/{path}/result-delivered-twice"
    if out["outcome"] == "done" and got != ids:
        return f"C12/{path}/wrong-ids"
    return f"C12/{path}/wrong-payload"


# ------------------------------------------------------------------------------------------------------


def evaluate(ctx, cases: list[dict], outs: list[dict], brk: str, tag: str):
    terms, stats = [], {"traced": 0, "witness_incomplete": 0, "max_inversion_us": 0, "anomalies": []}
    for c, o in zip(cases, outs):
        pool = min(c["parallel"], len(c["ids"]))
        tr = None
        if pool != 1 and o["hook"] and o["outcome"] in ("done", "raised") and len(set(c["ids"])) == len(c["ids"]):
            try:
                rec = recorded_labels(o["trace"])
                wit, inv, complete = build_witness(c, pool, rec)
                tr = ([lab for _, _, lab in rec], wit)
                stats["traced"] += 1
                stats["witness_incomplete"] += not complete
                stats["max_inversion_us"] = max(stats["max_inversion_us"], inv)
            except Anomaly as e:
                stats["anomalies"].append(str(e))
                tr = ([("LBreak",)], [])          # cannot be a run: agree = false
        terms.append(case_term(c, o, tr))
    res = core.run_case_files(ID, TY, IMPORTS, {"agree": "agree", "holds": "holds"}, terms, per_file=40,
                              tag=tag, extra_defs=extra_defs(brk))
    return res, stats


def slim(c: dict) -> dict:
    return {k: v for k, v in c.items() if v not in ({}, [], None)}


def run(ctx):
    rep = core.proof_stage(ctx, THEOREM_FILE)
    gen = ctx.coverage["gen_tables"].get("Src_parallel.v", {})
    for _ in range(3):   # other checks running concurrently may have regenerated Gen/ from another tree
        if rep.compiled:
            break
        from ..translators import tr_parallel
        want = tr_parallel.translate(core.REPO)[0][1]
        have = (core.COQ / "Gen" / "Src_parallel.v").read_text() if (core.COQ / "Gen" / "Src_parallel.v").exists() else ""
        if want == have and "Src_parallel" not in rep.log and "C12" in rep.log:
            break
        ctx.violations[:] = [v for v in ctx.violations if not v.signature.endswith("theorem-does-not-check")]
        rep = core.proof_stage(ctx, THEOREM_FILE)
        gen = ctx.coverage["gen_tables"].get("Src_parallel.v", {})
    brk = gen.get("break", "BTrue")

    probe = core.run_impl("c12_runner.py", [_mk(range(2), 2, 25, timeout=20)], timeout=120)[0]
    hook = bool(probe["hook"])
    if hook:
        cases = adversarial(True) + exhaustive_small() + random_grid(ctx, 2500 if ctx.thorough else 330)
    else:
        cases = adversarial(False)
    outs = core.run_impl_sharded("c12_runner.py", cases, shards=min(core.NPROC, max(1, len(cases) // 4)),
                                 timeout=1500)
    live = [(c, o) for c, o in zip(cases, outs) if o["outcome"] != "skipped"]
    skipped = len(cases) - len(live)
    cases = [c for c, _ in live]
    outs = [o for _, o in live]
    for c, o in zip(cases, outs):      # Parallel.run returns dicts: restore the order of delivery for comparison
        if c["mode"] == "run":
            order = [r[3] for r in o["trace"] if r[2] == "deliver"] or list(c["ids"])
            o["delivered"].sort(key=lambda r: order.index(r[0]) if r[0] in order else len(order))
    res, stats = evaluate(ctx, cases, outs, brk, "cases")
    # A run that ended in an abort can still carry a truncated worker account (a worker killed between its
    # queue get and its trace write *before* another worker's later, recorded take).  Such a run is repeated:
    # the disagreement is reported only if the same schedule disagrees every time.
    stats["aborted_runs_repeated"] = 0
    for attempt in range(2):
        again = [i for i in res["agree"] if i not in res["holds"] and outs[i]["outcome"] == "raised"]
        if not again:
            break
        stats["aborted_runs_repeated"] += len(again)
        outs2 = core.run_impl("c12_runner.py", [cases[i] for i in again], timeout=600)
        res2, _ = evaluate(ctx, [cases[i] for i in again], outs2, brk, f"again{attempt}")
        for k, i in enumerate(again):
            if outs2[k]["outcome"] == "skipped":
                continue
            outs[i] = outs2[k]
            if k not in res2["agree"]:
                res["agree"].remove(i)
            if k in res2["holds"]:
                res["holds"].append(i)
    (core.BUILD / "c12_last.json").write_text(json.dumps({"cases": cases, "outs": outs, "res": res}))

    bad_holds = sorted(res["holds"], key=lambda i: (cases[i]["src"] != "F1-slow-consumer", len(cases[i]["ids"]),
                                                    cases[i]["parallel"], i))
    seen_sig = set()
    for i in bad_holds:
        sig = classify(cases[i], outs[i])
        if sig in seen_sig:
            continue
        seen_sig.add(sig)
        o = outs[i]
        ctx.add_violation(core.Violation(
            signature=sig,
            what=f"schedule {cases[i]['src']}: submitted {len(cases[i]['ids'])} ids, pool {cases[i]['parallel']}, "
                 f"max_tasks {cases[i]['max_tasks']}: outcome {o['outcome']}, {len(o['delivered'])} results delivered",
            replay={"case": slim(cases[i]), "impl": {"outcome": o["outcome"], "raised_id": o["raised_id"],
                                                     "delivered": o["delivered"]},
                    "loop_shape_in_source": gen,
                    "failing_schedules_in_this_run": len(res["holds"])}))
    # ---- extended runs and sessions (generator tasks, retries, callbacks, several pools per process)
    if hook:
        xs = retry_family() + session_family() + random_sessions(ctx, 600 if ctx.thorough else 70)
    else:       # 1 s polls: the single-process sessions and a few real pools
        fixed = retry_family() + session_family()
        seq_only = [x for x in fixed if all(min(r["parallel"], len(r["ids"])) <= 1 for r in x["session"])]
        xs = seq_only + [x for x in fixed if x not in seq_only][:6]
        for x in xs:
            x["timeout"] = 60
            for r in x["session"]:
                r["sched"] = {}
    xs, xouts, xres, xstats, xterms, xskipped = run_sessions(ctx, xs, brk)
    (core.BUILD / "c12_last_sessions.json").write_text(json.dumps({"sessions": xs, "outs": xouts, "res": xres}))
    xbad = sorted(xres["holds"], key=lambda i: (len(xs[i]["session"]), sum(len(r["ids"]) for r in xs[i]["session"]), i))
    xbad_shown = xbad[:12]
    flat = [(i, k) for i in xbad_shown for k in range(len(xterms[i]))]
    loc = locate_x([xterms[i][k] for i, k in flat], brk, "xlocate") if flat else {"holds": []}
    for i in xbad_shown:
        ks = [flat[t][1] for t in loc["holds"] if flat[t][0] == i] or [0]
        k = ks[0]
        run_k, out_k = xs[i]["session"][k], xouts[i]["session"][k]
        sig = classify_x(run_k, out_k, k)
        if sig in seen_sig:
            continue
        seen_sig.add(sig)
        ctx.add_violation(core.Violation(
            signature=sig,
            what=f"session {xs[i]['src']} ({len(xs[i]['session'])} pools run one after another by one process), pool "
                 f"number {k}: submitted {len(run_k['ids'])} ids, parallel {run_k['parallel']}, "
                 f"{'generator' if run_k['gen'] else 'plain'} task, net_retry {run_k['net_retry']}, network errors "
                 f"before success per id {run_k['flaky']}, callback {run_k['callback']}: outcome {out_k['outcome']}, "
                 f"delivered {out_k['delivered'][:8]}",
            replay={"session": slim_session(xs[i]), "failing_pool": k, "failing_pools": ks,
                    "impl": [{"outcome": o["outcome"], "raised_id": o["raised_id"], "delivered": o["delivered"]}
                             for o in xouts[i]["session"]],
                    "loop_shape_in_source": gen, "failing_sessions_in_this_run": len(xres["holds"])}))
    any_bad = bool(bad_holds) or bool(xbad)
    if not any_bad:
        for i in xres["agree"][:1]:
            ctx.add_violation(core.Violation(
                signature="C12/model-impl-disagree/session", no_input=True,
                what="a run of a session is not a run of the model (Model/PoolSession.v's run_obj on the single-process "
                     "path, a trace of Model/Pool.v on the pool path); P_C12x holds on all implementation outputs",
                replay={"correspondence": "Model.PoolSession.run_obj / Model.Pool.exec vs annet.parallel",
                        "session": slim_session(xs[i]),
                        "impl": [{k: o.get(k) for k in ("outcome", "raised_id", "delivered", "trace")}
                                 for o in xouts[i]["session"]]}))
        if xskipped:
            ctx.add_violation(core.Violation(signature="C12/sessions-skipped", no_input=True,
                                             what=f"{xskipped} sessions skipped after repeated timeouts",
                                             replay={"skipped": xskipped}))
    if not any_bad:
        if not hook:
            ctx.add_violation(core.Violation(
                signature="C12/hook-absent", no_input=True,
                what="annet/parallel.py carries no ANNET_VERIF hook: traces cannot be recorded, the tie between "
                     "Model/Pool.v and the real pool is not checked",
                replay={"correspondence": "Model.Pool.exec vs annet.parallel trace", "hook": False}))
        for i in res["agree"][:1]:
            ctx.add_violation(core.Violation(
                signature="C12/model-impl-disagree", no_input=True,
                what="a recorded run of the real pool is not a run of Model/Pool.v (or the sequential path differs "
                     "from seq_run); P_C12 holds on all implementation outputs explored",
                replay={"correspondence": "Model.Pool.exec vs annet.parallel trace", "case": slim(cases[i]),
                        "impl": {k: outs[i][k] for k in ("outcome", "raised_id", "delivered", "trace")}}))
    if skipped and not any_bad:
        ctx.add_violation(core.Violation(signature="C12/cases-skipped", no_input=True,
                                         what=f"{skipped} schedules skipped after repeated timeouts",
                                         replay={"skipped": skipped}))

    def key(c):
        return core.canon_hash({k: c.get(k) for k in ("ids", "parallel", "max_tasks", "raising", "unpicklable", "tolerate", "mode",
                                                  "dur", "consumer", "sched")})

    seen, nontrivial = set(), 0
    hist: dict = {}
    for c, o in zip(cases, outs):
        hist[c["src"]] = hist.get(c["src"], 0) + 1
        k = key(c)
        if k in seen:
            continue
        seen.add(k)
        evs = {r[2] for r in o["trace"]}
        pool = min(c["parallel"], len(c["ids"]))
        if pool >= 2 and len(c["ids"]) >= 3 and ("retire" in evs or "empty" in evs or c["consumer"] or c["raising"]):
            nontrivial += 1
    sample_i = [i for i, c in enumerate(cases) if c["src"] in ("F1-slow-consumer", "slow-before-reap", "grid")][:3]
    xruns = [(x, k, r, o) for x, xo in zip(xs, xouts) for k, (r, o) in enumerate(zip(x["session"], xo["session"]))]
    xseen, xnontrivial = set(), 0
    xhist = {"sessions": len(xs), "pools": len(xruns), "by_source": {}, "pools_per_session": {},
             "generator_task": 0, "plain_task": 0, "single_process_path": 0, "pool_path": 0,
             "net_retry": {}, "ids_by_leading_network_errors_minus_net_retry": {}, "with_callback": 0,
             "with_in_thread_callback": 0, "no_callback_after_a_pool_with_callback": 0,
             "untuned_after_a_tuned_pool": 0, "delivered_after_last_permitted_attempt": 0,
             "delivered_failure_of_exhausted_retry": 0}
    for x in xs:
        xhist["by_source"][x["src"]] = xhist["by_source"].get(x["src"], 0) + 1
        n = str(len(x["session"]))
        xhist["pools_per_session"][n] = xhist["pools_per_session"].get(n, 0) + 1
    for x, k, r, o in xruns:
        eff = DEFAULT_NET_RETRY if r["net_retry"] is None else r["net_retry"]
        xhist["generator_task" if r["gen"] else "plain_task"] += 1
        xhist["single_process_path" if min(r["parallel"], len(r["ids"])) == 1 else "pool_path"] += 1
        xhist["net_retry"][str(r["net_retry"])] = xhist["net_retry"].get(str(r["net_retry"]), 0) + 1
        for v in r["flaky"].values():
            d = str(v - eff)
            xhist["ids_by_leading_network_errors_minus_net_retry"][d] = \
                xhist["ids_by_leading_network_errors_minus_net_retry"].get(d, 0) + 1
        last = [int(i) for i, v in r["flaky"].items() if v == eff and int(i) not in r["raising"]]
        xhist["delivered_after_last_permitted_attempt"] += sum(1 for d in o["delivered"] if d[0] in last)
        gone = [int(i) for i, v in r["flaky"].items() if v > eff]
        xhist["delivered_failure_of_exhausted_retry"] += sum(1 for d in o["delivered"] if d[0] in gone)
        if r["callback"]:
            xhist["with_callback"] += 1
            xhist["with_in_thread_callback"] += bool(r["callback"]["in_thread"])
        earlier = x["session"][:k]
        if not r["callback"] and r["ids"] and any(e["callback"] for e in earlier):
            xhist["no_callback_after_a_pool_with_callback"] += 1
        if r["net_retry"] is None and any(e["net_retry"] is not None for e in earlier):
            xhist["untuned_after_a_tuned_pool"] += 1
        kx = core.canon_hash({kk: r.get(kk) for kk in r if kk != "x"})
        if kx not in xseen:
            xseen.add(kx)
            if r["ids"] and (r["flaky"] or r["callback"] or k > 0):
                xnontrivial += 1
    ctx.coverage.update({
        "evaluations": len(cases) + len(xruns),
        "distinct_nontrivial": nontrivial + xnontrivial,
        "extended_runs": xhist,
        "extended_traces_recorded": xstats["traced"],
        "extended_witness_search_incomplete": xstats["witness_incomplete"],
        "extended_aborted_sessions_repeated": xstats["aborted_runs_repeated"],
        "extended_disagreements_checked": len(xres["agree"]),
        "extended_holds_false": len(xres["holds"]),
        "extended_skipped_after_timeouts": xskipped,
        "rule": "schedules = adversarial list (slow consumer, slow parent between get and reaping, lingering exits, "
                "retirement at the end, failures, duplicates) + small scope n<=4 x pool<=3 x max_tasks<=2 + seeded "
                "random grid n<=40, pool<=8, max_tasks<=25; distinct by the whole schedule; non-trivial = real pool "
                "(pool_size>=2) with >=3 ids and at least one of: a worker retired, a get timed out, a consumer "
                "delay, a failing task; + extended runs (retry family: k = 0..net_retry+1 leading network errors x "
                "net_retry untouched/0..3 x generator/plain task x both paths; sessions: a pool with a progress callback "
                "followed in the same process by pools without callbacks over other ids; seeded random sessions of 1..3 "
                "pools), a pool counted non-trivial if it has ids and a flaky id, a callback, or pools before it",
        "samples": [{"schedule": slim(cases[i]), "outcome": outs[i]["outcome"], "delivered": outs[i]["delivered"],
                     "trace_head": outs[i]["trace"][:12]} for i in sample_i],
        "traces_validated_against_impl": stats["traced"] - len([i for i in res["agree"]]),
        "traces_recorded": stats["traced"],
        "witness_search_incomplete": stats["witness_incomplete"],
        "max_time_inversion_us_in_witness": stats["max_inversion_us"],
        "trace_anomalies": stats["anomalies"][:5],
        "aborted_runs_repeated": stats["aborted_runs_repeated"],
        "disagreements_checked": len(res["agree"]),
        "holds_false": len(res["holds"]),
        "schedules_by_source": hist,
        "hook_present": hook,
        "skipped_after_timeouts": skipped,
        "events_replayed": sum(len(o["trace"]) for o in outs),
        "exhaustive": False,
    })
    ctx.assumptions += [
        "a worker's put on the done queue is visible to the parent before its exit code is "
        "(hypothesis put_before_exit of the theorems; mp.Queue joins its feeder thread at process exit)",
        "get(True, t) raises queue.Empty only if the queue is empty at that instant",
        "no worker is killed from outside, task_timeout (1800 s) does not expire, no in-thread callbacks",
        "trace inclusion is per actor (no global clock is trusted); the hook's get_timeout shortens the 1 s poll",
        "extended runs: callbacks are progress-logger-like (table lookup, result returned) with a table containing "
        "the ids of their own run; the retried errors are BrokenPipeError / ConnectionResetError (also as the "
        "context of another exception); the pools of a session are created and run one after another, never "
        "concurrently",
    ]
    ctx.notes.append(META["note"])


def replay(ctx, doc):
    from ..translators import tr_parallel
    if "session" in doc["replay"]:
        x = doc["replay"]["session"]
        sess = _session([_mkx(r["ids"], r["parallel"], r["max_tasks"], gen=r.get("gen", False), flaky=r.get("flaky"),
                              net_retry=r.get("net_retry"), net_kind=r.get("net_kind", "reset"),
                              callback=r.get("callback"), raising=r.get("raising", ()), tolerate=r.get("tolerate", True),
                              mode=r.get("mode", "irun"), dur=r.get("dur"), consumer=r.get("consumer"))
                         for r in x["session"]], x.get("src", "replay"), timeout=max(40, x.get("timeout") or 0))
        for r, r0 in zip(sess["session"], x["session"]):
            r["sched"] = r0.get("sched", {})
        brk = tr_parallel.translate(core.REPO)[0][2]["break"]
        xs, xouts, xres, _, _, _ = run_sessions(ctx, [sess], brk, tag="xreplay")
        if not xs:
            print("impl: the session did not come back")
            return 1
        print("impl:", json.dumps([{k: o[k] for k in ("outcome", "raised_id", "delivered")} for o in xouts[0]["session"]]),
              "holds:", not xres["holds"])
        return 1 if xres["holds"] else 0
    c = doc["replay"]["case"]
    case = _mk(c["ids"], c["parallel"], c["max_tasks"], raising=c.get("raising", ()), tolerate=c.get("tolerate", True),
               mode=c.get("mode", "irun"), dur=c.get("dur"), consumer=c.get("consumer"), src=c.get("src", "replay"),
               timeout=c.get("timeout", 40), unpicklable=c.get("unpicklable", ()))
    case["sched"] = c.get("sched", {})
    out = core.run_impl("c12_runner.py", [case], timeout=300)[0]
    brk = tr_parallel.translate(core.REPO)[0][2]["break"]
    res, _ = evaluate(ctx, [case], [out], brk, "replay")
    print("impl:", json.dumps({k: out[k] for k in ("outcome", "raised_id", "delivered")}), "holds:", not res["holds"])
    return 1 if res["holds"] else 0
