"""C17 — implicit defaults never override explicit config and never cause commands alone (DESIGN §3.C17)."""
from __future__ import annotations

import json
import random
import re

from .. import core, pipeline as P
from ..core import cstr, clist, cforest, copt

ID = "C17"
THEOREM_FILE = "Properties/C17.v"
IMPORTS = ("From Annet Require Import Base.Str Base.Tree Model.Pattern Model.Rulebook Model.Diff Model.Order Model.Patch "
           "Model.Blocks Model.Pipeline Spec.PipelineCase Model.Implicit Spec.P_C17 Gen.Src_implicit.")
META = {
    "text": "Proof (Coq, unbounded: any matcher, any implicit rule tree with distinct non-empty rows per level, config trees of "
            "any depth): the model of implicit.config followed by merge_dicts equals a short declarative completion "
            "(C17_model_is_completion); t is an order-preserving subtree of m (C17_explicit_kept); at every parent the rules "
            "reach, a non-`!` rule's default row is in m iff t has no row there matching the rule's pattern or has the row itself, "
            "and nothing but such childless default rows is added (C17_default_iff, C17_only_defaults_added); completing twice = "
            "once under a computable guard on the rule tree (C17_idem) and NOT in general (C17_idem_refuted: shipped Huawei NE "
            "rules, empty config - confirmed on the real code, known finding); a default absent from both sides and matched by no "
            "row of either side is childless in both completions, UNCHANGED in make_diff and absent from the stripped diff when the "
            "rows of its path use the default diff logic (C17_no_spurious_partial, on the C03 lemma libraries) and is MOVED inside a "
            "%rewrite block (C17_no_spurious_rewrite_refuted). All of it instantiated by computation to the rule tree of every "
            "canonical device of Gen/Src_implicit.v (18 devices = every hardware attribute and tag _implicit_tree consults; texts "
            "and parsed trees re-read by calling the real function on every run, C17_src_*; the gen.py completion statements re-read "
            "by ast). Patch half of the no-spurious clause, proved for all inputs: for any diff, any patch logic (default, undo_redo, "
            "ordered, rewrite, permanent, ignore_changes), any ordering and every formatter family whose command paths are the path "
            "stack of the block stream (all but the Juniper/Nokia flattening), the last element of a command path of make_patch is "
            "an exit word, the row of a non-UNCHANGED diff entry below the parent, the removal command of a REMOVED (or "
            "%ordered-MOVED) entry there, or `commit` of a %force_commit rule (C17_patch_cmds_explained, on the C02 lemma "
            "make_patch_rel); under the hypotheses of the diff half every command below the parent is explained by an entry whose "
            "row is NOT the default (C17_no_spurious_patch, C17_no_spurious_patch_row; C17_pipeline_no_spurious_patch for "
            "Model/Pipeline.v diff_and_patch -> cmd_paths in terms of the shown diff); instantiated to the 18 hardware branches and "
            "every shipped block family, the side condition 'no shipped default row or its reverse form is an exit word or commit' "
            "discharged by computation on the regenerated tables (C17_hw_no_spurious_patch, C17_src_defaults_clean). The sentence 'no "
            "command has the default as last element' is FALSE as it stands: the default can be the removal command of another "
            "removed line (C17_no_spurious_patch_unconditional_refuted: Huawei CE, `ntp server disable` removed -> `undo ntp server "
            "disable`), and the earlier formalisation P_nospur/C17_no_spurious_patch_statement is false as well because a removal "
            "command is formed from the rule's pattern and key, not from the whole line (C17_no_spurious_patch_statement_refuted); "
            "a block ADDED as a whole carries the defaults of its completion as commands (C17_no_spurious_added_parent_refuted, "
            "C17_nospur_added_refuted), whereas below a block that only the device side has there is NO command at all unless its "
            "rule is %permanent: a row of old that new has not is REMOVED and a REMOVED entry heads a block of the patch only under "
            "%permanent (C17_removed_parent_no_commands, C17_patch_block_headers, C17_hw_removed_parent; guard needed: "
            "C17_removed_parent_permanent_refuted). All witnesses are replayed on the real _diff_and_patch on every run. Correspondence (Coq evaluates model==implementation and "
            "P_C17 on real outputs): implicit.config, merge_dicts and a second completion for every device and for random implicit "
            "rule texts with near-miss rows; the real annet.gen._old_new_per_device with add_implicit off/on; real _diff_and_patch "
            "on completed trees with the shipped rulebook of each device and with synthetic rulebooks (also compared with the Coq "
            "pipeline model). Findings on the unchanged tree (known/C17.json): non-idempotence for a non-`!` rule with children; a "
            "default row absent from both sides gets ADDED/REMOVED and a command when one side has another row matching its pattern; "
            "a block present on the generator side only is sent with the default rows of its completion (P_nospur_added evaluated by "
            "Coq on the real outputs).",
    "technique": "Coq induction over rule trees and config trees; regenerated implicit-rule table; vm_compute "
                 "differential check of implicit.config / merge_dicts / _diff_and_patch",
    "note": "clause 4 (diff and patch half) is proved for parents present on both sides and rows under the default diff logic, "
            "for parents only the device side has (no command below a block removed as a whole, rule not %permanent), and refuted for "
            "parents the generator adds as a whole (open finding); the Juniper/Nokia command flattening is outside the "
            "patch-half theorem; P_nospur (the predicate of the correspondence) approximates a removal command by reverse_row of the "
            "line and is therefore not the proved statement; the row matcher for one-word regexes without "
            "the */re/ marker is correspondence-tested, not proved equal to CPython re",
}

KNOWN_IDEM = "C17/idem/default-row-of-rule-with-children"
KNOWN_EXT = "C17/no-spurious/row-matching-the-default-pattern-on-one-side"
KNOWN_ADDED = "C17/no-spurious/default-below-a-block-added-as-a-whole"

# ------------------------------------------------------------------ instantiating rule rows

TOKENS = ["GigabitEthernet0/1", "XGigabitEthernet0/0/1", "GigabitEthernet", "XGigabitEthernett", "Ethernet1", "Ethernet11",
          "Ethernet1/1", "Ethernet1/2.5", "Ethernet1/1/1", "Ethernet2/1", "FastEthernet0", "Loopback0", "Loopback1.5",
          "Loopback", "port-channel10", "port-channel1.2", "Vlan10", "Vla", "Vlan", "Vlannn", "mgmt0", "mgmt", "mgmt12",
          "0", "4", "10", "65000", "10.0.0.1", "unicast", "x", "abc", "a1"]
VALS = ["1", "2", "0 4", "x", "10.0.0.1", "65000", "abc"]
META_CH = set("\\^$.|?*+()[]{}")


def word_regex(w: str):
    """regex source a rule word stands for, or None for a literal word"""
    if w == "*":
        return r"\S+"
    if w.startswith("*/") and w.endswith("/") and len(w) > 3:
        return w[2:-1]
    if any(ch in META_CH for ch in w):
        return w
    return None


def inst_word(rng: random.Random, w: str) -> str:
    if w == "~":
        return " ".join(rng.sample(VALS, rng.randint(1, 2)))
    rx = word_regex(w)
    if rx is None:
        return w
    if rng.random() < 0.8:
        try:
            ok = [t for t in TOKENS if re.fullmatch(rx, t)]
        except re.error:
            ok = []
        if ok:
            return rng.choice(ok)
    return rng.choice(TOKENS)


def inst_row(rng: random.Random, pat: str) -> str:
    return " ".join(inst_word(rng, w) for w in pat.split())


def all_defaults(rules: list) -> list[str]:
    out = []
    for r in rules:
        if not r["ign"]:
            out.append(r["row"])
        out += all_defaults(r["kids"])
    return out


def gen_tree(rng: random.Random, rules: list, rev: str, others: list[str], depth: int = 0, hist=None) -> dict:
    """a config level over the words of the rules: instances of block rules, and for each default
    row one of: absent / explicit / extended / same first word / prefix / reverse form"""
    hist = hist if hist is not None else {}
    rows: list = []

    def note(k):
        hist[k] = hist.get(k, 0) + 1
    for r in rules:
        pat = r["row"]
        if r["ign"]:
            for _ in range(rng.choice([0, 1, 1, 2])):
                rows.append((inst_row(rng, pat), gen_tree(rng, r["kids"], rev, others, depth + 1, hist)))
                note("block_instance")
            if rng.random() < 0.15:
                ws = pat.split()
                rows.append((" ".join(ws[:1] + [rng.choice(TOKENS)]), gen_tree(rng, r["kids"], rev, others, depth + 1, hist)
                             if rng.random() < 0.5 else {}))
                note("block_near_miss")
            continue
        x = rng.random()
        d = inst_row(rng, pat) if rng.random() < 0.7 else pat
        ws = d.split()
        sub = gen_tree(rng, r["kids"], rev, others, depth + 1, hist) if r["kids"] and rng.random() < 0.6 else {}
        if x < 0.40:
            note("default_absent")
        elif x < 0.52:
            rows.append((pat, sub)); note("default_explicit")
        elif x < 0.66:
            rows.append((d + " " + rng.choice(VALS), sub)); note("default_extended")
        elif x < 0.76:
            rows.append((" ".join(ws[:1] + [rng.choice(VALS)]), {})); note("same_first_word")
        elif x < 0.84 and len(ws) > 1:
            rows.append((" ".join(ws[:-1]), {})); note("default_prefix")
        elif x < 0.94:
            rrow = d[len(rev) + 1:] if d.startswith(rev + " ") else rev + " " + d
            rows.append((rrow, {})); note("reverse_form")
        else:
            rows.append((pat, sub)); rows.append((d + " " + rng.choice(VALS), {})); note("explicit_and_extended")
    if others and rng.random() < 0.2:
        rows.append((rng.choice(others), {})); note("default_under_wrong_parent")
    if rng.random() < 0.25:
        rows.append((rng.choice(["description foo", "unknown 1", "undo", "x"]), {})); note("unrelated")
    if rng.random() < 0.5:
        rng.shuffle(rows)
    t: dict = {}
    for k, v in rows:
        if k not in t:
            t[k] = v
    return t


def steer_match(pat: str, row: str) -> bool:
    """generator-side approximation of the rule matcher (only steers which children rules a mutation uses)"""
    ps, ws = pat.split(), row.split()
    for i, p in enumerate(ps):
        if p == "~":
            return len(ws) > i
        if i >= len(ws):
            return False
        rx = word_regex(p)
        try:
            if (rx is None and p != ws[i]) or (rx is not None and not re.fullmatch(rx, ws[i])):
                return False
        except re.error:
            return False
    return True


def mutate_tree(rng: random.Random, t: dict, rules: list, rev: str, others: list[str]) -> dict:
    """the other side of a pipeline pair: mostly the same parents, different leaves"""
    fresh = gen_tree(rng, rules, rev, others)
    out: list = []
    for k, v in t.items():
        x = rng.random()
        if x < 0.2:
            continue
        if v and x < 0.8:
            sub_rules = []
            for r in rules:
                if steer_match(r["row"], k):
                    sub_rules = r["kids"]
            out.append((k, mutate_tree(rng, v, sub_rules, rev, others) if rng.random() < 0.7 else v))
        else:
            out.append((k, v))
    for k, v in fresh.items():
        if rng.random() < 0.4:
            out.append((k, v))
    if rng.random() < 0.3:
        rng.shuffle(out)
    res: dict = {}
    for k, v in out:
        if k not in res:
            res[k] = v
    return res


# ------------------------------------------------------------------ synthetic implicit rule texts

LIT = ["alpha", "beta", "mtu", "ip", "peer", "vlan", "port", "undo", "no", "stp"]
RXW = ["*/[a-z0-9]+/", "Eth[0-9]+", "Vlan*", "po?rt", r"*/Eth1\/[0-9.]*/", r"*/\S*net\S+/"]


def gen_irules(rng: random.Random, depth: int = 0) -> list[dict]:
    out = []
    used = set()
    for _ in range(rng.randint(1, 4)):
        n = rng.choice([1, 2, 2, 3])
        ws = [rng.choice(LIT)]
        for _ in range(n - 1):
            ws.append(rng.choice(LIT + ["*", "*"] + RXW[:2] * 1 + [rng.choice(RXW)]))
        if rng.random() < 0.1:
            ws.append("~")
        ign = rng.random() < 0.45
        if not ign and rng.random() < 0.8:
            ws = [w if word_regex(w) is None and w != "~" else rng.choice(VALS[:2] + ["x"]) for w in ws]
        row = " ".join(ws)
        kids = gen_irules(rng, depth + 1) if depth < 2 and rng.random() < (0.75 if ign else 0.04) else []
        out.append({"row": row, "ign": ign, "kids": kids})
        used.add(row)
    if out and rng.random() < 0.15:       # the same row once more (with the other type or other children)
        b = rng.choice(out)
        out.append({"row": b["row"], "ign": rng.random() < 0.5, "kids": gen_irules(rng, depth + 1) if depth < 2 and rng.random() < 0.5 else []})
    return out


def irules_text(rng: random.Random, rules: list[dict], ind: int = 0, bad: bool = False) -> str:
    lines = []
    step = rng.choice([1, 2, 4])
    for r in rules:
        if rng.random() < 0.08:
            lines.append(" " * ind + "# " + rng.choice(["comment", "SVI", "x y"]))
        if rng.random() < 0.05:
            lines.append("")
        row = r["row"].replace(" ", rng.choice([" ", " ", "  "])) if rng.random() < 0.2 else r["row"]
        lines.append(" " * ind + ("!" + rng.choice(["", "", " "]) if r["ign"] else "") + row + rng.choice(["", "", " "]))
        if r["kids"]:
            lines.append(irules_text(rng, r["kids"], ind + step, bad))
            if bad and rng.random() < 0.5:
                lines.append(" " * max(0, ind + step - 1 if step > 1 else ind + 3) + "stray line")
    if rng.random() < 0.04:
        lines.append(" " * ind + "!")
    return "\n".join(lines)


# ------------------------------------------------------------------ Coq printers

def coq_praw(n: dict) -> str:
    return f"(PRaw {cstr(n['raw'])} {cstr(n['row'])} {'true' if n['ign'] else 'false'} {clist(coq_praw(k) for k in n['kids'])})"


def coq_rules(rules: list) -> str:
    return clist(coq_praw(n) for n in rules)


TABLES = "(map (fun b => (ib_name b, table_of (compile_tree (ib_tree b)))) Src_branches)"


def shared_name(c: dict, o: dict, table: dict) -> str:
    """the device name when the implementation's rule tree is the one of the regenerated table
    (the Coq term then refers to the table instead of repeating the rules)"""
    return c["name"] if "name" in c and o.get("rules") == table[c["name"]]["tree"] else ""


def coq_case(c: dict, o: dict, table: dict) -> str:
    """(device name or "", C17Case ...)"""
    if o.get("err") == "ParserError":
        return f'("", C17Case {copt(cstr(c["rules_text"]))} None {cforest(c["tree"])} [] [] [])'
    name = shared_name(c, o, table)
    rules = f"(ib_tree br_{name})" if name else coq_rules(o["rules"])
    text = copt(cstr(c["rules_text"])) if "rules_text" in c else "None"
    m2 = "m" if o["m2"] == o["m"] else cforest(o["m2"])      # same data, printed once
    return (f"({cstr(name)}, let m := {cforest(o['m'])} in C17Case {text} (Some {rules}) {cforest(c['tree'])} "
            f"{cforest(o['imp'])} m {m2})")


TIMES: list[str] = []


def two_stage(tag: str, ty: str, terms: list[str], fast: str, slow: dict[str, str], per_file: int) -> dict[str, list[int]]:
    """evaluate the conjunction `fast` on every case and the single predicates `slow` only on the
    cases where it is false; returns label -> failing indices (plus "all")"""
    import time

    def case_files(preds, ts, pf, tg):
        # a coqc killed from outside (memory pressure of the shared machine) leaves an empty log: try once more
        try:
            return core.run_case_files(ID, ty, IMPORTS, preds, ts, per_file=pf, tag=tg)
        except core.CheckFailure as e:
            if str(e).rstrip().endswith("failed to compile:"):
                time.sleep(5)
                return core.run_case_files(ID, ty, IMPORTS, preds, ts, per_file=pf, tag=tg)
            raise
    t0 = time.time()
    r1 = case_files({"all": fast}, terms, per_file, tag)
    bad = r1["all"]
    TIMES.append(f"{tag}: {len(terms)} cases {time.time() - t0:.0f}s, {len(bad)} to detail")
    t0 = time.time()
    out = {k: [] for k in slow}
    out["all"] = bad
    if bad:
        r2 = case_files(slow, [terms[i] for i in bad], 20, tag + "_detail")
        for k, v in r2.items():
            out[k] = [bad[j] for j in v]
        TIMES.append(f"{tag}_detail: {time.time() - t0:.0f}s")
        if not any(r2.values()):
            raise core.CheckFailure(f"{tag}: the conjunction failed on {len(bad)} cases but no single predicate did")
    return out


def coq_pipe(c: dict, o: dict, table: dict) -> str:
    name = shared_name(c, o, table)
    rules = f"(compile_tree (ib_tree br_{name}))" if name else f"(compile_tree {coq_rules(o['rules'])})"
    t, u = o.get("t", c["old"]), o.get("u", c["new"])     # through gen.py: what it saw before completing
    return (f"(C17Pipe {cstr(o['reverse'])} {rules} {cforest(t)} {cforest(u)} {cforest(o['m_old'])} "
            f"{cforest(o['m_new'])} {P.coq_diff(o.get('diff', []))} {P.coq_paths(o.get('cmd_paths', []))})")


def depth(t: dict) -> int:
    return 0 if not t else 1 + max(depth(v) for v in t.values())


def size(t: dict) -> int:
    return sum(1 + size(v) for v in t.values())


# ------------------------------------------------------------------ case streams

def get_table() -> dict:
    from ..translators import tr_implicit
    devs = [[n, m, t, []] for (n, m, t, _) in tr_implicit.CANON]
    rows = core.run_impl("c17_runner.py", {"mode": "tables", "devices": devs})
    return {r["name"]: r for r in rows}


def completion_cases(ctx, table: dict, hist: dict) -> list[dict]:
    rng = ctx.rng("completion")
    cases: list[dict] = []
    per_dev = 300 if ctx.thorough else 30
    for name, r in table.items():
        rules, rev = r["tree"], r["reverse"] or "no"
        others = all_defaults(rules)
        base = {"kind": "hw", "name": name, "model": r["model"], "tags": r["tags"]}
        cases.append(dict(base, tree={}, src="hw/empty"))
        for d in others[:6]:      # the near misses, one at a time, at top level
            for row in (d, d + " x", d.split()[0] + " zz", rev + " " + d):
                cases.append(dict(base, tree={row: {}}, src="hw/single"))
        # devices that share the model string but not the table (the table may depend on more than the model,
        # e.g. on a tag): trees drawn from the sibling's table show a completion done with the wrong table
        sibs = [table[n2]["tree"] for n2 in table if n2 != name and table[n2]["model"] == r["model"] and table[n2]["tree"]]
        for k in range(per_dev if (rules or sibs) else 3):
            src_rules = rng.choice(sibs) if sibs and (not rules or k % 3 == 0) else rules
            cases.append(dict(base, tree=gen_tree(rng, src_rules, rev, all_defaults(src_rules), hist=hist),
                              src="hw/random" if src_rules is rules else "hw/random-sibling-table"))
    # the runner processes keep whatever the implementation caches: let devices alternate inside each process
    rng.shuffle(cases)
    n_text = 4000 if ctx.thorough else 350
    for i in range(n_text):
        rules = gen_irules(rng)
        bad = rng.random() < 0.04
        text = irules_text(rng, rules, ind=rng.choice([0, 0, 4, 8]), bad=bad)
        rev = rng.choice(["undo", "no"])
        for _ in range(2):
            cases.append({"kind": "text", "rules_text": text, "tree": gen_tree(rng, rules, rev, all_defaults(rules), hist=hist),
                          "src": "text/bad-indent" if bad else "text/random"})
    return cases


def run_completion(ctx, table: dict) -> dict:
    hist: dict = {}
    cases = completion_cases(ctx, table, hist)
    payload = [{k: c[k] for k in ("kind", "model", "tags", "rules_text", "tree") if k in c} for c in cases]
    outs = core.run_impl_sharded("c17_runner.py", payload)
    for i, o in enumerate(outs):
        if "fatal" in o or o.get("err") not in (None, "ParserError") or o.get("tree_after") is False:
            ctx.add_violation(core.Violation(
                signature="C17/implementation-raised" if o.get("tree_after") is not False else "C17/input-tree-modified",
                what="implicit.config / merge_dicts raised or modified its input: " + str(o.get("fatal") or o.get("err"))[:300],
                replay={"case": cases[i], "impl": o}))
            return {"cases": cases, "outs": outs, "res": {}}
    terms = [coq_case(c, o, table) for c, o in zip(cases, outs)]
    TM = "(tmatch (table_of (cc_compiled (snd x))))"
    slow = {
        "modelled": "fun x => cc_modelled (snd x)",
        "agree_parse": "fun x => agree_parse (snd x)", "agree_imp": f"fun x => agree_imp_m {TM} (snd x)",
        "agree_m": "fun x => agree_m (snd x)", "agree_m2": f"fun x => agree_m2_m {TM} (snd x)",
        "holds_spec": f"fun x => holds_spec_m {TM} (snd x)", "holds_kept": "fun x => holds_kept (snd x)",
        "holds_iff": f"fun x => holds_iff_m {TM} (snd x)", "holds_idem": "fun x => holds_idem (snd x)",
        "holds_idem_guarded": f"fun x => holds_idem_guarded_m {TM} (snd x)",
    }
    res = two_stage("completion", "string * c17case", terms, f"let tbls := {TABLES} in case_all_ok_n tbls", slow, 100)

    def rep(i):
        return {"case": cases[i], "impl": outs[i]}
    what = {
        "holds_kept": "an explicit row is lost or reordered by completing the tree with implicit defaults",
        "holds_iff": "a default row is present although a row of its kind is, or missing although none is, or something "
                     "other than a childless default row was added",
        "holds_spec": "t + implicit(t) differs from the declarative completion",
    }
    failed = False
    for k in ("holds_kept", "holds_iff"):
        for i in res[k][:2]:
            failed = True
            ctx.add_violation(core.Violation(signature=f"C17/{k[6:]}", what=what[k], replay=dict(rep(i), clause=k)))
    for i in res["holds_idem_guarded"][:2]:
        failed = True
        ctx.add_violation(core.Violation(
            signature="C17/idem", what="completing twice differs from completing once although no default row is "
                                       "governed by a rule that adds defaults below it", replay=dict(rep(i), clause="idem")))
    guarded = set(res["holds_idem_guarded"])
    for i in [j for j in res["holds_idem"] if j not in guarded][:1]:
        failed = True
        ctx.add_violation(core.Violation(
            signature=KNOWN_IDEM,
            what="implicit(m) adds rows to m = t + implicit(t): a default row whose rule has children is added "
                 "childless, the second completion fills it", replay=dict(rep(i), clause="idem")))
    unmodelled = set(res["modelled"])
    hw_unmodelled = [i for i in unmodelled if cases[i]["kind"] == "hw"]
    if hw_unmodelled:
        ctx.add_violation(core.Violation(
            signature="C17/unmodelled-shipped-rule", what="a shipped implicit rule row is outside the modelled pattern language",
            replay=rep(hw_unmodelled[0]), no_input=True))
    if not failed:
        # the clauses hold but the tree is not the reference one: only the position of added rows can differ
        for i in [j for j in res["holds_spec"] if j not in unmodelled][:1]:
            ctx.add_violation(core.Violation(
                signature="C17/model-impl-disagree/completion-order", what=what["holds_spec"] + " (clauses 1-3 hold on it)",
                replay=dict(rep(i), correspondence="holds_spec"), no_input=True))
        for a in ("agree_parse", "agree_imp", "agree_m", "agree_m2"):
            for i in [j for j in res[a] if j not in unmodelled][:1]:
                ctx.add_violation(core.Violation(
                    signature=f"C17/model-impl-disagree/{a[6:]}",
                    what=f"Coq model and implementation differ on '{a[6:]}' (correspondence broken); the property clauses "
                         f"hold on every implementation output explored",
                    replay=dict(rep(i), correspondence=a), no_input=True))
    return {"cases": cases, "outs": outs, "res": res, "hist": hist, "unmodelled": len(unmodelled)}


SHIPPED = ["huawei_ce", "huawei_ne", "huawei_other", "arista", "nexus_other", "nexus_n3432", "nexus_n9500_spine1",
           "nexus_n9316", "nexus_n9364", "nexus_n3x", "catalyst_c2900", "catalyst_c3500", "catalyst_c3600",
           "catalyst_other", "cisco_asr", "cisco_other"]


BLOCK_ROWS = {
    "nexus": (["vrf member A", "vrf member B"], ["ip address 10.0.0.1/24", "ip address 10.0.0.2/24", "description x",
                                                  "description y", "no ip redirects", "ipv6 address 2001:db8::1/64",
                                                  "channel-group 1 mode active", "lacp rate fast"]),
    "catalyst": (["vrf forwarding A", "vrf forwarding B"], ["ip address 10.0.0.1 255.255.255.0", "description x", "description y",
                                                             "channel-group 1 mode active"]),
    "cisco": (["vrf forwarding A", "vrf forwarding B"], ["ip address 10.0.0.1 255.255.255.0", "description x", "description y"]),
    "huawei": (["ip binding vpn-instance A", "ip binding vpn-instance B"], ["ip address 10.0.0.1 24", "description x", "description y"]),
    "arista": (["vrf A", "vrf B"], ["ip address 10.0.0.1/24", "description x", "description y"]),
}


def with_block_rows(rng, name: str, old: dict, new: dict) -> bool:
    fam = next((k for k in BLOCK_ROWS if name.startswith(k)), None)
    if fam is None:
        return False
    keyed, plain = BLOCK_ROWS[fam]
    done = False
    for row in list(old):
        if row.startswith("interface ") and row in new and isinstance(old[row], dict) and rng.random() < 0.7:
            o, n = dict(old[row]), dict(new[row])
            x = rng.random()
            if x < 0.45:                         # the keyed row changes its value
                o[keyed[0]] = {}
                n[keyed[1]] = {}
            elif x < 0.6:
                n[keyed[0]] = {}
            elif x < 0.75:
                o[keyed[0]] = {}
            for r in rng.sample(plain, rng.randint(0, 3)):
                if rng.random() < 0.6:
                    o[r] = {}
                if rng.random() < 0.6:
                    n[r] = {}
            old[row], new[row] = o, n
            done = True
    return done


def pipe_cases(ctx, table: dict, hist: dict):
    rng = ctx.rng("pipe")
    shipped: list[dict] = []
    per_dev = 150 if ctx.thorough else 16
    for name in SHIPPED:
        r = table.get(name)
        if not r or not r["tree"]:
            continue
        rules, rev = r["tree"], r["reverse"]
        others = all_defaults(rules)
        base = {"kind": "pipe", "name": name, "model": r["model"], "tags": r["tags"], "shipped": True}
        for d in others[:6]:
            for row in (d + " x", d.split()[0] + " zz", rev + " " + d if not d.startswith(rev + " ") else d[len(rev) + 1:]):
                shipped.append(dict(base, old={row: {}}, new={}, src="shipped/single"))
                shipped.append(dict(base, old={}, new={row: {}}, src="shipped/single"))
        for _ in range(per_dev):
            old = gen_tree(rng, rules, rev, others, hist=hist)
            new = mutate_tree(rng, old, rules, rev, others) if rng.random() < 0.8 else gen_tree(rng, rules, rev, others, hist=hist)
            src = "shipped/random"
            if rng.random() < 0.5:
                # ordinary configuration rows next to the defaults, changing between old and new: the shipped
                # rulebooks attach vendor diff_logic / logic functions to such blocks (interface vrf / L3 rows, ...)
                # and a default absent from both sides must still stay out of the patch
                if with_block_rows(rng, name, old, new):
                    src = "shipped/random+block-rows"
            shipped.append(dict(base, old=old, new=new, src=src))
    # the same completion through the real annet.gen._old_new_per_device (device text / one partial generator)
    per_gen = 40 if ctx.thorough else 8
    for name in SHIPPED + ["no_implicit"]:
        r = table.get(name)
        if not r:
            continue
        rules, rev = r["tree"], r["reverse"] or "no"
        others = all_defaults(rules)
        base = {"kind": "pipe", "name": name, "model": r["model"], "tags": r["tags"], "gen": True}
        shipped.append(dict(base, old={}, new={}, src="gen.py/empty"))
        for _ in range(per_gen if rules else 2):
            old = gen_tree(rng, rules, rev, others, hist=hist)
            new = mutate_tree(rng, old, rules, rev, others)
            shipped.append(dict(base, old=old, new=new, src="gen.py/random"))
    synth: list[dict] = []
    n = 1500 if ctx.thorough else 300
    while len(synth) < n:
        c = P.gen_case(rng, vendors=["huawei", "cisco", "nexus", "arista"])
        rev = P.VENDORS[c["vendor"]][0]
        irules = irules_from_patching(rng, c["rules"])
        if not irules:
            continue
        text = irules_text(rng, irules)
        c.update({"kind": "pipe", "rules_text": text, "hw": P.VENDORS[c["vendor"]][3], "src": "synthetic"})
        synth.append(c)
    return shipped, synth


def irules_from_patching(rng: random.Random, rules: list[dict], depth: int = 0) -> list[dict]:
    """implicit rules speaking about the rows a synthetic patching rulebook knows"""
    out = []
    for r in rules:
        if r["ign"] or rng.random() < 0.35:
            continue
        if r["kids"] and rng.random() < 0.7:
            kids = irules_from_patching(rng, r["kids"], depth + 1)
            if kids:
                out.append({"row": r["pat"], "ign": True, "kids": kids})
                continue
        row = P.inst(rng, r["pat"], extra=rng.random() < 0.3).replace("10.0.0.1", "10")   # `.` would be a regex dot in a rule
        out.append({"row": row, "ign": False, "kids": []})
    return out


def has_added_block(old: dict, new: dict) -> bool:
    """selection only (where the one-sided predicate can say anything): some block of new is missing in old"""
    for k, v in new.items():
        if k not in old:
            if v:
                return True
        elif has_added_block(old[k], v):
            return True
    return False


def patch_witnesses(ctx, table: dict, shipped: list, outs_sh: list, keep_sh: list, result: dict) -> None:
    """the witnesses of the patch-half theorems on the real code, and P_nospur_added (Coq) on real outputs"""
    ce = {"kind": "pipe", "model": "Huawei CE6870", "tags": [], "shipped": True, "name": "huawei_ce", "src": "witness"}
    ws = [dict(ce, old={"ntp server disable": {}}, new={}),                                  # C17_no_spurious_patch_unconditional_refuted
          {"kind": "pipe", "rules_text": "undo foo bar", "vendor": "huawei", "hw": "Huawei CE6870", "patching": "foo *\nundo foo *",
           "ordering": "", "old": {"foo bar baz": {}}, "new": {}},                          # C17_no_spurious_patch_statement_refuted
          dict(ce, old={}, new={"user-interface con 0": {"idle-timeout 5": {}}}),           # C17_no_spurious_added_parent_refuted
          {"kind": "pipe", "rules_text": "!user-interface con *\n    user privilege level 3", "vendor": "huawei",
           "hw": "Huawei CE6870", "patching": "user-interface * %logic=common.permanent\n    user ~\n    idle-timeout *",
           "ordering": "", "old": {"user-interface con 0": {"idle-timeout 5": {}}}, "new": {}},   # C17_removed_parent_permanent_refuted
          {"kind": "pipe", "rules_text": "!user-interface con *\n    user privilege level 3", "vendor": "huawei",
           "hw": "Huawei CE6870", "patching": "user-interface *\n    user ~\n    idle-timeout *",
           "ordering": "", "old": {"user-interface con 0": {"idle-timeout 5": {}}}, "new": {}}]   # C17_hw_removed_parent_nonvacuous
    keys = ("kind", "model", "tags", "shipped", "rules_text", "vendor", "hw", "patching", "ordering", "old", "new")
    outs = core.run_impl("c17_runner.py", [{k: c[k] for k in keys if k in c} for c in ws])
    expect = [["undo ntp server disable"], ["undo foo bar"], ["user-interface con 0", "user privilege level 3"],
              ["user-interface con 0", "undo user privilege level 3"], ["undo user-interface con"]]
    names = ["C17_no_spurious_patch_unconditional_refuted", "C17_no_spurious_patch_statement_refuted",
             "C17_no_spurious_added_parent_refuted", "C17_removed_parent_permanent_refuted", "C17_hw_removed_parent_nonvacuous"]
    rep = {}
    for c, o, e, n in zip(ws, outs, expect, names):
        rep[n] = e in (o.get("cmd_paths") or []) and (n != "C17_hw_removed_parent_nonvacuous" or o.get("cmd_paths") == [e])
        if not rep[n]:
            ctx.add_violation(core.Violation(
                signature="C17/model-impl-disagree/patch-witness",
                what=f"the witness of {n} no longer behaves on the real code as in the model (command path {e} expected)",
                replay={"case": c, "impl": o}, no_input=True))
    result["patch_witnesses_replayed"] = rep
    # a block that only the generator side has: do the defaults of its completion become commands?  (Coq predicate)
    sel = [i for i in keep_sh if shipped[i].get("shipped") and has_added_block(shipped[i]["old"], shipped[i]["new"])][:80]
    cs = [ws[2]] + [shipped[i] for i in sel]
    os_ = [outs[2]] + [outs_sh[i] for i in sel]
    terms = [coq_pipe(c, o, table) for c, o in zip(cs, os_)]
    res = core.run_case_files(ID, "c17pipe", IMPORTS, {"added": "P_nospur_added imatch (fun _ => true)"}, terms,
                              per_file=30, tag="pipe_added")
    result["added_parent"] = {"evaluated": len(terms), "failing": len(res["added"])}
    for i in res["added"][:1]:
        ctx.add_violation(core.Violation(
            signature=KNOWN_ADDED,
            what="a block present on the generator side only is sent with the default rows of its completion although neither "
                 "the device text nor the generator output has them",
            replay={"case": cs[i], "impl": os_[i], "clause": "added_parent"}))


KNOWN_LAG = "C17/no-spurious/port-channel-member-filter-drops-the-default-on-one-side"


def lag_join_or_leave_only(c: dict, table: dict) -> bool:
    """Is the no-spurious failure of this shipped-rulebook case confined to interface blocks that have a
    `channel-group` row on exactly one side?  Decided by the SAME Coq predicate on the real outputs for the case
    with exactly those blocks removed from both sides (the implementation is run again on it)."""
    def cg(t):
        return any(r.startswith("channel-group") for r in t)
    old, new = c["old"], c["new"]
    drop = [r for r in old if r.startswith("interface ") and r in new and cg(old[r]) != cg(new[r])]
    if not drop:
        return False
    c2 = dict(c, old={k: v for k, v in old.items() if k not in drop}, new={k: v for k, v in new.items() if k not in drop})
    keys_sh = ("kind", "model", "tags", "shipped", "gen", "old", "new")
    o2 = core.run_impl("c17_runner.py", [{k: c2[k] for k in keys_sh if k in c2}])[0]
    if "fatal" in o2 or "err" in o2:
        return False
    term = f"({cstr(shared_name(c2, o2, table))}, {coq_pipe(c2, o2, table)})"
    r = core.run_case_files(ID, "string * c17pipe", IMPORTS, {"nospur": "fun x => P_nospur imatch (fun _ => true) (snd x)"},
                            [term], per_file=5, tag="pipe_lag")
    return not r["nospur"]


def run_pipe(ctx, table: dict) -> dict:
    hist: dict = {}
    shipped, synth = pipe_cases(ctx, table, hist)
    keys_sh = ("kind", "model", "tags", "shipped", "gen", "old", "new")
    keys_sy = ("kind", "rules_text", "vendor", "hw", "patching", "ordering", "old", "new")
    outs_sh = core.run_impl_sharded("c17_runner.py", [{k: c[k] for k in keys_sh if k in c} for c in shipped])
    outs_sy = core.run_impl_sharded("c17_runner.py", [{k: c[k] for k in keys_sy} for c in synth])
    result = {"shipped": shipped, "synth": synth, "outs_sh": outs_sh, "outs_sy": outs_sy, "hist": hist}

    def bad(o):
        return "fatal" in o or o.get("err") not in (None, "AssertionError")
    for cs, os_ in ((shipped, outs_sh), (synth, outs_sy)):
        for c, o in zip(cs, os_):
            if bad(o):
                ctx.add_violation(core.Violation(
                    signature="C17/pipeline-raised", what="the real pipeline raised: " + str(o.get("fatal") or o.get("err"))[:300],
                    replay={"case": c, "impl": o}))
                return result
    keep_sh = [i for i, o in enumerate(outs_sh) if "err" not in o]
    keep_sy = [i for i, o in enumerate(outs_sy) if "err" not in o]
    ANY = "(fun _ => true)"
    slow = {"modelled": "fun x => rules_modelled (cp_rules (snd x))", "completed": "fun x => P_pipe_completed imatch (snd x)",
            "nospur": f"fun x => P_nospur imatch {ANY} (snd x)", "strict": f"fun x => P_nospur_strict imatch {ANY} (snd x)"}
    sh_terms = [f"({cstr(shared_name(shipped[i], outs_sh[i], table))}, {coq_pipe(shipped[i], outs_sh[i], table)})" for i in keep_sh]
    res_sh = two_stage("pipe_shipped", "string * c17pipe", sh_terms, f"let tbls := {TABLES} in pipe_all_ok_n tbls", slow, 100)
    res_sh = {k: [keep_sh[j] for j in v] for k, v in res_sh.items()}
    sy_terms = []
    for i in keep_sy:
        c, o = synth[i], outs_sy[i]
        pc = dict(c, old=o["m_old"], new=o["m_new"])
        sy_terms.append(f"({coq_pipe(c, o, table)}, {P.coq_pcase(pc, dict(o, diff_full=[], patch_lines=[]))})")
    DL = "(path_ddefault pm (pc_rules (snd x)))"
    slow_sy = {"modelled": "fun x => rules_modelled (cp_rules (fst x))",
               "completed": "fun x => P_pipe_completed imatch (fst x)", "nospur": f"fun x => P_nospur imatch {DL} (fst x)",
               "strict": f"fun x => P_nospur_strict imatch {DL} (fst x)",
               "agree_diff": "fun x => agree_diff (snd x)", "agree_patch": "fun x => agree_patch (snd x)",
               "agree_paths": "fun x => agree_paths (snd x)"}
    fast_sy = (f"fun x => let rm := tmatch (table_of (cp_rules (fst x))) in rules_modelled (cp_rules (fst x)) && "
               f"P_pipe_completed rm (fst x) && P_nospur_strict rm {DL} (fst x) && agree_diff (snd x) && agree_patch (snd x) "
               f"&& agree_paths (snd x)")
    res_sy = two_stage("pipe_synth", "c17pipe * pcase", sy_terms, fast_sy, slow_sy, 50)
    res_sy = {k: [keep_sy[j] for j in v] for k, v in res_sy.items()}
    result.update({"res_sh": res_sh, "res_sy": res_sy, "keep_sh": keep_sh, "keep_sy": keep_sy})
    failed = False
    for (cs, os_, res, tag) in ((shipped, outs_sh, res_sh, "shipped-rulebook"), (synth, outs_sy, res_sy, "synthetic-rulebook")):
        unm = set(res["modelled"])
        for k in ("completed", "nospur", "strict"):
            res[k] = [i for i in res[k] if i not in unm]
        result["unmodelled"] = result.get("unmodelled", 0) + len(unm)
        for i in res["completed"][:1]:
            ctx.add_violation(core.Violation(
                signature="C17/model-impl-disagree/pipeline-completion",
                what="a side of the pipeline was not completed as the reference says (annet.gen._old_new_per_device or "
                     "merge_dicts(x, implicit.config(x, rules)))",
                replay={"case": cs[i], "impl": os_[i], "correspondence": "P_pipe_completed"}, no_input=True))
        lag_seen = False
        for i in res["nospur"][:6]:
            failed = True
            if tag == "shipped-rulebook" and lag_join_or_leave_only(cs[i], table):
                # the failure is confined to interface blocks that join or leave a port-channel: listed finding
                if not lag_seen:
                    lag_seen = True
                    ctx.add_violation(core.Violation(
                        signature=KNOWN_LAG,
                        what="an interface joining / leaving a port-channel: the vendor interface diff_logic drops the rows "
                             "not allowed on channel members - the implicit default among them - from one side only",
                        replay={"case": cs[i], "impl": os_[i], "clause": "no_spurious"}))
                continue
            ctx.add_violation(core.Violation(
                signature=f"C17/no-spurious/{tag}",
                what="a default row absent from both sides, whose pattern no row of either side matches, at a parent present "
                     "in both, has a diff entry or a patch command of its own",
                replay={"case": cs[i], "impl": os_[i], "clause": "no_spurious"}))
        loose = set(res["nospur"])
        for i in [j for j in res["strict"] if j not in loose][:1]:
            ctx.add_violation(core.Violation(
                signature=KNOWN_EXT,
                what="a default row absent from both sides gets a diff entry and a command because one side has another row "
                     "matching the default's pattern (e.g. extending its words) and the other side has none",
                replay={"case": cs[i], "impl": os_[i], "clause": "no_spurious_as_stated"}))
    # the witness of C17_no_spurious_rewrite_refuted on the real code: the default is MOVED inside a %rewrite block
    w = core.run_impl("c17_runner.py", [{"kind": "pipe", "rules_text": "!blk\n    ip y", "vendor": "huawei", "hw": "Huawei CE6870",
                                         "patching": "blk %rewrite\n    ip *", "ordering": "",
                                         "old": {"blk": {"ip 1": {}}}, "new": {"blk": {"ip 2": {}}}}])[0]
    moved = [k["op"] for n in w.get("diff", []) if n["row"] == "blk" for k in n["kids"] if k["row"] == "ip y"]
    result["rewrite_witness_replayed"] = moved == ["moved"]
    if moved != ["moved"]:
        ctx.add_violation(core.Violation(
            signature="C17/model-impl-disagree/rewrite-witness",
            what="the witness of C17_no_spurious_rewrite_refuted no longer behaves on the real code as in the model",
            replay={"impl": w}, no_input=True))
    patch_witnesses(ctx, table, shipped, outs_sh, keep_sh, result)
    if not failed:
        for a in ("agree_diff", "agree_patch", "agree_paths"):
            for i in res_sy[a][:1]:
                ctx.add_violation(core.Violation(
                    signature=f"C17/model-impl-disagree/pipeline-{a[6:]}",
                    what=f"Coq pipeline model and _diff_and_patch differ on '{a[6:]}' for completed trees",
                    replay={"case": synth[i], "impl": outs_sy[i], "correspondence": a}, no_input=True))
    return result


def run(ctx):
    core.proof_stage(ctx, THEOREM_FILE)
    import time
    t0 = time.time()
    table = get_table()
    comp = run_completion(ctx, table)
    t1 = time.time()
    pipe = run_pipe(ctx, table)
    ctx.notes.append(f"stage wall: completion {t1 - t0:.0f}s, pipeline {time.time() - t1:.0f}s; " + "; ".join(TIMES))
    cases, outs = comp["cases"], comp["outs"]
    seen, nt = set(), 0
    src_hist: dict = {}
    for c, o in zip(cases, outs):
        src_hist[c["src"]] = src_hist.get(c["src"], 0) + 1
        h = core.canon_hash([c.get("name"), c.get("rules_text"), c["tree"]])
        if h in seen or "m" not in o:
            continue
        seen.add(h)
        if size(o["m"]) > size(c["tree"]) and depth(c["tree"]) >= 1 and o["m"] != dict(c["tree"], **o["imp"]):
            nt += 1
    pnt = 0
    for cs, os_ in ((pipe.get("shipped", []), pipe.get("outs_sh", [])), (pipe.get("synth", []), pipe.get("outs_sy", []))):
        for c, o in zip(cs, os_):
            src_hist[c["src"]] = src_hist.get(c["src"], 0) + 1
            h = core.canon_hash([c.get("name"), c.get("rules_text"), c.get("patching"), c["old"], c["new"]])
            if h in seen:
                continue
            seen.add(h)
            if o.get("cmd_paths") and (size(o.get("m_old", {})) > size(c["old"]) or size(o.get("m_new", {})) > size(c["new"])):
                pnt += 1
    res = comp.get("res", {})
    ctx.coverage.update({
        "evaluations": len(cases) + len(pipe.get("shipped", [])) + len(pipe.get("synth", [])),
        "distinct_nontrivial": nt + pnt,
        "rule": "completion cases: one tree per case over the words of the implicit rules of a canonical device (18 devices, "
                "every hardware attribute _implicit_tree consults) or of a random implicit rule text; distinct by "
                "(device|text, tree); non-trivial = a default row was added below the top level or next to explicit rows "
                "of a non-empty tree.  pipeline cases: (old, new) completed and pushed through _diff_and_patch with the "
                "shipped rulebook of the device or a synthetic one; non-trivial = a side received defaults and the patch "
                "is not empty",
        "samples": [{"case": cases[i], "impl": outs[i]} for i in (0, len(cases) // 2)][:2] if cases else [],
        "traces_validated_against_impl": len(cases) + len(pipe.get("keep_sh", [])) + len(pipe.get("keep_sy", [])),
        "disagreements_checked": sum(len(res.get(a, [])) for a in ("agree_parse", "agree_imp", "agree_m", "agree_m2"))
                                 + sum(len(pipe.get("res_sy", {}).get(a, [])) for a in ("agree_diff", "agree_patch", "agree_paths")),
        "source_histogram": src_hist,
        "row_kind_histogram": {"completion": comp.get("hist", {}), "pipeline": pipe.get("hist", {})},
        "max_tree_depth": max((depth(c["tree"]) for c in cases), default=0),
        "parser_error_cases": sum(1 for o in outs if o.get("err") == "ParserError"),
        "unmodelled_rule_cases": comp.get("unmodelled", 0),
        "pipeline_assertion_errors": sum(1 for o in pipe.get("outs_sy", []) + pipe.get("outs_sh", []) if o.get("err") == "AssertionError"),
        "strict_no_spurious_failures": len(pipe.get("res_sh", {}).get("strict", [])) + len(pipe.get("res_sy", {}).get("strict", [])),
        "idem_failures": len(res.get("holds_idem", [])),
        "refutation_witnesses_replayed": {"C17_idem_refuted": "huawei_ne / empty config is case hw/empty of the stream "
                                                               "(known finding seen: %s)" % bool(res.get("holds_idem")),
                                          "C17_no_spurious_rewrite_refuted": pipe.get("rewrite_witness_replayed"),
                                          **pipe.get("patch_witnesses_replayed", {})},
        "added_parent_cases": pipe.get("added_parent", {}),
        "devices": sorted(table),
    })
    ctx.assumptions += [
        "row matcher: the plain rule language of Model/Pattern.v (C07) plus one-word regexes without the */re/ marker, "
        "rewritten to */re/ (Implicit.widen); correspondence-tested, not proved equal to CPython re",
        "which text _implicit_tree selects for a device is executed (one canonical device per consulted hardware attribute), "
        "not modelled",
        "no-spurious clause: parents present on both sides; a block the generator side adds as a whole is created with its "
        "defaults (open finding, P_nospur_added); a block removed as a whole has no command below it unless its rule is %permanent (proved)",
        "patch half: formatter families whose cmd_paths is the path stack of the block stream (not the Juniper/Nokia flattening)",
        "pipeline theorems inherit the model limits of C03 (no %ignore_case re-keying, %multiline, vendor diff logics)",
    ]


def replay(ctx, doc):
    r = doc["replay"]
    c = r["case"]
    table = get_table()
    keys = ("kind", "model", "tags", "rules_text", "tree", "shipped", "gen", "vendor", "hw", "patching", "ordering", "old", "new")
    o = core.run_impl("c17_runner.py", [{k: c[k] for k in keys if k in c}])[0]
    print("impl:", json.dumps(o)[:2000])
    if c["kind"] == "pipe":
        res = core.run_case_files(ID, "c17pipe", IMPORTS,
                                  {"nospur": "P_nospur imatch (fun _ => true)", "strict": "P_nospur_strict imatch (fun _ => true)",
                                   "completed": "P_pipe_completed imatch", "added": "P_nospur_added imatch (fun _ => true)"},
                                  [coq_pipe(c, o, table)], tag="replay")
    else:
        res = core.run_case_files(ID, "string * c17case", IMPORTS,
                                  {k: f"fun x => {k} (snd x)" for k in ("holds_spec", "holds_kept", "holds_iff", "holds_idem",
                                                                        "holds_idem_guarded")},
                                  [coq_case(c, o, table)], tag="replay")
    print("false predicates:", [k for k, v in res.items() if v])
    return 1 if any(res.values()) else 0
