"""C19 — file-based devices: winning generator, upload decision, reload, file diff (DESIGN §3.C19)."""
from __future__ import annotations

import itertools
import re

from .. import core
from ..core import cbool, clist, cpair, cstr

ID = "C19"
THEOREM_FILE = "Properties/C19.v"
IMPORTS = "From Annet Require Import Base.Str Model.Files Spec.P_C19."
TY = "input * output"
META = {
    "text": "Proof: for any number of Entire generators in any listing order (Permutation) with distinct priorities, "
            "the model of run_file_generators/add_entire/new_files plans for each path the output and reload "
            "commands of the highest-priority generator, the safe view keeps exactly the safe winners, and "
            "PCDeployerJob.parse_result uploads exactly {p: new[p] | differ says changed or force} with the generated "
            "bytes and attaches the reload command iff reloads are enabled (differ law as a Section hypothesis, "
            "discharged for the repaired UnifiedFileDiffer; refuted with witnesses for the shipped one, whose "
            "splitlines() comparison hides final-newline/CRLF/absent-vs-empty differences). Correspondence: Coq "
            "evaluates model==implementation and P_C19 on the real outputs of run_file_generators().new_files(), "
            "PCDeployerJob.parse_result and pc_diff over synthesised generator classes in several listing orders. "
            "Generators that do not produce a result (supports_device false, path() None or raising, "
            "NotSupportedDevice from run() at once or after some lines, run() returning None) are in the model "
            "(Model/FilesKinds.v): proved for every listing order that they contribute nothing, that the plan is the "
            "argmax over the generators that produced a result (priorities need be distinct among those only) and "
            "that the run fails iff a supporting generator returns None (C19_kinds_*); the same generator kinds are "
            "driven through the real run_file_generators in all listing orders of small sets, including the "
            "prio-descending order build_generators() produces.",
    "technique": "Coq induction over generator lists (running maximum, Permutation), association-list dict "
                 "equality; vm_compute differential check",
}

SIGS = [
    "new-files/not-argmax", "new-files/safe-filter",
    "upload-skipped/trailing-newline", "upload-skipped/line-terminator", "upload-skipped/absent-vs-empty",
    "upload-skipped/other", "upload-skipped/equal-content", "upload-unexpected", "upload-bytes-differ",
    "reload/missing-when-enabled", "reload/wrong-command", "reload/attached-when-disabled",
    "diff-empty/trailing-newline", "diff-empty/line-terminator", "diff-empty/absent-vs-empty",
    "diff-empty/other", "diff-shown-for-equal", "foreign-path",
    "run-failed/no-broken-generator", "run-none/not-reported",
]
WHAT = {
    "new-files/not-argmax": "new_files() is not the output/reload of the highest-priority generator per path",
    "new-files/safe-filter": "new_files(safe=True) is not exactly the safe winners",
    "upload-skipped/other": "file not scheduled for upload although its line content differs",
    "upload-skipped/equal-content": "file not scheduled for upload although reload is forced (entire_reload=force)",
    "upload-unexpected": "file scheduled for upload although content is equal and reload is not forced",
    "upload-bytes-differ": "uploaded bytes are not the generated content",
    "reload/missing-when-enabled": "uploaded file has no reload command although reloads are enabled",
    "reload/wrong-command": "reload command attached is not the winning generator's",
    "reload/attached-when-disabled": "reload command attached although entire_reload=no",
    "diff-empty/other": "pc_diff shows nothing although the line content differs",
    "diff-shown-for-equal": "pc_diff shows a file whose content is equal",
    "foreign-path": "a path that no winning generator planned appears in files/cmds/diff",
    "run-failed/no-broken-generator": "run_file_generators/parse_result raised although every listed generator either "
                                      "renders or turns the device down in a supported way",
    "run-none/not-reported": "a generator supporting the device returned None from run() and the run went on silently",
}

# ------------------------------------------------------------------------------------ printers

_SPECIAL = {"\r": "CR", "\x0b": "VT", "\x0c": "FF"}


def cs(s: str) -> str:
    """Coq string term; CR/VT/FF (not allowed in literals by core.cstr) are spliced as constants."""
    if not any(ch in _SPECIAL for ch in s):
        return cstr(s)
    parts, cur = [], ""
    for ch in s:
        if ch in _SPECIAL:
            if cur:
                parts.append(cstr(cur))
                cur = ""
            parts.append(_SPECIAL[ch])
        else:
            cur += ch
    if cur:
        parts.append(cstr(cur))
    return "(" + " ++ ".join(parts) + ")%string"


def cgen(g: dict) -> str:
    return f"(Gen {cs(g['path'])} ({g['prio']})%Z {cs(g['out'])} {cs(g['reload'])} {cbool(g['safe'])})"


def cinput(c: dict) -> str:
    old = clist(cpair(cs(p), "None" if v is None else f"(Some {cs(v)})") for p, v in c["old"].items())
    mode = {"no": "RNo", "yes": "RYes", "force": "RForce"}[c["mode"]]
    return f"(In_ {clist(cgen(g) for g in c['gens'])} {cbool(c['etck'])} {cbool(c['safe'])} {old} {mode})"


def coutput(o: dict) -> str:
    nf = lambda l: clist(cpair(cs(p), cpair(cs(a), cs(b))) for p, a, b in l)  # noqa: E731
    ss = lambda l: clist(cpair(cs(p), cs(a)) for p, a in l)  # noqa: E731
    dep = "None" if o["deploy"] is None else f"(Some ({ss(o['deploy']['files'])}, {ss(o['deploy']['cmds'])}))"
    diff = clist(cpair(cs(p), cbool(b)) for p, b in o["diff"])
    return f"(Out {nf(o['new'])} {nf(o['new_safe'])} {dep} {diff})"


KINDS = {"ok": "KOk", "ok_yield": "KOk", "unsupported": "KUnsupported", "path_none": "KUnsupported",
         "path_nsd": "KUnsupported", "nsd": "KDeclines", "nsd_late": "KDeclines", "run_none": "KNone"}
K_IMPORTS = "From Annet Require Import Base.Str Model.Files Model.FilesKinds Spec.P_C19 Spec.P_C19K."
K_TY = "kinput * option output"


def ckinput(c: dict) -> str:
    old = clist(cpair(cs(p), "None" if v is None else f"(Some {cs(v)})") for p, v in c["old"].items())
    mode = {"no": "RNo", "yes": "RYes", "force": "RForce"}[c["mode"]]
    ks = clist(f"(KGen {cgen(g)} {KINDS[g.get('kind', 'ok')]})" for g in c["gens"])
    return f"(KIn {ks} {cbool(c['etck'])} {cbool(c['safe'])} {old} {mode})"


def ckoutput(o: dict) -> str:
    return "None" if "exc" in o else f"(Some {coutput(o)})"


# ------------------------------------------------------------------------------------ generators

CONTENTS = ["", "a", "a\n", "b\n", "a\nb", "a\nb\n", "a\r\nb", "a\r\nb\r\n", "\n", "a\n\n", "x y\n  z\n",
            "a\rb", "a\x0bb\n", "b", "a \n", "a\t\n", "a\n \n", " a\n"]
RELOADS = ["", "", "systemctl reload x", "r1\nr2", "svc restart"]
PATHS = ["/etc/a", "/etc/b.conf", "/c"]


def eol_variants(s: str) -> list[str]:
    out = []
    if s.endswith("\n"):
        out.append(s[:-1])
    else:
        out.append(s + "\n")
    if "\n" in s:
        out.append(s.replace("\r\n", "\n").replace("\n", "\r\n"))
        out.append(s.replace("\r\n", "\n"))
    out.append(s + "\n\n")
    return [v for v in out if v != s]


def ws_variants(s: str) -> list[str]:
    """the same text with blanks/tabs added at the end (or start) of a line, or a blank-only line for an empty one:
    differences a differ that normalises white space would hide"""
    out = []
    for nl in ("\r\n", "\n"):
        if nl in s:
            out += [s.replace(nl, " " + nl, 1), s.replace(nl, "\t" + nl, 1)]
            break
    else:
        out += [s + " ", s + "\t"]
    if "\n\n" in s:
        out.append(s.replace("\n\n", "\n \n", 1))
    if s.endswith(" \n") or s.endswith("\t\n"):
        out.append(s[:-2] + "\n")
    if s and not s[0].isspace():
        out.append(" " + s)
    return [v for v in out if v != s]


def winners(gens: list[dict]) -> dict:
    """Only used to aim old contents at interesting values (never as an oracle)."""
    w: dict = {}
    for g in gens:
        if g["path"] and (g["path"] not in w or g["prio"] > w[g["path"]]["prio"]):
            w[g["path"]] = g
    return w


def rand_gens(rng, n: int, paths: list[str], allow_empty_path=True) -> list[dict]:
    prios = rng.sample([-5, -1, 0, 1, 2, 3, 7, 10, 50, 99, 100, 101, 200, 1000], n)
    gens = []
    for i in range(n):
        p = rng.choice(paths)
        if allow_empty_path and rng.random() < 0.06:
            p = ""
        gens.append({"path": p, "prio": prios[i], "out": rng.choice(CONTENTS), "reload": rng.choice(RELOADS),
                     "safe": rng.random() < 0.5})
    return gens


def rand_old(rng, gens: list[dict]) -> dict:
    w = winners(gens)
    old: dict = {}
    for p in PATHS + ["/other"]:
        r = rng.random()
        new = w[p]["out"] if p in w else rng.choice(CONTENTS)
        if r < 0.12:
            continue
        if r < 0.22:
            old[p] = None
        elif r < 0.50:
            old[p] = new
        elif r < 0.66:
            vs = eol_variants(new)
            old[p] = rng.choice(vs) if vs else new
        elif r < 0.76:
            vs = ws_variants(new)
            old[p] = rng.choice(vs) if vs else new
        else:
            old[p] = rng.choice(CONTENTS)
    return old


def gen_cases(ctx) -> list[dict]:
    rng = ctx.rng("gen")
    cases: list[dict] = []
    modes = ["no", "yes", "force"]
    # 1. random structured stream: a generator set, several listing orders of it
    n_sets = 9000 if ctx.thorough else 420
    for _ in range(n_sets):
        n = rng.choice([0, 1, 2, 2, 3, 3, 4, 5, 6])
        gens = rand_gens(rng, n, PATHS[:rng.choice([1, 2, 3])])
        old = rand_old(rng, gens)
        etck = rng.random() < 0.25
        orders = [list(gens), list(reversed(gens))]
        sh = list(gens)
        rng.shuffle(sh)
        orders.append(sh)
        seen = set()
        for o in orders:
            k = core.canon_hash(o)
            if k in seen:
                continue
            seen.add(k)
            cases.append({"gens": o, "etck": etck, "safe": rng.random() < 0.3, "old": old,
                          "mode": rng.choice(modes), "src": "random"})
    n_rand = len(cases)
    # 2. near-miss stream: equal priorities (outside the guard; model and code must still agree),
    #    only-empty paths, old map with explicit None, every content against every content
    for _ in range(1500 if ctx.thorough else 120):
        n = rng.choice([2, 3, 4])
        gens = rand_gens(rng, n, PATHS[:2])
        gens[1]["prio"] = gens[0]["prio"]
        gens[1]["path"] = gens[0]["path"]
        cases.append({"gens": gens, "etck": False, "safe": rng.random() < 0.3, "old": rand_old(rng, gens),
                      "mode": rng.choice(modes), "src": "tie"})
    pairs = list(itertools.product([None] + CONTENTS, CONTENTS))
    if not ctx.thorough:
        pairs = [pairs[i] for i in sorted(rng.sample(range(len(pairs)), 90))]
    for o, nw in pairs:
        for mode in (modes if ctx.thorough else [rng.choice(modes)]):
            cases.append({"gens": [{"path": "/etc/a", "prio": 100, "out": nw, "reload": "rl", "safe": True}],
                          "etck": False, "safe": False, "old": {"/etc/a": o}, "mode": mode, "src": "pairs"})
    n_near = len(cases) - n_rand
    # 3. exhaustive small scope: all listing orders of <= 4 (quick: <= 3) generators x old maps over a small
    #    alphabet x modes x safe flag
    n_exh0 = len(cases)
    alpha = [None, "a", "a\n", "b\n"] if ctx.thorough else [None, "a\n"]
    max_n = 4 if ctx.thorough else 3
    n_sets_exh = {1: 2, 2: 3, 3: 4, 4: 4} if ctx.thorough else {1: 1, 2: 2, 3: 2}
    erng = ctx.rng("exh")
    for n in range(1, max_n + 1):
        for _ in range(n_sets_exh[n]):
            gens = []
            prios = erng.sample([1, 2, 3, 5, 8, 100], n)
            for i in range(n):
                gens.append({"path": PATHS[0] if i < (n + 1) // 2 or erng.random() < 0.3 else PATHS[1],
                             "prio": prios[i], "out": erng.choice(["a", "a\n", "b\n", ""]),
                             "reload": erng.choice(["", "rl"]), "safe": erng.random() < 0.5})
            for perm in itertools.permutations(gens):
                for olds in itertools.product(alpha, repeat=2):
                    old = {PATHS[0]: olds[0], PATHS[1]: olds[1]}
                    for mode in modes:
                        for safe in ((False, True) if ctx.thorough else (False,)):
                            cases.append({"gens": list(perm), "etck": False, "safe": safe, "old": old,
                                          "mode": mode, "src": "exhaustive"})
    ctx.coverage["input_distribution"] = {
        "random": n_rand, "near_miss": n_near, "exhaustive": len(cases) - n_exh0,
        "exhaustive_scope": f"all listing orders of <= {max_n} generators over 2 paths x old maps over "
                            f"{[repr(a) for a in alpha]} per path x 3 reload modes"
                            + (" x acl_safe" if ctx.thorough else ""),
        "contents_alphabet": [repr(c) for c in CONTENTS],
    }
    return cases


SILENT = ["unsupported", "path_none", "path_nsd", "nsd", "nsd_late"]


def gen_kind_cases(ctx) -> list[dict]:
    """Generators that do not produce a result, next to ones that do: random sets in several listing orders
    (among them prio-descending, the order build_generators() lists them in, and prio-ascending), and all listing
    orders x all kind assignments of small sets competing for one path."""
    rng = ctx.rng("kinds")
    modes = ["no", "yes", "force"]
    cases: list[dict] = []
    hist = {k: 0 for k in KINDS}
    for _ in range(2500 if ctx.thorough else 260):
        n = rng.choice([2, 2, 3, 3, 4, 5, 6])
        gens = rand_gens(rng, n, PATHS[:rng.choice([1, 1, 2, 3])])
        broken = rng.random() < 0.08
        for g in gens:
            r = rng.random()
            g["kind"] = "ok" if r < 0.35 else "ok_yield" if r < 0.5 else rng.choice(SILENT)
        if broken:
            rng.choice(gens)["kind"] = "run_none"
        if rng.random() < 0.3 and n >= 2:
            # a generator that produces nothing with the prio (and path) of one that does: inside the guard of
            # C19_kinds_argmax (distinct among producers), outside "distinct among all listed"
            a, b = rng.sample(range(n), 2)
            gens[a]["kind"] = rng.choice(SILENT)
            gens[b]["kind"] = "ok"
            gens[a]["prio"], gens[a]["path"] = gens[b]["prio"], gens[b]["path"]
        old = rand_old(rng, [g for g in gens if g["kind"] in ("ok", "ok_yield")])
        etck = rng.random() < 0.25
        by_prio = sorted(gens, key=lambda g: -g["prio"])
        sh = list(gens)
        rng.shuffle(sh)
        seen = set()
        safe, mode = rng.random() < 0.3, rng.choice(modes)
        for o in (by_prio, list(reversed(by_prio)), list(gens), sh):
            k = core.canon_hash(o)
            if k in seen:
                continue
            seen.add(k)
            cases.append({"gens": o, "etck": etck, "safe": safe, "old": old, "mode": mode, "src": "kinds-random"})
    n_rand = len(cases)
    erng = ctx.rng("kinds-exh")
    kinds3 = ["ok", "nsd", "unsupported"] if not ctx.thorough else ["ok", "ok_yield", "nsd", "nsd_late", "unsupported",
                                                                     "path_none"]
    for n in (2, 3):
        for _ in range(2 if ctx.thorough else 1):
            prios = erng.sample([1, 2, 3, 5, 8, 100, 200], n)
            base = [{"path": PATHS[0], "prio": prios[i], "out": ["a\n", "b\n", "a\nb\n"][i],
                     "reload": erng.choice(["", "rl"]), "safe": erng.random() < 0.5} for i in range(n)]
            for ks in itertools.product(kinds3 + (["run_none"] if n == 2 else []), repeat=n):
                gens = [dict(g, kind=k) for g, k in zip(base, ks)]
                for perm in itertools.permutations(gens):
                    for o in (None, "a\n"):
                        cases.append({"gens": list(perm), "etck": False, "safe": False, "old": {PATHS[0]: o},
                                      "mode": erng.choice(modes), "src": "kinds-exhaustive"})
    for c in cases:
        for g in c["gens"]:
            hist[g.get("kind", "ok")] += 1
    ctx.coverage["kinds_distribution"] = {
        "random": n_rand, "exhaustive": len(cases) - n_rand, "generators_by_kind": hist,
        "exhaustive_scope": f"all listing orders x all kind assignments over {kinds3} of 2 and 3 generators "
                            "competing for one path (2 generators: also run_none)",
    }
    return cases


def payload(c: dict) -> dict:
    return {k: c[k] for k in ("gens", "etck", "safe", "old", "mode")}


# ------------------------------------------------------------------------------------ run

PREDS = {
    "agree_lines": "fun c => output_eqb (model differ_lines (fst c)) (snd c)",
    "agree_exact": "fun c => output_eqb (model differ_exact (fst c)) (snd c)",
    # the property is claimed inside its quantifier (distinct priorities); outside only `agree` is checked
    "holds": "fun c => negb (wf_C19 (fst c)) || P_C19 (fst c) (snd c)",
    "outside_guard": "fun c => wf_C19 (fst c)",
}
def classify(terms: list[str], tag: str, imports: str = IMPORTS, ty: str = TY, fn: str = "sig_codes") -> list[list[str]]:
    """Coq computes, once per failing case, the labels of the violated clauses (Spec.P_C19.sigs_C19)."""
    d = core.BUILD / "cases" / ID / tag
    d.mkdir(parents=True, exist_ok=True)
    names = clist(cstr(s) for s in SIGS)
    files = []
    per_file = 400
    for k in range(0, len(terms), per_file):
        body = ";\n".join(f"({i}%nat, {terms[i]})" for i in range(k, min(len(terms), k + per_file)))
        txt = (core.CASE_HEADER.split("{imports}")[0] + imports + "\n"
               + f"Definition names : list string := {names}.\n"
               + f"Definition cases : list (nat * ({ty})) := [\n{body}\n].\n"
               + f"Eval vm_compute in (map (fun c => (fst c, {fn} names (fst (snd c)) (snd (snd c)))) cases).\n")
        f = d / f"sigs_{k // per_file}.v"
        f.write_text(txt)
        files.append(f)
    out: list[list[str]] = [[] for _ in terms]

    def one(f):
        p = core.coqc_file(f, timeout=900)
        if p.returncode != 0:
            raise core.CheckFailure(f"case file {f} failed to compile:\n{(p.stdout + p.stderr)[-3000:]}")
        found = re.findall(r"\(\s*(\d+),\s*\[([\d;\s]*)\]\s*\)", p.stdout)
        if len(found) != f.read_text().count("%nat, "):
            raise core.CheckFailure(f"unexpected coqc output for {f}: {p.stdout[-1500:]}")
        return found

    from concurrent.futures import ThreadPoolExecutor
    with ThreadPoolExecutor(max_workers=core.NPROC) as ex:
        for found in ex.map(one, files):
            for i, codes in found:
                out[int(i)] = [SIGS[int(c)] if int(c) < len(SIGS) else "unclassified"
                               for c in re.findall(r"\d+", codes)]
    for f in files:
        for ext in (".vo", ".vok", ".vos", ".glob"):
            f.with_suffix(ext).unlink(missing_ok=True)
        (f.parent / ("." + f.stem + ".aux")).unlink(missing_ok=True)
    return out


def evaluate(cases: list[dict], outs: list[dict], tag="cases"):
    """res: label -> indices (into cases) where the predicate is false; sigs: failing index -> labels."""
    ok_idx = [i for i, o in enumerate(outs) if "exc" not in o]
    terms = [cpair(cinput(cases[i]), coutput(outs[i])) for i in ok_idx]
    res = core.run_case_files(ID, TY, IMPORTS, PREDS, terms, per_file=300, tag=tag) if terms else \
        {k: [] for k in PREDS}
    sigs: dict[int, list[str]] = {}
    if res["holds"]:
        labels = classify([terms[j] for j in res["holds"]], tag + "_sigs")
        for j, ls in zip(res["holds"], labels):
            sigs[ok_idx[j]] = ls
    res = {k: [ok_idx[j] for j in v] for k, v in res.items()}
    return res, sigs


K_PREDS = {
    "agree_lines": "fun c => koutput_eqb (k_model differ_lines (fst c)) (snd c)",
    "agree_exact": "fun c => koutput_eqb (k_model differ_exact (fst c)) (snd c)",
    "holds": "fun c => negb (wf_C19K (fst c)) || P_C19K (fst c) (snd c)",
    "outside_guard": "fun c => wf_C19K (fst c)",
}


def evaluate_k(cases: list[dict], outs: list[dict], tag="kinds"):
    """the same for the inputs with generator kinds; an exception of the implementation is the outcome None"""
    terms = [cpair(ckinput(c), ckoutput(o)) for c, o in zip(cases, outs)]
    res = core.run_case_files(ID, K_TY, K_IMPORTS, K_PREDS, terms, per_file=300, tag=tag) if terms else \
        {k: [] for k in K_PREDS}
    sigs: dict[int, list[str]] = {}
    if res["holds"]:
        labels = classify([terms[j] for j in res["holds"]], tag + "_sigs", K_IMPORTS, K_TY, "ksig_codes")
        for j, ls in zip(res["holds"], labels):
            sigs[j] = ls
    return res, sigs


def what_of(sig: str) -> str:
    if sig in WHAT:
        return WHAT[sig]
    if "/" not in sig:
        return "P_C19 is false on the implementation's output (clause not classified)"
    kind, cls = sig.split("/", 1)
    if kind == "upload-skipped":
        return f"file not scheduled for upload although old.get(p) != new[p] ({cls}: same splitlines())"
    if kind == "diff-empty":
        return f"pc_diff/UnifiedFileDiffer shows no diff although old text != new text ({cls})"
    return sig


def run(ctx):
    core.proof_stage(ctx, THEOREM_FILE)
    cases = gen_cases(ctx)
    outs = core.run_impl_sharded("c19_runner.py", [payload(c) for c in cases])
    res, sigs = evaluate(cases, outs)

    # --- property violations on real outputs
    for i, o in enumerate(outs):
        if "exc" in o:
            ctx.add_violation(core.Violation(
                signature=f"C19/exception/{o['exc'].split(':', 1)[0]}",
                what=f"implementation raised {o['exc']}", replay={"case": payload(cases[i]), "impl": o}))
    for i in res["holds"]:
        for s in sigs.get(i) or ["unclassified"]:
            ctx.add_violation(core.Violation(
                signature=f"C19/{s}", what=what_of(s),
                replay={"case": payload(cases[i]), "impl": outs[i], "violated": sigs.get(i, [])}))

    # --- correspondence: inside the guard of the property the implementation must behave as one of the
    # two modelled differ variants.  Outside the guard (equal priorities for one path) nothing is claimed
    # by C19, so agreement there is recorded but does not decide the verdict (a changed tie-break is not
    # a violation of this property).
    outside = set(res["outside_guard"])
    dis_lines = [i for i in res["agree_lines"] if i not in outside]
    dis_exact = [i for i in res["agree_exact"] if i not in outside]
    variant = None
    if not dis_lines:
        variant = "differ_lines (UnifiedFileDiffer compares splitlines() only: shipped code)"
    elif not dis_exact:
        variant = "differ_exact (UnifiedFileDiffer reports content differences hidden by splitlines(): repaired code)"
    else:
        bad = min((dis_lines, dis_exact), key=len)
        i = bad[0]
        ctx.add_violation(core.Violation(
            signature="C19/model-impl-disagree",
            what="Coq model (Model.Files.model, either differ variant) and the implementation differ "
                 f"({len(dis_lines)} cases vs differ_lines, {len(dis_exact)} vs differ_exact); "
                 "correspondence broken and no property violation found among the explored cases",
            replay={"correspondence": "Model.Files.model vs run_file_generators().new_files / "
                                      "PCDeployerJob.parse_result / pc_diff",
                    "case": payload(cases[i]), "impl": outs[i]}, no_input=True))
    ctx.notes.append(f"differ variant matched by the implementation: {variant}")

    # --- generators that do not produce a result (Model/FilesKinds.v, P_C19K)
    kcases = gen_kind_cases(ctx)
    kouts = core.run_impl_sharded("c19_runner.py", [payload(c) for c in kcases])
    kres, ksigs = evaluate_k(kcases, kouts)
    for i in kres["holds"]:
        for s in ksigs.get(i) or ["unclassified"]:
            ctx.add_violation(core.Violation(
                signature=f"C19/{s}", what=what_of(s) + " (some listed generators produce no result for the device)",
                replay={"case": payload(kcases[i]), "impl": kouts[i], "violated": ksigs.get(i, [])}))
    koutside = set(kres["outside_guard"])
    kdis = min(([i for i in kres["agree_lines"] if i not in koutside],
                [i for i in kres["agree_exact"] if i not in koutside]), key=len)
    if kdis and not kres["holds"]:
        i = kdis[0]
        ctx.add_violation(core.Violation(
            signature="C19/model-impl-disagree/kinds",
            what=f"Coq model (Model.FilesKinds.k_model) and the implementation differ on {len(kdis)} cases with "
                 "generators that produce no result; no property violation found among the explored cases",
            replay={"correspondence": "Model.FilesKinds.k_model vs run_file_generators().new_files / "
                                      "PCDeployerJob.parse_result / pc_diff",
                    "case": payload(kcases[i]), "impl": kouts[i]}, no_input=True))
    khist = {"run_failed": sum("exc" in o for o in kouts),
             "winner_is_not_top_listed_prio": 0, "some_generator_silent": 0, "holds_false": len(kres["holds"])}
    for c, o in zip(kcases, kouts):
        silent = [g for g in c["gens"] if g.get("kind", "ok") in SILENT and g["path"]]
        khist["some_generator_silent"] += bool(silent)
        prod = [g for g in c["gens"] if g.get("kind", "ok") in ("ok", "ok_yield")]
        khist["winner_is_not_top_listed_prio"] += any(
            any(h["path"] == g["path"] and h["prio"] < g["prio"] for h in prod) and
            not any(h["path"] == g["path"] and h["prio"] > g["prio"] for h in prod) for g in silent)
    tie_dis = min(len([i for i in res["agree_lines"] if i in outside]),
                  len([i for i in res["agree_exact"] if i in outside]))
    ctx.notes.append(f"outside the guard (equal priorities): model and implementation agree on "
                     f"{len(outside) - tie_dis} of {len(outside)} cases (first listed wins); informational")

    # --- coverage
    seen = set()
    nontrivial = 0
    hist = {"uploaded": 0, "not_uploaded": 0, "exc": 0, "multi_gen_same_path": 0, "holds_false": len(res["holds"])}
    for c, o in zip(cases, outs):
        if "exc" in o:
            hist["exc"] += 1
            continue
        hist["uploaded" if o["deploy"] else "not_uploaded"] += 1
        paths = [g["path"] for g in c["gens"] if g["path"]]
        contested = len(paths) != len(set(paths))
        hist["multi_gen_same_path"] += contested
        h = core.canon_hash(payload(c))
        if h in seen:
            continue
        seen.add(h)
        if contested or (o["deploy"] and len(o["new"]) > len(o["deploy"]["files"])):
            nontrivial += 1
    ctx.coverage.update({
        "evaluations": len(cases) + len(kcases),
        "kinds_evaluations": len(kcases),
        "kinds_outcome_histogram": khist,
        "kinds_disagreements_checked": len(kdis),
        "kinds_cases_outside_guard_wf_C19K": len(koutside),
        "distinct_nontrivial": nontrivial,
        "rule": "distinct by (generators in listing order, device flavour, acl_safe, old map, reload mode); "
                "non-trivial = at least two generators compete for one path, or some planned files are uploaded "
                "and some are not",
        "samples": [{"input": payload(c), "impl": o} for c, o in list(zip(cases, outs))[:3]],
        "traces_validated_against_impl": len(cases) + len(kcases),
        "disagreements_checked": min(len(dis_lines), len(dis_exact)),
        "outcome_histogram": hist,
        "differ_variant": variant,
        "cases_outside_guard_wf_C19": len(res["outside_guard"]),
        "exhaustive": False,
    })
    ctx.assumptions += [
        "deploy driver stub contributes no before/after commands; shipped pc.deploy rulebook (empty) is used",
        "difflib.unified_diff(a, b) is empty iff a == b (only the header of a non-empty diff is modelled)",
        "file contents are ASCII (str.splitlines boundaries \\n \\r \\r\\n \\v \\f \\x1c-\\x1e modelled)",
        "JSON_FRAGMENT generators are outside C19 (none are given)",
        "generator kinds: any exception leaving run_file_generators/parse_result is the outcome 'run failed' (None) "
        "of Model.FilesKinds.k_model, whatever its type",
    ]


def replay(ctx, doc):
    c = doc["replay"]["case"]
    out = core.run_impl("c19_runner.py", [payload(c)])[0]
    print("impl:", out)
    if any(g.get("kind", "ok") != "ok" for g in c["gens"]):
        res, sigs = evaluate_k([c], [out], tag="replay")
        print("holds:", not res["holds"], "violated clauses:", sigs.get(0, []),
              "agrees with differ_lines:", not res["agree_lines"], "differ_exact:", not res["agree_exact"])
        return 1 if res["holds"] else 0
    if "exc" in out:
        return 1
    res, sigs = evaluate([c], [out], tag="replay")
    print("holds:", not res["holds"], "violated clauses:", sigs.get(0, []),
          "agrees with differ_lines:", not res["agree_lines"], "differ_exact:", not res["agree_exact"])
    return 1 if res["holds"] else 0
