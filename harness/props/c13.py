"""C13 — JSON fragments stay inside their pointers; JSON patches reproduce the target (DESIGN §3.C13)."""
from __future__ import annotations

import copy
import itertools
import json

from .. import core
from ..core import cstr, clist, cpair, cZ, copt

ID = "C13"
THEOREM_FILE = "Properties/C13.v"
IMPORTS = "From Annet Require Import Base.Str Model.Json Spec.P_C13 Spec.P_C13_arr Spec.P_C13_sess."
META = {
    "text": "Proof (Coq, unbounded induction over documents and pointer lists) about the model of jsontools.py. "
            "Fragments, regime 1 (one schema, glob pointers address object members; members are added, replaced and "
            "removed): the result agrees with the fragment on every selected path (absent there = removed), every leaf "
            "outside the selection is as in the old document, merging is idempotent, nothing raises. Regime 2 (glob "
            "pointers step into and through ARRAYS, any nesting; guard: every pattern selects the same concrete pointers "
            "— members and indices — in the old document and in the fragment): the same four laws, and the result stays "
            "inside the guard. _resolve_json_pointers = exactly the existing paths the glob selects, for objects and "
            "arrays (str(i) proved injective). apply_acl_filters returns a sub-document for ALL filters (arrays included). "
            "Patches: RFC 6901 print/parse round trip for every key; a recursive object differ written in Gallina is "
            "proved correct for all documents (its patch applied by the model of RFC 6902 gives the target up to member "
            "order), so the hypothesis under which the make_patch/apply_patch round trip is stated for the third-party "
            "differ is satisfiable and the round trip is unconditional for the verified differ; every reordering policy "
            "that puts two operations into path order breaks a correct patch (sorted-by-path refuted for all tie-breaks), "
            "for arrays of every length. Correspondence: Coq evaluates model==implementation and the property predicates "
            "on the real outputs of apply_json_fragment, make_patch, apply_patch, apply_acl_filters over random one-schema "
            "documents (keys with / ~ | * ? [ ]), a glob-twin family (a key spelled like the pattern next to keys the "
            "glob matches), exhaustive small scopes for objects and for arrays, and applies the REAL library's diff with "
            "the MODEL's apply_ops case by case. "
            "API sequence and purity (Spec/P_C13_sess.v): for every implementation that returns what the model returns "
            "AND leaves its arguments alone, merge -> make_patch(the same old, result) -> apply_patch(original old) gives "
            "the merged document (C13_session_roundtrip_partial under the hypothesis on the third-party differ, "
            "C13_session_roundtrip_verified_differ / C13_session_holds with the verified differ, any number of chained "
            "generators); the purity clause is proved necessary (C13_session_needs_purity: an implementation with the "
            "model's return value for every input that leaves the result in `old` uploads an empty patch). TESTED on the "
            "real code: sessions on ONE old object - chained apply_json_fragment (1-3 generators; fragments drawn from the "
            "schema, pure removals, no-ops; an exhaustive scope), make_patch(old object, result), apply_patch(serialised "
            "ORIGINAL old, patch) - with Coq evaluating P_C13_session (old still has its value + the existing round-trip "
            "predicate on the real patch) and model==implementation on every intermediate document; and for EVERY call "
            "of the four entry points in every case a flag 'mutated' COMPUTED BY THE RUNNER (not by Coq): the serialised "
            "text (key order, bool/int, container kinds) of each object handed to the function, taken before, equals its "
            "text afterwards.",
    "technique": "Coq induction with pointwise get/put/replace/delete lemmas on association-list documents; section "
                 "hypothesis for jsonpatch's diff plus a verified Gallina differ discharging it; vm_compute differential "
                 "check against the implementation",
    "note": "Partial: (1) fragment laws are proved in two regimes (objects only with add/remove; arrays with replace only); "
            "the mixed regime — members added/removed by the last pointer step below an array — holds on the real code in "
            "the exhaustive array scope but is only correspondence-tested; outside these the real code fails in exactly "
            "three ways, each a listed finding with a machine-checked witness replayed on the real code (index or member "
            "missing raises; array elements not removed; fragment array materialised as an object keyed by indices). "
            "(2) The round trip through the THIRD-PARTY jsonpatch differ still rests on the Section hypothesis (checked "
            "case by case by applying the library's operations with the model; jsonpatch 1.33 itself fails on rare "
            "array/move inputs — listed finding); what is proved unconditionally concerns the Gallina differ, which "
            "treats arrays as leaves. Theorems are about the Gallina model; the model is tied to /repo by the "
            "correspondence run (0 disagreements). "
            "(3) Purity of the Python functions (arguments left as they were) is not a statement about the Gallina model "
            "(pure by construction): it is the explicit premise `leaves_inputs` of the session theorems, observed on the "
            "real code by the runner's 'mutated' flag (a plain equality of two real values) and by P_C13_session.",
}

PLAIN = ["a", "b", "c", "d", "x1", "0", "1"]
SPECIAL = ["e/f", "g~h", "i|j", "k*", "~1m", "n/~0", "[p]", "q?", "a ", " b", "c\t", "x1 "]      # incl. keys that differ from a plain key only by edge white space


# ----------------------------------------------------------------------------------------
# printers

def cj(x) -> str:
    if x is None:
        return "JNull"
    if x is True:
        return "(JBool true)"
    if x is False:
        return "(JBool false)"
    if isinstance(x, int):
        return f"(JNum {cZ(x)})"
    if isinstance(x, str):
        return f"(JStr {cstr(x)})"
    if isinstance(x, list):
        return "(JArr " + clist(cj(v) for v in x) + ")"
    if isinstance(x, dict):
        return "(JObj " + clist(cpair(cstr(k), cj(v)) for k, v in x.items()) + ")"
    raise core.CheckFailure(f"not a JSON value of the modelled domain: {x!r}")


def cout(o: dict) -> str:
    return copt(cj(o["ok"])) if "ok" in o else "None"


def cop(o: dict) -> str:
    k = o.get("op")
    if k == "add":
        return f"(OpAdd {cstr(o['path'])} {cj(o['value'])})"
    if k == "remove":
        return f"(OpRemove {cstr(o['path'])})"
    if k == "replace":
        return f"(OpReplace {cstr(o['path'])} {cj(o['value'])})"
    if k == "move":
        return f"(OpMove {cstr(o['from'])} {cstr(o['path'])})"
    if k == "copy":
        return f"(OpCopy {cstr(o['from'])} {cstr(o['path'])})"
    if k == "test":
        return f"(OpTest {cstr(o['path'])} {cj(o['value'])})"
    raise core.CheckFailure(f"unexpected patch operation {o!r}")


def cops(ops) -> str:
    return clist(cop(o) for o in ops)


# ----------------------------------------------------------------------------------------
# generators: one random schema per case, every document of the case drawn from it

def gen_schema(rng, depth, special_p):
    r = rng.random()
    if depth >= 3 or (depth > 0 and r < 0.32):
        return (rng.choice(["int", "int", "str", "bool", "null"]),)
    if depth > 0 and r < 0.5:
        return ("arr", gen_schema(rng, depth + 1, special_p))
    n = rng.randint(1, 4)
    keys = []
    while len(keys) < n:
        k = rng.choice(SPECIAL) if rng.random() < special_p else rng.choice(PLAIN)
        if k not in keys:
            keys.append(k)
    return ("obj", {k: gen_schema(rng, depth + 1, special_p) for k in keys})


def inst(rng, s, keep=0.75):
    t = s[0]
    if t == "int":
        return rng.randint(0, 3)
    if t == "str":
        return rng.choice(["x", "y", "up", ""])
    if t == "bool":
        return rng.random() < 0.5
    if t == "null":
        return None
    if t == "arr":
        return [inst(rng, s[1], keep) for _ in range(rng.randint(0, 3))]
    ks = list(s[1])
    if rng.random() < 0.3:
        rng.shuffle(ks)
    return {k: inst(rng, s[1][k], keep) for k in ks if rng.random() < keep}


def mutate(rng, s, d):
    """a document of the same schema close to d"""
    t = s[0]
    if t == "arr":
        d = list(d)
        for _ in range(rng.randint(0, 2)):
            m = rng.random()
            if m < 0.35 and d:
                del d[rng.randrange(len(d))]
            elif m < 0.7:
                d.insert(rng.randint(0, len(d)), inst(rng, s[1]))
            elif len(d) >= 2:
                i, j = rng.sample(range(len(d)), 2)
                d[i], d[j] = d[j], d[i]
        return [mutate(rng, s[1], x) if rng.random() < 0.3 else x for x in d]
    if t == "obj":
        out = {}
        for k, sub in s[1].items():
            if k in d:
                if rng.random() < 0.15:
                    continue
                out[k] = mutate(rng, sub, d[k]) if rng.random() < 0.6 else d[k]
            elif rng.random() < 0.25:
                out[k] = inst(rng, sub)
        return out
    return inst(rng, s) if rng.random() < 0.4 else d


def glob_lit(k: str) -> str:
    return k.replace("[", "[[]").replace("*", "[*]").replace("?", "[?]")


def ptr_esc(s: str) -> str:
    return s.replace("~", "~0").replace("/", "~1")


def part_for(rng, k: str) -> str:
    r = rng.random()
    if r < 0.55:
        return ptr_esc(glob_lit(k))
    if r < 0.72:
        return "*"
    if r < 0.82 and k:
        return ptr_esc(glob_lit(k[0])) + "*"
    if r < 0.87 and k:
        return "?" * len(k)
    if r < 0.92 and k and k[0].isalnum():
        return "[" + k[0] + ("-" + chr(ord(k[0]) + 1) if rng.random() < 0.5 else "") + "]" + ptr_esc(glob_lit(k[1:]))
    if r < 0.95 and k and k[0].isalnum():
        return "[!" + k[0] + "]*"
    return ptr_esc(k)          # glob metacharacters of the key left unescaped


def gen_pattern(rng, s, mode):
    """mode 'objects': steps only through objects; 'any': may step into arrays / strings / past leaves"""
    parts = []
    cur = s
    while True:
        t = cur[0]
        if t == "obj":
            if parts and rng.random() < 0.3:
                break
            ks = list(cur[1])
            k = rng.choice(ks) if rng.random() < 0.93 else "zz"
            parts.append(part_for(rng, k))
            if k not in cur[1]:
                break
            cur = cur[1][k]
        elif t == "arr":
            if mode == "objects" or rng.random() < 0.4:
                break
            parts.append(rng.choice(["*", "0", "1", "?"]))
            cur = cur[1]
        else:
            if mode == "any" and rng.random() < 0.35:
                parts.append(rng.choice(["*", "0", "a"]))
            break
    if not parts:
        parts = ["*"]
    return "/" + "/".join(parts)


def gen_acl(rng, s, mode):
    acl = [gen_pattern(rng, s, mode) for _ in range(rng.choice([1, 1, 2, 2, 3]))]
    if mode == "any" and rng.random() < 0.08:
        acl[rng.randrange(len(acl))] = rng.choice(["a/b", "/a~2", "", "/", "/*/"])
    return acl


def break_schema(rng, s, d):
    """near miss: put a scalar/null where the schema has an object"""
    if isinstance(d, dict) and d:
        k = rng.choice(list(d))
        d = dict(d)
        if isinstance(d[k], dict) and rng.random() < 0.5:
            d[k] = break_schema(rng, s, d[k])
        else:
            d[k] = rng.choice([None, 7, "s", [1]])
    return d


# glob-twin family: a table holds a key that is spelled exactly like the (unescaped) pattern part — a key with
# the glob characters * ? [ ] in it — next to other keys the same glob matches; the pattern part must be
# read as a glob (fnmatch over every key), never as "this key"
GLOB_TWINS = [
    ("Vlan10|*", ["Vlan10|Ethernet0", "Vlan10|Ethernet4", "Vlan10|"], ["Vlan20|Ethernet0", "Vlan1"]),
    ("a*", ["a1", "ab", "a", "a*b"], ["b", "ba"]),
    ("e?", ["e1", "ef", "e*"], ["e", "e12", "f1"]),
    ("x[12]", ["x1", "x2"], ["x3", "x", "x[12]x"]),
    ("[ab]c", ["ac", "bc"], ["cc", "abc"]),
    ("p[!0]", ["p1", "pz", "p["], ["p0", "p"]),
    ("*", ["a", "b/c", "~d", ""], []),
    ("?", ["a", "1", "*"], ["ab", ""]),
    ("k*|?", ["k|1", "kk|x", "k*|*"], ["k|", "k1"]),
    ("[*]", ["*"], ["a", "[]"]),
    ("n/*", ["n/1", "n/~0", "n/"], ["n", "m/1"]),
    ("[", [], ["a", "[["]),
    ("a]*", ["a]", "a]b"], ["a", "ab"]),
]


def gen_glob_twin(rng, kind):
    g, matching, others = rng.choice(GLOB_TWINS)
    tail = rng.choice([None, None, "x", "*"])
    leaf_schema = ("obj", {"x": ("int",), "keep": ("int",)}) if tail else rng.choice([("int",), ("obj", {"x": ("int",)})])
    keys = [g] + list(matching) + list(others)

    def table(p_glob, keep):
        ks = [k for k in keys if (k == g and rng.random() < p_glob) or (k != g and rng.random() < keep)]
        if rng.random() < 0.5:
            rng.shuffle(ks)
        return {k: inst(rng, leaf_schema, 0.8) for k in ks}

    depth = rng.choice([0, 1, 1])
    wrap = (lambda t: {"T": t, "PORT": {"e0": 1}}) if depth else (lambda t: t)
    pat = ("/T" if depth else "") + "/" + ptr_esc(g) + ("/" + tail if tail else "")
    if kind == "frag":
        # the twin key mostly on one side only: the two resolutions of the same pattern must still agree
        pg_old, pg_f = rng.choice([(0.0, 1.0), (1.0, 0.0), (1.0, 1.0), (0.5, 0.5)])
        old, f = wrap(table(pg_old, 0.7)), wrap(table(pg_f, 0.6))
        acl = [pat]
        if rng.random() < 0.25:
            acl.insert(rng.randint(0, 1), rng.choice(["/PORT", "/T/zz", ("/T" if depth else "") + "/" + ptr_esc(glob_lit(g))]))
        return {"kind": "frag", "old": old, "f": f, "acl": acl, "src": "glob-twin"}
    d = wrap(table(0.9, 0.8))
    fl = [pat]
    if rng.random() < 0.25:
        fl.append(("/T" if depth else "") + "/" + ptr_esc(glob_lit(g)))
    return {"kind": "filter", "d": d, "filters": fl, "src": "glob-twin"}


EXH_DOCS_A = [None, {}, {"x": 1}, {"x": 2, "y": 1}, {"y": 1, "x": 1}]
EXH_DOCS_B = [None, 1, 2]
EXH_ACLS = [["/a"], ["/a/x"], ["/a/*"], ["/*"], ["/b~1c"], ["/a/x", "/b~1c"], ["/a/y", "/a"], ["/*/x"]]


def exhaustive_frag(thorough):
    docs = []
    for a in EXH_DOCS_A:
        for b in EXH_DOCS_B:
            d = {}
            if a is not None:
                d["a"] = a
            if b is not None:
                d["b/c"] = b
            docs.append(d)
    acls = EXH_ACLS if thorough else EXH_ACLS[:6]
    for old in docs:
        for f in docs:
            for acl in acls:
                yield {"kind": "frag", "old": old, "f": f, "acl": acl, "src": "exhaustive"}


# exhaustive small scope for pointers that step into / through arrays: every (old, fragment) over a few
# array-valued members x pointer lists
ARR_DOCS = [None, [], [1], [1, 2], [{"x": 1}], [{"x": 1}, {"x": 2}], [{"x": 1, "y": 1}], [{}, {"x": 3}],
            [2, 1, 3], [{"y": 1}], [[1], [2, 3]], [None]]
ARR_ACLS = [["/a/*"], ["/a/0"], ["/a/*/x"], ["/a/1"], ["/*/*"], ["/a/*", "/a/*/x"], ["/a/[0-1]"], ["/a/0/x"],
            ["/a/*/*"], ["/a"], ["/a/-"]]


def exhaustive_arrays(thorough):
    docs = ARR_DOCS if thorough else ARR_DOCS[:8]
    acls = ARR_ACLS if thorough else ARR_ACLS[:6]
    for o in docs:
        for f in docs:
            for acl in acls:
                old, fr = {"b": 1}, {}
                if o is not None:
                    old["a"] = copy.deepcopy(o)
                if f is not None:
                    fr["a"] = copy.deepcopy(f)
                yield {"kind": "frag", "old": old, "f": fr, "acl": list(acl), "src": "exhaustive-arrays"}


# ----------------------------------------------------------------------------------------
# sessions: the operation sequence the API performs on ONE old object (runner kind "session"):
# chained apply_json_fragment over one document, make_patch(old object, result), apply_patch on the
# serialised ORIGINAL old.  Fragment flavours: drawn from the schema / the old document with members taken
# away (a generator that stopped producing entries: pure removals) / the old document itself (nothing to do).

def prune(rng, d, p, depth=0):
    """a copy of d with members taken away (below the top level mostly): what a fragment looks like when the
    generator stopped producing some entries"""
    if isinstance(d, dict):
        out = {}
        for k, v in d.items():
            if rng.random() < (p if depth else p / 3):
                continue
            out[k] = prune(rng, v, p, depth + 1)
        return out
    return copy.deepcopy(d)


def gen_session(rng):
    s = gen_schema(rng, 0, rng.choice([0.0, 0.25, 0.5]))
    mode = "objects" if rng.random() < 0.85 else "any"
    old = inst(rng, s, keep=0.85)
    steps = []
    flav = []
    cur = old
    for _ in range(rng.choice([1, 1, 1, 2, 2, 3])):
        r = rng.random()
        if r < 0.4:
            f, fl = inst(rng, s, keep=rng.choice([0.4, 0.6, 0.9])), "random"
        elif r < 0.85:
            f, fl = prune(rng, cur, rng.choice([0.3, 0.6, 1.0])), "removal"
        else:
            f, fl = copy.deepcopy(cur), "same"
        steps.append([f, gen_acl(rng, s, mode)])
        flav.append(fl)
        cur = f if fl != "random" else cur
    return {"kind": "session", "old": old, "steps": steps, "src": "session-" + "+".join(sorted(set(flav)))}


SESS_EXH_ACLS = [["/a/*"], ["/*/x"], ["/a/x"], ["/a/y", "/a"], ["/*"], ["/a/x", "/b~1c"]]


def exhaustive_sessions(thorough):
    """every (old, fragment) over the 15 documents of the exhaustive fragment scope as a one-step session,
    and every pair of fragments as a two-step chain for the first pointer list"""
    docs = []
    for a in EXH_DOCS_A:
        for b in EXH_DOCS_B:
            d = {}
            if a is not None:
                d["a"] = a
            if b is not None:
                d["b/c"] = b
            docs.append(d)
    acls = SESS_EXH_ACLS if thorough else SESS_EXH_ACLS[:2]
    for old in docs:
        for f in docs:
            for acl in acls:
                yield {"kind": "session", "old": old, "steps": [[f, acl]], "src": "session-exhaustive"}
    if thorough:
        for old in docs[::2]:
            for f in docs[::2]:
                for g in docs[1::3]:
                    yield {"kind": "session", "old": old, "steps": [[f, ["/a/*"]], [g, ["/*/x"]]],
                           "src": "session-exhaustive"}


def gen_sessions(ctx):
    T = ctx.thorough
    rng = ctx.rng("session")               # own stream: the older families keep their inputs
    out = list(exhaustive_sessions(T))
    n_exh = len(out)
    n_rand, n_twin = (5000, 600) if T else (450, 90)
    for _ in range(n_rand):
        out.append(gen_session(rng))
    for _ in range(n_twin):
        c = gen_glob_twin(rng, "frag")
        out.append({"kind": "session", "old": c["old"], "steps": [[c["f"], c["acl"]]], "src": "session-glob-twin"})
    ctx.coverage.setdefault("input_distribution", {}).update({
        "sessions_exhaustive_scope": n_exh, "sessions_random": n_rand, "sessions_glob_twin": n_twin,
        "session": "chained apply_json_fragment (1-3 generators) on ONE old object, make_patch(old object, result), "
                   "apply_patch(serialised original old, patch)"})
    return out


def gen_cases(ctx):
    rng = ctx.rng("gen")
    T = ctx.thorough
    cases = []
    # behaviour probes: which shape of the three repairable places does the tree have
    cases += [dict(p) for p in PROBES]
    cases += list(exhaustive_frag(T))
    n_exh = len(cases) - 3
    n_frag, n_filter, n_patch, n_apply = (9000, 4000, 8000, 3000) if T else (900, 400, 900, 300)
    for _ in range(n_frag):
        s = gen_schema(rng, 0, rng.choice([0.0, 0.25, 0.5]))
        mode = "objects" if rng.random() < 0.72 else "any"
        old = {} if rng.random() < 0.08 else inst(rng, s)
        f = inst(rng, s, keep=rng.choice([0.4, 0.6, 0.9]))
        src = "random-" + mode
        if rng.random() < 0.05:
            f = break_schema(rng, s, f)
            src = "near-miss-schema"
        cases.append({"kind": "frag", "old": old, "f": f, "acl": gen_acl(rng, s, mode), "src": src})
    for _ in range(n_filter):
        s = gen_schema(rng, 0, rng.choice([0.0, 0.3]))
        d = inst(rng, s, keep=0.85)
        fl = [gen_pattern(rng, s, "any" if rng.random() < 0.5 else "objects") for _ in range(rng.randint(0, 3))]
        fl = [rng.choice(["", " ", "\t"]) + x + rng.choice(["", " ", "\n"]) if rng.random() < 0.2 else x for x in fl]
        if rng.random() < 0.1:
            fl.insert(rng.randint(0, len(fl)), rng.choice(["", "  "]))
        if rng.random() < 0.04:
            fl.append(rng.choice(["a/b", "/a~2"]))
        cases.append({"kind": "filter", "d": d, "filters": fl, "src": "random"})
    for _ in range(n_patch):
        s = gen_schema(rng, 0, rng.choice([0.0, 0.3]))
        old = inst(rng, s)
        new = mutate(rng, s, old) if rng.random() < 0.6 else inst(rng, s)
        cases.append({"kind": "patch", "old": old, "new": new, "src": "random"})
    for _ in range(n_apply):
        s = gen_schema(rng, 0, rng.choice([0.0, 0.3]))
        doc = inst(rng, s)
        cases.append({"kind": "apply", "doc": doc, "ops": None, "schema_docs": [inst(rng, s), mutate(rng, s, doc)],
                      "src": "random"})
    n_twin = 1500 if T else 260
    rng_twin = ctx.rng("glob-twin")          # own stream: the older families keep their inputs
    for j in range(n_twin):
        cases.append(gen_glob_twin(rng_twin, "frag" if j % 3 else "filter"))
    arr = list(exhaustive_arrays(T))
    cases += arr
    ctx.coverage["input_distribution"] = {
        "exhaustive_fragment_scope": n_exh, "fragment_random": n_frag, "filter_random": n_filter,
        "patch_pairs_random": n_patch, "raw_apply_random": n_apply,
        "glob_twin_family": n_twin, "exhaustive_array_scope": len(arr),
        "exhaustive_scope": "all (old, f) over 15 documents of the schema {a:{x,y}, 'b/c'} x %d pointer lists"
                            % (len(EXH_ACLS) if T else 6)}
    cases += gen_sessions(ctx)
    return cases


def all_paths(d, pre=""):
    out = [pre]
    if isinstance(d, dict):
        for k, v in d.items():
            out += all_paths(v, pre + "/" + ptr_esc(k))
    elif isinstance(d, list):
        for i, v in enumerate(d):
            out += all_paths(v, pre + "/" + str(i))
    return out


def fill_apply_ops(ctx, cases):
    """raw op lists for the apply_patch stream: permuted/truncated library diffs and hand-made ops"""
    import jsonpatch  # the harness interpreter has it only if /venv is used; fall back to hand-made ops
    rng = ctx.rng("ops")
    for c in cases:
        if c["kind"] != "apply":
            continue
        doc = c["doc"]
        other = rng.choice(c.pop("schema_docs"))
        try:
            ops = [dict(o) for o in jsonpatch.make_patch(copy.deepcopy(doc), copy.deepcopy(other)).patch]
        except TypeError:
            # jsonpatch 1.33 itself raises on some pairs (a dict key and a list index compared while it
            # optimises remove/add into move); this stream only needs SOME operation list
            ops = []
            ctx.coverage["raw_apply_library_diff_raised"] = ctx.coverage.get("raw_apply_library_diff_raised", 0) + 1
        m = rng.random()
        if m < 0.3:
            rng.shuffle(ops)
        elif m < 0.45 and ops:
            del ops[rng.randrange(len(ops))]
        paths = all_paths(doc)
        for _ in range(rng.choice([0, 0, 1, 2])):
            p, q = rng.choice(paths), rng.choice(paths)
            k = rng.random()
            if k < 0.25:
                o = {"op": "copy", "from": p, "path": q + rng.choice(["", "/nk", "/0", "/-"])}
            elif k < 0.45:
                # not 1 / 0: Python's True == 1, the model's jeq keeps bool and int apart (documented limitation)
                o = {"op": "test", "path": p, "value": rng.choice([2, "x", None, {}])}
            elif k < 0.6:
                o = {"op": "move", "from": p, "path": q + rng.choice(["", "/nk", "/0"])}
            elif k < 0.75:
                o = {"op": "remove", "path": p}
            elif k < 0.9:
                o = {"op": "add", "path": q + rng.choice(["/nk", "/0", "/1", "/-", ""]), "value": rng.choice([5, {"z": 1}, [0]])}
            else:
                o = {"op": "replace", "path": p, "value": rng.choice([9, {"z": 1}])}
            ops.insert(rng.randint(0, len(ops)), o)
        c["ops"] = ops


# ----------------------------------------------------------------------------------------

def runner_payload(c):
    return {k: v for k, v in c.items() if k not in ("src",)}


def variant_of(cases, outs):
    """Read the three probes: the model is instantiated with the shape the tree has."""
    by = {c["src"]: o for c, o in zip(cases[:3], outs[:3])}
    esc = by["probe-esc"]["r"] == {"ok": {"a/b": 1}}
    strseq = by["probe-strseq"]["r"] != {"ok": {}}
    p = by["probe-sorted"]
    lib = p["lib"].get("ok")
    got = p["patch"].get("ok")
    if lib is None or got is None:
        raise core.CheckFailure(f"make_patch probe failed: {p}")
    srt = sorted(lib, key=lambda o: o["path"])
    if got == lib and got != srt:
        sorted_ = False
    elif got == srt:
        sorted_ = True
    else:
        sorted_ = False        # neither shape: the model will disagree and the round trip decides
    return {"v_esc": esc, "v_strseq": strseq, "v_sorted": sorted_}


def vdef(v):
    b = lambda x: "true" if x else "false"
    return ("Definition V : variant := {| v_esc := %s; v_strseq := %s; v_sorted := %s |}."
            % (b(v["v_esc"]), b(v["v_strseq"]), b(v["v_sorted"])))


FRAG_TY = "frag_in * frag_out"
FILTER_TY = "(json * list string) * option json"
PATCH_TY = "(json * json) * (option (list op) * option (list op) * option json)"
APPLY_TY = "(json * list op) * option json"

FRAG_AGREE = ("fun c => let '(old, f, acl) := fst c in ojeq (apply_fragment V old f acl) (fst (snd c)) && "
              "match fst (snd c) with Some r => ojeq (apply_fragment V r f acl) (snd (snd c)) | None => true end")
FRAG_PREDS = {"agree": FRAG_AGREE, "holds": "fun c => P_C13_frag (fst c) (snd c)",
              # container kinds on the way to a selected path (Spec/P_C13_arr.v): a fragment array must not
              # come back as an object keyed by "0", "1", ...
              "kinds": "fun c => P_kinds (fst c) (snd c)",
              # counting only (false = the case is inside the replace-only guard AND some pattern steps into an array)
              "count_arr_replace": "fun c => let '(old, f, acl) := fst c in negb (in_replace_guard (fst c) && "
                                   "match parse_acl acl with Some pats => steps_into_array pats old || "
                                   "steps_into_array pats f | None => false end)"}
FRAG_CLASS = {
    "noerr": "fun c => P_noerr (fst c) (snd c)", "inside": "fun c => P_inside (fst c) (snd c)",
    "outside": "fun c => P_outside (fst c) (snd c)", "idem": "fun c => P_idem (fst c) (snd c)",
    "objects_only": "fun c => let '(old, f, acl) := fst c in match parse_acl acl with Some pats => "
                    "forallb (fun pat => objects_only pat old && objects_only pat f) pats | None => true end",
    # guard of the replace-only theorems (C13_arr_*): every pattern selects the same pointers in old and f
    "replace_guard": "fun c => in_replace_guard (fst c)",
    "kinds": "fun c => P_kinds (fst c) (snd c)",
}
FILTER_PREDS = {"agree": "fun c => ojeq (apply_acl_filters V (fst (fst c)) (snd (fst c))) (snd c)",
                "holds": "fun c => P_C13_filter (fst c) (snd c)"}
PATCH_PREDS = {
    "agree": "fun c => let '(lib, p, applied) := snd c in match lib, p with "
             "| Some l, Some ops => ops_eqb (make_patch_of V l) ops && ojeq (apply_ops ops (fst (fst c))) applied "
             "| None, None => true "          # the library's diff raised and annet's make_patch propagated it
             "| _, _ => false end",
    "holds": "fun c => let '(lib, p, applied) := snd c in P_C13_patch (fst c) applied",
    "lib_ok": "fun c => let '(lib, p, applied) := snd c in match lib with "
              "| Some l => ojeq (apply_ops l (fst (fst c))) (Some (snd (fst c))) | None => false end",
}
APPLY_PREDS = {"agree": "fun c => ojeq (apply_ops (snd (fst c)) (fst (fst c))) (snd c)"}


SESS_TY = "sess_in * sess_out"
SESS_PREDS = {"agree": "fun c => sess_agree V (fst c) (snd c)",
              "holds": "fun c => P_C13_session (fst c) (snd c)",
              "old_kept": "fun c => P_sess_old_kept (fst c) (snd c)",
              "lib_ok": "fun c => sess_lib_ok (fst c) (snd c)"}


def sess_term(c, o):
    x = cpair(cj(c["old"]), clist(cpair(cj(f), clist(cstr(a) for a in acl)) for f, acl in c["steps"]))
    y = cpair(clist(cout(d) for d in o["docs"]), oops(o["lib"]), oops(o["patch"]), cout(o["applied"]),
              cout(o["old_after"]))
    return cpair(x, y)


def arg_class(name):
    """'fragment[1]' -> 'fragment', 'result[0]' -> 'earlier-result', 'old(2nd merge)' -> 'old'"""
    base = name.split("[")[0].split("(")[0]
    return {"result": "earlier-result"}.get(base, base)


def frag_term(c, o):
    x = cpair(cj(c["old"]), cj(c["f"]), clist(cstr(a) for a in c["acl"]))
    return cpair(x, cpair(cout(o["r"]), cout(o["rr"])))


def filter_term(c, o):
    return cpair(cpair(cj(c["d"]), clist(cstr(a) for a in c["filters"])), cout(o["r"]))


def oops(o):
    return copt(cops(o["ok"])) if "ok" in o else "None"


def patch_term(c, o):
    return cpair(cpair(cj(c["old"]), cj(c["new"])), cpair(oops(o["lib"]), oops(o["patch"]), cout(o["applied"])))


def apply_term(c, o):
    return cpair(cpair(cj(c["doc"]), cops(c["ops"])), cout(o["r"]))


def has_special_keys(*docs):
    def keys(d):
        if isinstance(d, dict):
            for k, v in d.items():
                yield k
                yield from keys(v)
        elif isinstance(d, list):
            for v in d:
                yield from keys(v)
    return any("/" in k or "~" in k for d in docs for k in keys(d))


def has_strings(*docs):
    def go(d):
        if isinstance(d, str):
            return d != ""
        if isinstance(d, dict):
            return any(go(v) for v in d.values())
        if isinstance(d, list):
            return any(go(v) for v in d)
        return False
    return any(go(d) for d in docs)


def steps_into_str(pats, *docs):
    """labelling only: does some pattern reach a non-empty str with parts left"""
    import fnmatch

    def go(parts, d):
        if not parts:
            return False
        if isinstance(d, str):
            return d != ""
        if isinstance(d, dict):
            return any(go(parts[1:], v) for k, v in d.items() if fnmatch.fnmatchcase(k, parts[0]))
        if isinstance(d, list):
            return any(go(parts[1:], v) for i, v in enumerate(d) if fnmatch.fnmatchcase(str(i), parts[0]))
        return False
    for p in pats:
        p = p.strip()
        if not p.startswith("/"):
            continue
        parts = [x.replace("~1", "/").replace("~0", "~") for x in p.split("/")[1:]]
        if any(go(parts, d) for d in docs):
            return True
    return False


def size(c):
    return len(json.dumps(runner_payload(c)))


def evaluate(ctx, cases, outs, v, tag=""):
    """Coq evaluates agree/holds for every kind; returns list of (index, signature, what)."""
    extra = vdef(v)
    idx = {k: [i for i, c in enumerate(cases) if c["kind"] == k]
           for k in ("frag", "filter", "patch", "apply", "session")}
    viol, disagree = [], []
    # purity: an object handed to one of the four entry points no longer serialises to the text it had (flag
    # computed by the runner on the real objects: equality of two real values, no model involved)
    for i, (c, o) in enumerate(zip(cases, outs)):
        for fn, arg in o.get("mutated", []):
            viol.append((i, f"C13/purity/{fn}-modifies-its-argument-{arg_class(arg)}",
                         f"{fn} changed the object passed as `{arg}` (inputs must be left as they were: the caller "
                         f"goes on using them, e.g. make_patch(old, new) after apply_json_fragment(old, ...)): "
                         f"case={json.dumps(runner_payload(c))} -> {json.dumps({k: v for k, v in o.items() if k != 'mutated'})}"))

    def run(kind, ty, preds, term, t):
        ii = idx[kind]
        if not ii:
            return {l: [] for l in preds}
        res = core.run_case_files(ID, ty, IMPORTS, preds, [term(cases[i], outs[i]) for i in ii],
                                  per_file=250, tag=t + tag, extra_defs=extra)
        return {l: [ii[j] for j in js] for l, js in res.items()}

    # fragments
    r = run("frag", FRAG_TY, FRAG_PREDS, frag_term, "frag")
    disagree += r["agree"]
    ctx.coverage["fragment_cases_in_array_replace_guard"] = (
        ctx.coverage.get("fragment_cases_in_array_replace_guard", 0) + len(r["count_arr_replace"]))
    bad = sorted(set(r["holds"]) | set(r["kinds"]))
    if bad:
        rc = core.run_case_files(ID, FRAG_TY, IMPORTS, FRAG_CLASS, [frag_term(cases[i], outs[i]) for i in bad],
                                 per_file=250, tag="fragclass" + tag, extra_defs=extra)
        for j, i in enumerate(bad):
            c = cases[i]
            failed = [l for l in ("noerr", "inside", "outside", "idem", "kinds") if j in rc[l]]
            if "" in c["acl"]:
                cls = "root-pointer"
            elif j in rc["objects_only"]:
                # some pattern steps into an array.  Inside the guard of the replace-only theorems nothing may
                # fail (that class is not a listed finding); outside it the failing clause names the sub-class,
                # and only the three behaviours reproduced on the real code are listed findings.
                if j not in rc["replace_guard"]:
                    cls = "pattern-steps-into-array/inside-replace-guard"
                elif "noerr" in failed:
                    cls = "pattern-steps-into-array/index-or-member-missing-raises"
                elif "inside" in failed and "outside" not in failed and "idem" not in failed:
                    cls = "pattern-steps-into-array/elements-not-removed"
                elif "kinds" in failed and set(failed) <= {"kinds", "outside"}:
                    # the array of the fragment comes back as an object keyed "0","1": old lacks the member, or
                    # holds null there (then the member itself, which lies outside the pointer, changes kind too)
                    cls = "pattern-steps-into-array/array-becomes-object"
                else:
                    cls = "pattern-steps-into-array/other"
            elif has_special_keys(c["old"], c["f"]) and not v["v_esc"]:
                cls = "key-with-slash-or-tilde"
            elif v["v_strseq"] and steps_into_str(c["acl"], c["old"], c["f"]):
                cls = "pattern-steps-into-string"
            else:
                cls = "objects-only-plain"
            viol.append((i, f"C13/fragment/{cls}",
                         f"apply_json_fragment violates {'+'.join(failed)} ({cls}): old={json.dumps(c['old'])} "
                         f"fragment={json.dumps(c['f'])} acl={json.dumps(c['acl'])} -> {json.dumps(outs[i]['r'])}"))
    # filters
    r = run("filter", FILTER_TY, FILTER_PREDS, filter_term, "filter")
    disagree += r["agree"]
    for i in r["holds"]:
        c = cases[i]
        raised = "exc" in outs[i]["r"]
        if has_special_keys(c["d"]) and not v["v_esc"]:
            cls = "key-with-slash-or-tilde"
        elif v["v_strseq"] and steps_into_str(c["filters"], c["d"]):
            cls = "pattern-steps-into-string"
        elif raised:
            cls = "raises-" + outs[i]["r"]["exc"]
        else:
            cls = "not-a-subdocument"
        viol.append((i, f"C13/filter/{cls}",
                     f"apply_acl_filters({json.dumps(c['d'])}, {json.dumps(c['filters'])}) -> "
                     f"{json.dumps(outs[i]['r'])} is not a sub-document ({cls})"))
    # patches
    r = run("patch", PATCH_TY, PATCH_PREDS, patch_term, "patch")
    disagree += r["agree"]
    lib_bad = set(r["lib_ok"])
    for i in r["holds"]:
        c = cases[i]
        if "exc" in outs[i]["lib"]:
            viol.append((i, "C13/patch/jsonpatch-make_patch-raises",
                         f"third-party jsonpatch.make_patch({json.dumps(c['old'])}, {json.dumps(c['new'])}) raises "
                         f"{outs[i]['lib']['exc']} (so does annet's make_patch: {json.dumps(outs[i]['patch'])})"))
        elif i in lib_bad:
            viol.append((i, "C13/patch/jsonpatch-diff-does-not-reproduce-target",
                         f"third-party jsonpatch.make_patch({json.dumps(c['old'])}, {json.dumps(c['new'])}) applied in "
                         f"its own order does not give the target: ops={json.dumps(outs[i]['lib'])}"))
        else:
            viol.append((i, "C13/patch/make_patch-operation-order",
                         f"apply_patch(old, make_patch(old,new)) != new although the library's operation order works: "
                         f"old={json.dumps(c['old'])} new={json.dumps(c['new'])} patch={json.dumps(outs[i]['patch'])} "
                         f"applied={json.dumps(outs[i]['applied'])}"))
    ctx.coverage.setdefault("library_hypothesis_failures", 0)
    ctx.coverage["library_hypothesis_failures"] += len(lib_bad)
    r = run("apply", APPLY_TY, APPLY_PREDS, apply_term, "apply")
    disagree += r["agree"]
    # sessions: one old object through merge(s) -> make_patch -> apply_patch on the serialised original
    r = run("session", SESS_TY, SESS_PREDS, sess_term, "sess")
    disagree += r["agree"]
    lib_bad = set(r["lib_ok"])
    ctx.coverage["library_hypothesis_failures"] += len(lib_bad)
    for i in r["holds"]:
        c, o = cases[i], outs[i]
        desc = (f"old={json.dumps(c['old'])} steps={json.dumps(c['steps'])} -> docs={json.dumps(o['docs'])} "
                f"patch={json.dumps(o['patch'])} applied-to-original={json.dumps(o['applied'])} "
                f"old-object-afterwards={json.dumps(o['old_after'])}")
        if i in r["old_kept"]:
            viol.append((i, "C13/session/old-document-modified",
                         "after apply_json_fragment(old, f, acl) [+ make_patch(old, result)] the caller's old document "
                         "no longer has its value: " + desc))
            if not _sess_roundtrip_ok(o):
                viol.append((i, "C13/session/patch-made-from-the-same-old-object-does-not-reproduce-result",
                             "apply_patch(serialised original old, make_patch(old object, result)) != result: " + desc))
        elif "exc" in o["lib"]:
            viol.append((i, "C13/patch/jsonpatch-make_patch-raises",
                         f"third-party jsonpatch.make_patch raises {o['lib']['exc']} in a session: " + desc))
        elif i in lib_bad:
            viol.append((i, "C13/patch/jsonpatch-diff-does-not-reproduce-target",
                         "third-party jsonpatch.make_patch applied in its own order does not give the target "
                         f"(session): ops={json.dumps(o['lib'])} " + desc))
        elif v["v_sorted"]:
            viol.append((i, "C13/patch/make_patch-operation-order",
                         "apply_patch(old, make_patch(old,new)) != new although the library's operation order works "
                         "(session): " + desc))
        else:
            viol.append((i, "C13/session/patch-made-from-the-same-old-object-does-not-reproduce-result",
                         "apply_patch(serialised original old, make_patch(old object, result)) != result: " + desc))
    return viol, disagree


def _sess_roundtrip_ok(o):
    """labelling only (the verdict is Coq's P_C13_session): did the device end up with the final document"""
    if not o["docs"] or "exc" in o["docs"][-1]:
        return True               # a step raised: there is no patch to judge
    return o["applied"] == {"ok": o["docs"][-1]["ok"]}


def nontrivial(c, o):
    k = c["kind"]
    if k == "session":
        return any("exc" in d for d in o["docs"]) or (bool(o["docs"]) and o["docs"][-1].get("ok") != c["old"])
    if k == "frag":
        return "exc" in o["r"] or o["r"]["ok"] != c["old"]
    if k == "filter":
        return o["r"] != {"ok": {}}
    if k == "patch":
        return "ok" in o["patch"] and len(o["patch"]["ok"]) >= 2
    return len(c["ops"]) >= 2


def run(ctx):
    core.proof_stage(ctx, THEOREM_FILE)
    cases = gen_cases(ctx)
    fill_apply_ops(ctx, cases)
    outs = core.run_impl_sharded("c13_runner.py", [runner_payload(c) for c in cases])
    v = variant_of(cases, outs)
    ctx.coverage["implementation_shape"] = v
    viol, disagree = evaluate(ctx, cases, outs, v)
    # one violation per signature: the smallest failing case
    best = {}
    for i, sig, what in viol:
        if sig not in best or size(cases[i]) < size(cases[best[sig][0]]):
            best[sig] = (i, what)
    for sig, (i, what) in sorted(best.items()):
        ctx.add_violation(core.Violation(signature=sig, what=what,
                                         replay={"case": runner_payload(cases[i]), "impl": outs[i], "shape": v}))
    if not viol:
        for i in disagree[:1]:
            ctx.add_violation(core.Violation(
                signature="C13/model-impl-disagree",
                what="Coq model of jsontools and the implementation differ (correspondence broken); the property "
                     "predicates hold on all implementation outputs explored",
                replay={"correspondence": "Model.Json vs annet.annlib.jsontools", "case": runner_payload(cases[i]),
                        "impl": outs[i], "shape": v}, no_input=True))
    seen, nt = set(), 0
    hist = {}
    sigs = {}
    for _, sig, _ in viol:
        sigs[sig] = sigs.get(sig, 0) + 1
    for c, o in zip(cases, outs):
        hist[c["kind"] + ":" + c["src"]] = hist.get(c["kind"] + ":" + c["src"], 0) + 1
        h = core.canon_hash(runner_payload(c))
        if h in seen:
            continue
        seen.add(h)
        if nontrivial(c, o):
            nt += 1
    ctx.coverage.update({
        "evaluations": len(cases),
        "distinct_nontrivial": nt,
        "rule": "documents, fragments and pointer lists drawn from one random schema per case (plus an exhaustive "
                "small scope and near-miss streams); distinct by canonical hash of the input; non-trivial = the "
                "merge changed the document or raised / the filter returned a non-empty document / the patch has "
                ">= 2 operations / the raw operation list has >= 2 operations",
        "samples": [{"input": runner_payload(c), "impl": o} for c, o in list(zip(cases, outs))[-3:]]
                   + [{"input": runner_payload(cases[3 + 700]), "impl": outs[3 + 700]}],
        "traces_validated_against_impl": len(cases),
        "disagreements_checked": len(disagree),
        "model_impl_disagreements": len(disagree),
        "case_histogram": hist,
        "violations_by_signature": sigs,
        "exhaustive": False,
    })
    ctx.assumptions += [
        "third-party jsonpatch diff: Section hypothesis apply_ops (D a b) a = Some b; checked per case in the "
        "correspondence (library_hypothesis_failures counts the cases where jsonpatch itself violates it)",
        "fnmatch sets modelled for single characters, a-b ranges and leading '!'; ASCII keys; integers only",
        "array index parts are modelled as 'the part equals str(i) for an in-range i' (canonical decimal)",
        "exceptions are compared as raised / not raised (class ignored)",
        "jeq keeps JBool and JNum apart while Python has True == 1 (matters only for a hand-written 'test' operation "
        "comparing a bool member with 0/1; the raw-operation stream avoids that pair)",
        "the verified differ (Proofs/JsonDiffProofs.diff) is a Gallina function, not the library's algorithm: it shows "
        "the Section hypothesis satisfiable; the library's own output is checked per case (lib_ok)",
        "purity (a call leaves the objects handed to it with the value they had) is the premise leaves_inputs of the "
        "session theorems; on the real code it is the runner's 'mutated' flag: json.dumps text of every argument "
        "before == after, for all four entry points in every case, and the old object of every session as seen by Coq",
    ]


PROBES = [
    {"kind": "filter", "d": {"a/b": 1}, "filters": ["/*"], "src": "probe-esc"},
    {"kind": "filter", "d": {"a": "xy"}, "filters": ["/a/*"], "src": "probe-strseq"},
    {"kind": "patch", "old": {"d": ["x", "y", "z"]}, "new": {"d": ["z", "x"]}, "src": "probe-sorted"},
]


def replay(ctx, doc):
    c = dict(doc["replay"]["case"], src="replay")
    cases = [dict(p) for p in PROBES] + [c]
    outs = core.run_impl("c13_runner.py", [runner_payload(x) for x in cases])
    v = variant_of(cases, outs)
    viol, disagree = evaluate(ctx, [c], [outs[3]], v, tag="_replay")
    print("impl:", json.dumps(outs[3]))
    print("shape of the tree:", v)
    print("holds:", not viol, " model agrees:", not disagree)
    for _, sig, what in viol:
        print(sig, "--", what)
    return 1 if viol else 0
