"""C13 — JSON fragments stay inside their pointers; JSON patches reproduce the target (DESIGN §3.C13)."""
from __future__ import annotations

import copy
import itertools
import json

from .. import core
from ..core import cstr, clist, cpair, cZ, copt

ID = "C13"
THEOREM_FILE = "Properties/C13.v"
IMPORTS = "From Annet Require Import Base.Str Model.Json Spec.P_C13."
META = {
    "text": "Proof (Coq, unbounded induction over documents and pointer lists): on documents of one schema whose "
            "glob pointers address object members, the model of apply_json_fragment makes the result agree with the "
            "fragment on every selected path (absent there = removed), leaves every leaf outside the selection as in "
            "the old document, and is idempotent; apply_acl_filters returns a sub-document; make_patch/apply_patch "
            "round-trip follows from the assumed law of the third-party diff once annet keeps the library's "
            "operation order (sorting by path is refuted by a machine-checked witness). Correspondence: Coq "
            "evaluates model==implementation and the property predicates on the real outputs of "
            "apply_json_fragment, make_patch, apply_patch, apply_acl_filters over random one-schema documents "
            "(keys with / ~ | *, arrays, nested objects) and an exhaustive small scope.",
    "technique": "Coq induction with pointwise get/put/delete lemmas on association-list documents; section "
                 "hypothesis for jsonpatch's diff; vm_compute differential check against the implementation",
    "note": "Partial: the fragment theorems are proved for glob pointers that never step into an array (patterns "
            "that do are outside the guard; on the implementation they are a listed finding); the patch round-trip "
            "assumes the third-party jsonpatch diff is correct (Section hypothesis, checked case by case in the "
            "correspondence, where jsonpatch 1.33 itself fails on rare array/move inputs — listed finding). "
            "Theorems are about the Gallina model; the model is tied to /repo by the correspondence run.",
}

PLAIN = ["a", "b", "c", "d", "x1", "0", "1"]
SPECIAL = ["e/f", "g~h", "i|j", "k*", "~1m", "n/~0", "[p]", "q?"]


# ----------------------------------------------------------------------------------------
# printers

def cj(x) -> str:
    if x is None:
        return "JNull"
    if x is True:
        return "(JBool true)"
    if x is False:
        return "(JBool false)"
    if isinstance(x, int):
        return f"(JNum {cZ(x)})"
    if isinstance(x, str):
        return f"(JStr {cstr(x)})"
    if isinstance(x, list):
        return "(JArr " + clist(cj(v) for v in x) + ")"
    if isinstance(x, dict):
        return "(JObj " + clist(cpair(cstr(k), cj(v)) for k, v in x.items()) + ")"
    raise core.CheckFailure(f"not a JSON value of the modelled domain: {x!r}")


def cout(o: dict) -> str:
    return copt(cj(o["ok"])) if "ok" in o else "None"


def cop(o: dict) -> str:
    k = o.get("op")
    if k == "add":
        return f"(OpAdd {cstr(o['path'])} {cj(o['value'])})"
    if k == "remove":
        return f"(OpRemove {cstr(o['path'])})"
    if k == "replace":
        return f"(OpReplace {cstr(o['path'])} {cj(o['value'])})"
    if k == "move":
        return f"(OpMove {cstr(o['from'])} {cstr(o['path'])})"
    if k == "copy":
        return f"(OpCopy {cstr(o['from'])} {cstr(o['path'])})"
    if k == "test":
        return f"(OpTest {cstr(o['path'])} {cj(o['value'])})"
    raise core.CheckFailure(f"unexpected patch operation {o!r}")


def cops(ops) -> str:
    return clist(cop(o) for o in ops)


# ----------------------------------------------------------------------------------------
# generators: one random schema per case, every document of the case drawn from it

def gen_schema(rng, depth, special_p):
    r = rng.random()
    if depth >= 3 or (depth > 0 and r < 0.32):
        return (rng.choice(["int", "int", "str", "bool", "null"]),)
    if depth > 0 and r < 0.5:
        return ("arr", gen_schema(rng, depth + 1, special_p))
    n = rng.randint(1, 4)
    keys = []
    while len(keys) < n:
        k = rng.choice(SPECIAL) if rng.random() < special_p else rng.choice(PLAIN)
        if k not in keys:
            keys.append(k)
    return ("obj", {k: gen_schema(rng, depth + 1, special_p) for k in keys})


def inst(rng, s, keep=0.75):
    t = s[0]
    if t == "int":
        return rng.randint(0, 3)
    if t == "str":
        return rng.choice(["x", "y", "up", ""])
    if t == "bool":
        return rng.random() < 0.5
    if t == "null":
        return None
    if t == "arr":
        return [inst(rng, s[1], keep) for _ in range(rng.randint(0, 3))]
    ks = list(s[1])
    if rng.random() < 0.3:
        rng.shuffle(ks)
    return {k: inst(rng, s[1][k], keep) for k in ks if rng.random() < keep}


def mutate(rng, s, d):
    """a document of the same schema close to d"""
    t = s[0]
    if t == "arr":
        d = list(d)
        for _ in range(rng.randint(0, 2)):
            m = rng.random()
            if m < 0.35 and d:
                del d[rng.randrange(len(d))]
            elif m < 0.7:
                d.insert(rng.randint(0, len(d)), inst(rng, s[1]))
            elif len(d) >= 2:
                i, j = rng.sample(range(len(d)), 2)
                d[i], d[j] = d[j], d[i]
        return [mutate(rng, s[1], x) if rng.random() < 0.3 else x for x in d]
    if t == "obj":
        out = {}
        for k, sub in s[1].items():
            if k in d:
                if rng.random() < 0.15:
                    continue
                out[k] = mutate(rng, sub, d[k]) if rng.random() < 0.6 else d[k]
            elif rng.random() < 0.25:
                out[k] = inst(rng, sub)
        return out
    return inst(rng, s) if rng.random() < 0.4 else d


def glob_lit(k: str) -> str:
    return k.replace("[", "[[]").replace("*", "[*]").replace("?", "[?]")


def ptr_esc(s: str) -> str:
    return s.replace("~", "~0").replace("/", "~1")


def part_for(rng, k: str) -> str:
    r = rng.random()
    if r < 0.55:
        return ptr_esc(glob_lit(k))
    if r < 0.72:
        return "*"
    if r < 0.82 and k:
        return ptr_esc(glob_lit(k[0])) + "*"
    if r < 0.87 and k:
        return "?" * len(k)
    if r < 0.92 and k and k[0].isalnum():
        return "[" + k[0] + ("-" + chr(ord(k[0]) + 1) if rng.random() < 0.5 else "") + "]" + ptr_esc(glob_lit(k[1:]))
    if r < 0.95 and k and k[0].isalnum():
        return "[!" + k[0] + "]*"
    return ptr_esc(k)          # glob metacharacters of the key left unescaped


def gen_pattern(rng, s, mode):
    """mode 'objects': steps only through objects; 'any': may step into arrays / strings / past leaves"""
    parts = []
    cur = s
    while True:
        t = cur[0]
        if t == "obj":
            if parts and rng.random() < 0.3:
                break
            ks = list(cur[1])
            k = rng.choice(ks) if rng.random() < 0.93 else "zz"
            parts.append(part_for(rng, k))
            if k not in cur[1]:
                break
            cur = cur[1][k]
        elif t == "arr":
            if mode == "objects" or rng.random() < 0.4:
                break
            parts.append(rng.choice(["*", "0", "1", "?"]))
            cur = cur[1]
        else:
            if mode == "any" and rng.random() < 0.35:
                parts.append(rng.choice(["*", "0", "a"]))
            break
    if not parts:
        parts = ["*"]
    return "/" + "/".join(parts)


def gen_acl(rng, s, mode):
    acl = [gen_pattern(rng, s, mode) for _ in range(rng.choice([1, 1, 2, 2, 3]))]
    if mode == "any" and rng.random() < 0.08:
        acl[rng.randrange(len(acl))] = rng.choice(["a/b", "/a~2", "", "/", "/*/"])
    return acl


def break_schema(rng, s, d):
    """near miss: put a scalar/null where the schema has an object"""
    if isinstance(d, dict) and d:
        k = rng.choice(list(d))
        d = dict(d)
        if isinstance(d[k], dict) and rng.random() < 0.5:
            d[k] = break_schema(rng, s, d[k])
        else:
            d[k] = rng.choice([None, 7, "s", [1]])
    return d


EXH_DOCS_A = [None, {}, {"x": 1}, {"x": 2, "y": 1}, {"y": 1, "x": 1}]
EXH_DOCS_B = [None, 1, 2]
EXH_ACLS = [["/a"], ["/a/x"], ["/a/*"], ["/*"], ["/b~1c"], ["/a/x", "/b~1c"], ["/a/y", "/a"], ["/*/x"]]


def exhaustive_frag(thorough):
    docs = []
    for a in EXH_DOCS_A:
        for b in EXH_DOCS_B:
            d = {}
            if a is not None:
                d["a"] = a
            if b is not None:
                d["b/c"] = b
            docs.append(d)
    acls = EXH_ACLS if thorough else EXH_ACLS[:6]
    for old in docs:
        for f in docs:
            for acl in acls:
                yield {"kind": "frag", "old": old, "f": f, "acl": acl, "src": "exhaustive"}


def gen_cases(ctx):
    rng = ctx.rng("gen")
    T = ctx.thorough
    cases = []
    # behaviour probes: which shape of the three repairable places does the tree have
    cases += [dict(p) for p in PROBES]
    cases += list(exhaustive_frag(T))
    n_exh = len(cases) - 3
    n_frag, n_filter, n_patch, n_apply = (9000, 4000, 8000, 3000) if T else (900, 400, 900, 300)
    for _ in range(n_frag):
        s = gen_schema(rng, 0, rng.choice([0.0, 0.25, 0.5]))
        mode = "objects" if rng.random() < 0.72 else "any"
        old = {} if rng.random() < 0.08 else inst(rng, s)
        f = inst(rng, s, keep=rng.choice([0.4, 0.6, 0.9]))
        src = "random-" + mode
        if rng.random() < 0.05:
            f = break_schema(rng, s, f)
            src = "near-miss-schema"
        cases.append({"kind": "frag", "old": old, "f": f, "acl": gen_acl(rng, s, mode), "src": src})
    for _ in range(n_filter):
        s = gen_schema(rng, 0, rng.choice([0.0, 0.3]))
        d = inst(rng, s, keep=0.85)
        fl = [gen_pattern(rng, s, "any" if rng.random() < 0.5 else "objects") for _ in range(rng.randint(0, 3))]
        fl = [rng.choice(["", " ", "\t"]) + x + rng.choice(["", " ", "\n"]) if rng.random() < 0.2 else x for x in fl]
        if rng.random() < 0.1:
            fl.insert(rng.randint(0, len(fl)), rng.choice(["", "  "]))
        if rng.random() < 0.04:
            fl.append(rng.choice(["a/b", "/a~2"]))
        cases.append({"kind": "filter", "d": d, "filters": fl, "src": "random"})
    for _ in range(n_patch):
        s = gen_schema(rng, 0, rng.choice([0.0, 0.3]))
        old = inst(rng, s)
        new = mutate(rng, s, old) if rng.random() < 0.6 else inst(rng, s)
        cases.append({"kind": "patch", "old": old, "new": new, "src": "random"})
    for _ in range(n_apply):
        s = gen_schema(rng, 0, rng.choice([0.0, 0.3]))
        doc = inst(rng, s)
        cases.append({"kind": "apply", "doc": doc, "ops": None, "schema_docs": [inst(rng, s), mutate(rng, s, doc)],
                      "src": "random"})
    ctx.coverage["input_distribution"] = {
        "exhaustive_fragment_scope": n_exh, "fragment_random": n_frag, "filter_random": n_filter,
        "patch_pairs_random": n_patch, "raw_apply_random": n_apply,
        "exhaustive_scope": "all (old, f) over 15 documents of the schema {a:{x,y}, 'b/c'} x %d pointer lists"
                            % (len(EXH_ACLS) if T else 6)}
    return cases


def all_paths(d, pre=""):
    out = [pre]
    if isinstance(d, dict):
        for k, v in d.items():
            out += all_paths(v, pre + "/" + ptr_esc(k))
    elif isinstance(d, list):
        for i, v in enumerate(d):
            out += all_paths(v, pre + "/" + str(i))
    return out


def fill_apply_ops(ctx, cases):
    """raw op lists for the apply_patch stream: permuted/truncated library diffs and hand-made ops"""
    import jsonpatch  # the harness interpreter has it only if /venv is used; fall back to hand-made ops
    rng = ctx.rng("ops")
    for c in cases:
        if c["kind"] != "apply":
            continue
        doc = c["doc"]
        other = rng.choice(c.pop("schema_docs"))
        ops = [dict(o) for o in jsonpatch.make_patch(copy.deepcopy(doc), copy.deepcopy(other)).patch]
        m = rng.random()
        if m < 0.3:
            rng.shuffle(ops)
        elif m < 0.45 and ops:
            del ops[rng.randrange(len(ops))]
        paths = all_paths(doc)
        for _ in range(rng.choice([0, 0, 1, 2])):
            p, q = rng.choice(paths), rng.choice(paths)
            k = rng.random()
            if k < 0.25:
                o = {"op": "copy", "from": p, "path": q + rng.choice(["", "/nk", "/0", "/-"])}
            elif k < 0.45:
                o = {"op": "test", "path": p, "value": rng.choice([1, "x", None, {}])}
            elif k < 0.6:
                o = {"op": "move", "from": p, "path": q + rng.choice(["", "/nk", "/0"])}
            elif k < 0.75:
                o = {"op": "remove", "path": p}
            elif k < 0.9:
                o = {"op": "add", "path": q + rng.choice(["/nk", "/0", "/1", "/-", ""]), "value": rng.choice([5, {"z": 1}, [0]])}
            else:
                o = {"op": "replace", "path": p, "value": rng.choice([9, {"z": 1}])}
            ops.insert(rng.randint(0, len(ops)), o)
        c["ops"] = ops


# ----------------------------------------------------------------------------------------

def runner_payload(c):
    return {k: v for k, v in c.items() if k not in ("src",)}


def variant_of(cases, outs):
    """Read the three probes: the model is instantiated with the shape the tree has."""
    by = {c["src"]: o for c, o in zip(cases[:3], outs[:3])}
    esc = by["probe-esc"]["r"] == {"ok": {"a/b": 1}}
    strseq = by["probe-strseq"]["r"] != {"ok": {}}
    p = by["probe-sorted"]
    lib = p["lib"].get("ok")
    got = p["patch"].get("ok")
    if lib is None or got is None:
        raise core.CheckFailure(f"make_patch probe failed: {p}")
    srt = sorted(lib, key=lambda o: o["path"])
    if got == lib and got != srt:
        sorted_ = False
    elif got == srt:
        sorted_ = True
    else:
        sorted_ = False        # neither shape: the model will disagree and the round trip decides
    return {"v_esc": esc, "v_strseq": strseq, "v_sorted": sorted_}


def vdef(v):
    b = lambda x: "true" if x else "false"
    return ("Definition V : variant := {| v_esc := %s; v_strseq := %s; v_sorted := %s |}."
            % (b(v["v_esc"]), b(v["v_strseq"]), b(v["v_sorted"])))


FRAG_TY = "frag_in * frag_out"
FILTER_TY = "(json * list string) * option json"
PATCH_TY = "(json * json) * (option (list op) * option (list op) * option json)"
APPLY_TY = "(json * list op) * option json"

FRAG_AGREE = ("fun c => let '(old, f, acl) := fst c in ojeq (apply_fragment V old f acl) (fst (snd c)) && "
              "match fst (snd c) with Some r => ojeq (apply_fragment V r f acl) (snd (snd c)) | None => true end")
FRAG_PREDS = {"agree": FRAG_AGREE, "holds": "fun c => P_C13_frag (fst c) (snd c)"}
FRAG_CLASS = {
    "noerr": "fun c => P_noerr (fst c) (snd c)", "inside": "fun c => P_inside (fst c) (snd c)",
    "outside": "fun c => P_outside (fst c) (snd c)", "idem": "fun c => P_idem (fst c) (snd c)",
    "objects_only": "fun c => let '(old, f, acl) := fst c in match parse_acl acl with Some pats => "
                    "forallb (fun pat => objects_only pat old && objects_only pat f) pats | None => true end",
}
FILTER_PREDS = {"agree": "fun c => ojeq (apply_acl_filters V (fst (fst c)) (snd (fst c))) (snd c)",
                "holds": "fun c => P_C13_filter (fst c) (snd c)"}
PATCH_PREDS = {
    "agree": "fun c => let '(lib, p, applied) := snd c in match lib, p with "
             "| Some l, Some ops => ops_eqb (make_patch_of V l) ops && ojeq (apply_ops ops (fst (fst c))) applied "
             "| _, _ => false end",
    "holds": "fun c => let '(lib, p, applied) := snd c in P_C13_patch (fst c) applied",
    "lib_ok": "fun c => let '(lib, p, applied) := snd c in match lib with "
              "| Some l => ojeq (apply_ops l (fst (fst c))) (Some (snd (fst c))) | None => false end",
}
APPLY_PREDS = {"agree": "fun c => ojeq (apply_ops (snd (fst c)) (fst (fst c))) (snd c)"}


def frag_term(c, o):
    x = cpair(cj(c["old"]), cj(c["f"]), clist(cstr(a) for a in c["acl"]))
    return cpair(x, cpair(cout(o["r"]), cout(o["rr"])))


def filter_term(c, o):
    return cpair(cpair(cj(c["d"]), clist(cstr(a) for a in c["filters"])), cout(o["r"]))


def oops(o):
    return copt(cops(o["ok"])) if "ok" in o else "None"


def patch_term(c, o):
    return cpair(cpair(cj(c["old"]), cj(c["new"])), cpair(oops(o["lib"]), oops(o["patch"]), cout(o["applied"])))


def apply_term(c, o):
    return cpair(cpair(cj(c["doc"]), cops(c["ops"])), cout(o["r"]))


def has_special_keys(*docs):
    def keys(d):
        if isinstance(d, dict):
            for k, v in d.items():
                yield k
                yield from keys(v)
        elif isinstance(d, list):
            for v in d:
                yield from keys(v)
    return any("/" in k or "~" in k for d in docs for k in keys(d))


def has_strings(*docs):
    def go(d):
        if isinstance(d, str):
            return d != ""
        if isinstance(d, dict):
            return any(go(v) for v in d.values())
        if isinstance(d, list):
            return any(go(v) for v in d)
        return False
    return any(go(d) for d in docs)


def steps_into_str(pats, *docs):
    """labelling only: does some pattern reach a non-empty str with parts left"""
    import fnmatch

    def go(parts, d):
        if not parts:
            return False
        if isinstance(d, str):
            return d != ""
        if isinstance(d, dict):
            return any(go(parts[1:], v) for k, v in d.items() if fnmatch.fnmatchcase(k, parts[0]))
        if isinstance(d, list):
            return any(go(parts[1:], v) for i, v in enumerate(d) if fnmatch.fnmatchcase(str(i), parts[0]))
        return False
    for p in pats:
        p = p.strip()
        if not p.startswith("/"):
            continue
        parts = [x.replace("~1", "/").replace("~0", "~") for x in p.split("/")[1:]]
        if any(go(parts, d) for d in docs):
            return True
    return False


def size(c):
    return len(json.dumps(runner_payload(c)))


def evaluate(ctx, cases, outs, v, tag=""):
    """Coq evaluates agree/holds for every kind; returns list of (index, signature, what)."""
    extra = vdef(v)
    idx = {k: [i for i, c in enumerate(cases) if c["kind"] == k] for k in ("frag", "filter", "patch", "apply")}
    viol, disagree = [], []

    def run(kind, ty, preds, term, t):
        ii = idx[kind]
        if not ii:
            return {l: [] for l in preds}
        res = core.run_case_files(ID, ty, IMPORTS, preds, [term(cases[i], outs[i]) for i in ii],
                                  per_file=250, tag=t + tag, extra_defs=extra)
        return {l: [ii[j] for j in js] for l, js in res.items()}

    # fragments
    r = run("frag", FRAG_TY, FRAG_PREDS, frag_term, "frag")
    disagree += r["agree"]
    if r["holds"]:
        bad = r["holds"]
        rc = core.run_case_files(ID, FRAG_TY, IMPORTS, FRAG_CLASS, [frag_term(cases[i], outs[i]) for i in bad],
                                 per_file=250, tag="fragclass" + tag, extra_defs=extra)
        for j, i in enumerate(bad):
            c = cases[i]
            failed = [l for l in ("noerr", "inside", "outside", "idem") if j in rc[l]]
            if "" in c["acl"]:
                cls = "root-pointer"
            elif j in rc["objects_only"]:
                cls = "pattern-steps-into-array"
            elif has_special_keys(c["old"], c["f"]) and not v["v_esc"]:
                cls = "key-with-slash-or-tilde"
            elif v["v_strseq"] and steps_into_str(c["acl"], c["old"], c["f"]):
                cls = "pattern-steps-into-string"
            else:
                cls = "objects-only-plain"
            viol.append((i, f"C13/fragment/{cls}",
                         f"apply_json_fragment violates {'+'.join(failed)} ({cls}): old={json.dumps(c['old'])} "
                         f"fragment={json.dumps(c['f'])} acl={json.dumps(c['acl'])} -> {json.dumps(outs[i]['r'])}"))
    # filters
    r = run("filter", FILTER_TY, FILTER_PREDS, filter_term, "filter")
    disagree += r["agree"]
    for i in r["holds"]:
        c = cases[i]
        raised = "exc" in outs[i]["r"]
        if has_special_keys(c["d"]) and not v["v_esc"]:
            cls = "key-with-slash-or-tilde"
        elif v["v_strseq"] and steps_into_str(c["filters"], c["d"]):
            cls = "pattern-steps-into-string"
        elif raised:
            cls = "raises-" + outs[i]["r"]["exc"]
        else:
            cls = "not-a-subdocument"
        viol.append((i, f"C13/filter/{cls}",
                     f"apply_acl_filters({json.dumps(c['d'])}, {json.dumps(c['filters'])}) -> "
                     f"{json.dumps(outs[i]['r'])} is not a sub-document ({cls})"))
    # patches
    r = run("patch", PATCH_TY, PATCH_PREDS, patch_term, "patch")
    disagree += r["agree"]
    lib_bad = set(r["lib_ok"])
    for i in r["holds"]:
        c = cases[i]
        if i in lib_bad:
            viol.append((i, "C13/patch/jsonpatch-diff-does-not-reproduce-target",
                         f"third-party jsonpatch.make_patch({json.dumps(c['old'])}, {json.dumps(c['new'])}) applied in "
                         f"its own order does not give the target: ops={json.dumps(outs[i]['lib'])}"))
        else:
            viol.append((i, "C13/patch/make_patch-operation-order",
                         f"apply_patch(old, make_patch(old,new)) != new although the library's operation order works: "
                         f"old={json.dumps(c['old'])} new={json.dumps(c['new'])} patch={json.dumps(outs[i]['patch'])} "
                         f"applied={json.dumps(outs[i]['applied'])}"))
    ctx.coverage.setdefault("library_hypothesis_failures", 0)
    ctx.coverage["library_hypothesis_failures"] += len(lib_bad)
    r = run("apply", APPLY_TY, APPLY_PREDS, apply_term, "apply")
    disagree += r["agree"]
    return viol, disagree


def nontrivial(c, o):
    k = c["kind"]
    if k == "frag":
        return "exc" in o["r"] or o["r"]["ok"] != c["old"]
    if k == "filter":
        return o["r"] != {"ok": {}}
    if k == "patch":
        return "ok" in o["patch"] and len(o["patch"]["ok"]) >= 2
    return len(c["ops"]) >= 2


def run(ctx):
    core.proof_stage(ctx, THEOREM_FILE)
    cases = gen_cases(ctx)
    fill_apply_ops(ctx, cases)
    outs = core.run_impl_sharded("c13_runner.py", [runner_payload(c) for c in cases])
    v = variant_of(cases, outs)
    ctx.coverage["implementation_shape"] = v
    viol, disagree = evaluate(ctx, cases, outs, v)
    # one violation per signature: the smallest failing case
    best = {}
    for i, sig, what in viol:
        if sig not in best or size(cases[i]) < size(cases[best[sig][0]]):
            best[sig] = (i, what)
    for sig, (i, what) in sorted(best.items()):
        ctx.add_violation(core.Violation(signature=sig, what=what,
                                         replay={"case": runner_payload(cases[i]), "impl": outs[i], "shape": v}))
    if not viol:
        for i in disagree[:1]:
            ctx.add_violation(core.Violation(
                signature="C13/model-impl-disagree",
                what="Coq model of jsontools and the implementation differ (correspondence broken); the property "
                     "predicates hold on all implementation outputs explored",
                replay={"correspondence": "Model.Json vs annet.annlib.jsontools", "case": runner_payload(cases[i]),
                        "impl": outs[i], "shape": v}, no_input=True))
    seen, nt = set(), 0
    hist = {}
    sigs = {}
    for _, sig, _ in viol:
        sigs[sig] = sigs.get(sig, 0) + 1
    for c, o in zip(cases, outs):
        hist[c["kind"] + ":" + c["src"]] = hist.get(c["kind"] + ":" + c["src"], 0) + 1
        h = core.canon_hash(runner_payload(c))
        if h in seen:
            continue
        seen.add(h)
        if nontrivial(c, o):
            nt += 1
    ctx.coverage.update({
        "evaluations": len(cases),
        "distinct_nontrivial": nt,
        "rule": "documents, fragments and pointer lists drawn from one random schema per case (plus an exhaustive "
                "small scope and near-miss streams); distinct by canonical hash of the input; non-trivial = the "
                "merge changed the document or raised / the filter returned a non-empty document / the patch has "
                ">= 2 operations / the raw operation list has >= 2 operations",
        "samples": [{"input": runner_payload(c), "impl": o} for c, o in list(zip(cases, outs))[-3:]]
                   + [{"input": runner_payload(cases[3 + 700]), "impl": outs[3 + 700]}],
        "traces_validated_against_impl": len(cases),
        "disagreements_checked": len(disagree),
        "model_impl_disagreements": len(disagree),
        "case_histogram": hist,
        "violations_by_signature": sigs,
        "exhaustive": False,
    })
    ctx.assumptions += [
        "third-party jsonpatch diff: Section hypothesis apply_ops (D a b) a = Some b; checked per case in the "
        "correspondence (library_hypothesis_failures counts the cases where jsonpatch itself violates it)",
        "fnmatch sets modelled for single characters, a-b ranges and leading '!'; ASCII keys; integers only",
        "array index parts are modelled as 'the part equals str(i) for an in-range i' (canonical decimal)",
        "exceptions are compared as raised / not raised (class ignored)",
    ]


PROBES = [
    {"kind": "filter", "d": {"a/b": 1}, "filters": ["/*"], "src": "probe-esc"},
    {"kind": "filter", "d": {"a": "xy"}, "filters": ["/a/*"], "src": "probe-strseq"},
    {"kind": "patch", "old": {"d": ["x", "y", "z"]}, "new": {"d": ["z", "x"]}, "src": "probe-sorted"},
]


def replay(ctx, doc):
    c = dict(doc["replay"]["case"], src="replay")
    cases = [dict(p) for p in PROBES] + [c]
    outs = core.run_impl("c13_runner.py", [runner_payload(x) for x in cases])
    v = variant_of(cases, outs)
    viol, disagree = evaluate(ctx, [c], [outs[3]], v, tag="_replay")
    print("impl:", json.dumps(outs[3]))
    print("shape of the tree:", v)
    print("holds:", not viol, " model agrees:", not disagree)
    for _, sig, what in viol:
        print(sig, "--", what)
    return 1 if viol else 0
