"""C14 — shipped routing-policy generators (DESIGN §3.C14)."""
from __future__ import annotations

import ipaddress
import json

from .. import core
from ..core import cstr, clist, cpair, cnat, cbool, copt, cforest

ID = "C14"
THEOREM_FILE = "Properties/C14.v"
LEVEL = "proof"
IMPORTS = "From Annet Require Import Base.Str Base.Tree Model.Offside Model.Rpl Spec.P_C14 Spec.P_C14x Spec.P_C14r Spec.P_C14a Spec.P_C14h."
TY = "(vendor * prog) * list igen"
META = {
    "text": "Partial (the model is hand-written; it is tied to the code by the correspondence). "
            "PROVED FOR ALL INPUTS on the Gallina model of policy.py/community.py/prefix_lists.py/aspath.py/rd.py/"
            "cumulus_frr.py/entities.py (Model/Rpl.v, with the C14 patches applied): "
            "(d) for every vendor, action and match condition (all list parameters universally quantified) an "
            "error comes with no line of that item, and on whole streams an error attributed to an item comes with "
            "no row of it (the unpatched behaviour is kept in the model and refuted); "
            "(c) C14_refs_defined: for huawei, arista, cumulus and every program whose references resolve type-correctly to lists with members (wf_refs; entity names may repeat), when no list generator "
            "raised, every (name space, name) a row of the policy generator refers to - prefix lists incl. the names "
            "PrefixListNameGenerator derives from or_longer bounds (a bound 0 counts as unset for the decision), "
            "community lists incl. _OR_-united names in the order of the HAS_ANY arguments, as-path filters, RD "
            "numbers - is defined by a row of the matching list generator fed the same inputs; guards: on Arista no "
            "list called `regexp` and no community value spelled `community-list`, on Arista/Cumulus one union per "
            "mangled key - without the latter the statement is refuted (C14_refs_united_name_collision_refuted) and "
            "the witness fails on the real generators too (open known finding); "
            "(a) C14_acl_covered: for huawei and arista and every program, with no guard, every row of every "
            "generator (huawei community lists basic/advanced x community/extcommunity rt/soo/large, arista lists "
            "with and without regexp, prefix lists with their seq children, as-path, rd, statement headers and every "
            "condition/action row) is covered - in the C06 model of apply_acl (Model/Acl.v) - by that generator's own "
            "ACL text, which tr_rpl.py reads from the acl_huawei/acl_arista methods on every run (fail closed). "
            "TESTED (correspondence, Coq evaluates everything): random RouteMap programs built through the documented "
            "R.*/rule.* builders are run through the real _run_partial_generator(use_acl=True) (huawei, arista) and "
            "generate_cumulus_rpl, the run(device) stream being consumed row by row; every row of the model is "
            "compared WORD FOR WORD with the real row (names, members, bounds, sequence numbers, block path, item, "
            "error class), also for entity sets with duplicate names; pfx_name/mangle are compared with "
            "PrefixListNameGenerator.get_prefix(...).name and mangle_united_community_list_name on direct probes "
            "(bounds 0, unset bounds, unsorted and repeated names); P_C14 (no AclError, nesting, refs subset of defs "
            "whole and split by generator, error before lines) and the Coq ACL model on the real rows are evaluated "
            "on the real output. "
            "RUNS AFTER THE FIRST (Spec/P_C14h.v): the model is a function of (vendor, program); that a generator OBJECT "
            "gives the same output whatever it was run on before is the premise history_free: proved - a session of a "
            "history-free object is the list of first runs of new objects, so every per-run law (C14_refs_defined: "
            "C14_session_refs_defined) holds of every run of every session, for any sequence of vendors and programs; the "
            "model's generators are history free; an object that keeps its set of emitted prefix-list names between runs "
            "equals the model on its first run for every input and leaves the references undefined on the second "
            "(C14_persisted_names_refuted). TESTED: generator objects built once and run for 2-3 devices in sequence "
            "(same / different inputs, same / different vendors, huawei after arista and back, cumulus; every object "
            "twice per device: the stream consumed row by row, then the real _run_partial_generator) - EVERY run is "
            "evaluated by all predicates above and compared word for word with the model, and Coq compares every run with "
            "the run of new objects on the same inputs (P_C14_indep: rows, block paths, items, error, runner outcome). "
            "NOT PROVED: (b) nesting (parse of the generated text) is only evaluated on real "
            "outputs; the theorems read rows as token lists, the step from tokens to text is the correspondence.",
    "technique": "Coq: case analysis over the action/condition enums with universally quantified lists, induction "
                 "over statement/policy streams, a reflective word-level ACL cover proved sound for Model/Acl.v; "
                 "fail-closed ast translator for the ACL texts; vm_compute differential check on real generator "
                 "streams",
    "note": "partial: the tie between the 1.5k lines of dispatch code and the model is the correspondence run "
            "(word-for-word on every row); nesting (b) is not a theorem; refs_defined is stated on the model's token "
            "rows under computable guards (counted per run: cases_in_domain_of_C14_refs_defined)",
}

VENDORS = ["huawei", "arista", "cumulus"]
GNAMES = {"policy": "GPolicy", "prefix": "GPrefix", "community": "GCommunity", "aspath": "GAsPath",
          "rd": "GRd", "frr": "GFrr"}

# ----------------------------------------------------------------------------------------
# input generation


def entities(rng, tame=False):
    def members(kind, n):
        if kind == "LARGE":
            return [f"{rng.randint(1, 9)}:{rng.randint(0, 9)}:{rng.randint(0, 9)}" for _ in range(n)]
        if kind == "BASIC" and rng.random() < 0.1:
            return ["65535:0"] + [f"100:{rng.randint(1, 99)}" for _ in range(n - 1)]
        return [f"{rng.randint(1, 999)}:{rng.randint(1, 99)}" for _ in range(n)]

    cl = []
    for kind, names in (("BASIC", ["B1", "B2", "B3"]), ("LARGE", ["L1", "L2", "L3"]), ("RT", ["R1", "R2", "R3"]),
                        ("SOO", ["S1", "S2", "S3"])):
        regex_kind = rng.random() < 0.25          # united lists need one use_regex flag: correlate by kind
        for nm in names:
            use_regex = regex_kind if (tame or rng.random() < 0.85) else not regex_kind
            n = 1 if (use_regex and (tame or rng.random() < 0.8)) else rng.randint(1, 3)
            mem = members(kind, n)
            if use_regex:
                mem = [m.replace(":", ":.") for m in mem]
            cl.append({"name": nm, "members": mem, "type": kind,
                       "logic": rng.choice(["AND", "OR", "OR"]), "use_regex": use_regex})

    def pm(v6):
        if v6:
            net = rng.choice(["2001:db8::/32", "2001:db8:a::/48", "2001:db8:a:b::/64", "::/0", "2001:DB8:C::/48"])
        else:
            net = rng.choice(["10.0.0.0/8", "192.168.0.0/16", "172.16.0.0/12", "10.1.2.0/24", "0.0.0.0/0"])
        ol = rng.choice([(None, None), (None, None), (24, None), (None, 32), (16, 24)])
        return [net, ol[0], ol[1]]

    pl = [{"name": nm, "v6": v6, "members": [pm(v6) for _ in range(rng.randint(1, 3))]}
          for nm, v6 in (("P4a", False), ("P4b", False), ("P6a", True), ("P6b", True))]
    af = [{"name": nm, "filters": rng.sample([".*", "65000", "123", "4200000000", "6500[0-9]", "(64512|64513)", "_65001_"], rng.randint(1, 3))}
          for nm in ("AS1", "AS2")]
    rd = [{"name": nm, "number": i + 1, "members": [f"{rng.randint(1, 99)}:{rng.randint(1, 99)}"
                                                    for _ in range(rng.randint(1, 2))]}
          for i, nm in enumerate(("RD1", "RD2"))]
    return cl, pl, af, rd


POOL = {"community": ["B1", "B2", "B3"], "large_community": ["L1", "L2", "L3"],
        "extcommunity_rt": ["R1", "R2", "R3"], "extcommunity_soo": ["S1", "S2", "S3"],
        "extcommunity": ["R1", "R2", "S1", "S2"]}
OR_LONGER = [(None, None), (None, None), (8, 24), (None, 32), (16, None), (0, None), (0, 0), (29, 48),
             (0, 24), (None, 0), (24, 0)]


def gen_cond(rng, field):
    if field in ("community", "large_community", "extcommunity_rt", "extcommunity_soo"):
        k = rng.choice([1, 1, 2, 3])
        names = rng.sample(POOL[field], k)          # sample: any order, so unsorted member lists occur
        if rng.random() < 0.08:
            names.append(names[0])                  # the same list named twice
        return [field, rng.choice(["has", "has_any"]), names]
    if field == "rd":
        return ["rd", rng.choice(["has", "has_any"]), rng.sample(["RD1", "RD2"], rng.choice([1, 1, 2]))]
    if field == "match_v4":
        return ["match_v4", rng.sample(["P4a", "P4b"], rng.choice([1, 1, 2])), list(rng.choice(OR_LONGER))]
    if field == "match_v6":
        return ["match_v6", rng.sample(["P6a", "P6b"], rng.choice([1, 1, 2])), list(rng.choice(OR_LONGER))]
    if field == "as_path_filter":
        return ["as_path_filter", rng.choice(["AS1", "AS2"])]
    if field == "as_path_length":
        o = rng.choice(["eq", "ge", "le", "between_included"])
        return ["as_path_length", o, [1, rng.randint(2, 9)] if o == "between_included" else rng.randint(1, 9)]
    if field == "local_pref":
        return ["local_pref", "lt", rng.randint(1, 200)]
    v = {"interface": "eth0", "protocol": rng.choice(["bgp", "static"]), "metric": rng.randint(0, 500),
         "net_len": rng.randint(8, 32), "family": rng.choice([4, 6])}[field]
    return [field, "eq", v]


COND_FIELDS = ["community", "large_community", "extcommunity_rt", "extcommunity_soo", "rd", "match_v4", "match_v6",
               "as_path_filter", "as_path_length", "local_pref", "interface", "protocol", "metric", "net_len", "family"]
COND_W = [4, 4, 4, 4, 2, 4, 3, 3, 3, 1, 1, 2, 2, 1, 1]


def gen_conds(rng):
    n = rng.choice([0, 1, 1, 2, 2, 3])
    fields = []
    while len(fields) < n:
        f = rng.choices(COND_FIELDS, COND_W)[0]
        if f not in fields:
            fields.append(f)
    conds = [gen_cond(rng, f) for f in fields]
    if "as_path_length" in fields and rng.random() < 0.5:
        # documented merge: <= together with >= become BETWEEN_INCLUDED
        conds = [c for c in conds if c[0] != "as_path_length"]
        conds += [["as_path_length", "ge", rng.randint(1, 3)], ["as_path_length", "le", rng.randint(4, 9)]]
    return conds


def gen_comm_calls(rng, field):
    ops = rng.choice([["add"], ["remove"], ["set"], ["add", "remove"], ["set"], ["set", "add"], ["add", "set"],
                      ["remove", "add"], ["set0"]])
    calls = []
    for o in ops:
        if o == "set0":
            calls.append([field, "set", []])
        else:
            calls.append([field, o, rng.sample(POOL[field], rng.choice([1, 1, 2]))])
    return calls


def gen_aspath_calls(rng):
    ops = rng.choice([["prepend"], ["delete"], ["expand"], ["set"], ["set", "expand"], ["set", "delete"],
                      ["prepend", "expand"], ["prepend", "delete"], ["expand_last_as"], ["prepend", "expand_last_as"],
                      ["set", "prepend"], ["set0"], ["set", "expand_last_as"], ["delete", "expand"]])
    calls = []
    for o in ops:
        if o == "set0":
            calls.append(["as_path", "set", []])
        elif o == "expand_last_as":
            calls.append(["as_path", "expand_last_as", rng.randint(1, 5)])
        else:
            calls.append(["as_path", o, [rng.choice([65000, "65001", 123]) for _ in range(rng.choice([1, 2]))]])
    return calls


ACT_KINDS = ["community", "large_community", "extcommunity", "extcommunity_rt", "extcommunity_soo", "as_path",
             "next_hop", "metric", "local_pref", "metric_type", "origin", "tag", "mpls_label", "rpki", "resolution"]
ACT_W = [4, 4, 4, 3, 3, 5, 4, 3, 2, 1, 1, 1, 1, 1, 1]


def gen_calls(rng):
    n = rng.choice([0, 1, 1, 2, 2, 3])
    kinds = []
    while len(kinds) < n:
        k = rng.choices(ACT_KINDS, ACT_W)[0]
        if k not in kinds:
            kinds.append(k)
    calls = []
    for k in kinds:
        if k in POOL:
            calls += gen_comm_calls(rng, k)
        elif k == "as_path":
            calls += gen_aspath_calls(rng)
        elif k == "next_hop":
            t = rng.choice(["self", "peer", "discard", "ipv4_addr", "ipv6_addr", "mapped_ipv4"])
            calls.append(["next_hop", t] + ({"ipv4_addr": ["192.0.2.1"], "ipv6_addr": ["2001:db8::1"],
                                             "mapped_ipv4": ["192.0.2.2"]}.get(t, [])))
        elif k == "metric":
            calls += rng.choice([[["set_metric", 10]], [["add_metric", 5]], [["set_metric", 10], ["add_metric", 5]]])
        elif k == "local_pref":
            calls.append(["set_local_pref", rng.randint(1, 300)])
        elif k == "metric_type":
            calls.append(["set_metric_type", "type-1"])
        elif k == "origin":
            calls.append(["set_origin", "igp"])
        elif k == "tag":
            calls.append(["set_tag", rng.randint(1, 99)])
        elif k == "mpls_label":
            calls.append(["set_mpls_label"])
        elif k == "rpki":
            calls.append(["set_rpki_valid_state", "valid"])
        elif k == "resolution":
            calls.append(["set_resolution", "x"])
    r = rng.random()
    if r < 0.4:
        calls.append(["allow"])
    elif r < 0.6:
        calls.append(["deny"])
    elif r < 0.7:
        calls.append(["next"])
    elif r < 0.73:
        calls.append(["next_policy"])
    return calls


# constructs every back-end accepts (used for the mostly-valid stream)
TAME_COND = {
    "huawei": ["community", "large_community", "extcommunity_rt", "extcommunity_soo", "rd", "match_v4", "match_v6",
               "as_path_filter", "as_path_length", "interface", "protocol", "metric"],
    "arista": ["community", "large_community", "extcommunity_rt", "extcommunity_soo", "match_v4", "match_v6",
               "as_path_filter", "as_path_length", "interface", "protocol", "metric"],
    "cumulus": ["community", "large_community", "extcommunity_rt", "extcommunity_soo", "match_v4", "match_v6",
                "as_path_filter", "interface", "protocol", "metric"],
}
HW_SINGLE = {"community": "has", "large_community": "has_any", "extcommunity_rt": "has", "extcommunity_soo": "has_any"}
TAME_COMM = {
    "huawei": {"community": ["add", "remove", "set"], "large_community": ["add", "remove", "set"],
               "extcommunity": ["add", "setrt"], "extcommunity_rt": ["add", "remove"], "extcommunity_soo": ["add"]},
    "arista": {"community": ["add", "remove", "set"], "large_community": ["add", "remove", "set"],
               "extcommunity": ["add", "remove", "set"], "extcommunity_rt": ["add", "remove"],
               "extcommunity_soo": ["add", "remove"]},
    "cumulus": {"community": ["add", "remove", "set"], "large_community": ["add"], "extcommunity": ["set"],
                "extcommunity_rt": ["add"], "extcommunity_soo": ["add"]},
}
TAME_ASPATH = {"huawei": ["prepend", "delete", "set"], "arista": ["prepend", "set", "expand_last_as"],
               "cumulus": ["prepend", "delete", "set", "expand_last_as"]}


def gen_tame_statement(rng, vendor):
    fields = rng.sample(TAME_COND[vendor], rng.choice([1, 2, 2, 3, 4]))
    conds = []
    for f in fields:
        c = gen_cond(rng, f)
        if vendor == "huawei" and f in HW_SINGLE and c[1] == HW_SINGLE[f]:
            c[2] = c[2][:1]
        if f == "rd":
            c[2] = c[2][:1]
        if f == "as_path_length" and vendor == "arista" and rng.random() < 0.3:
            conds += [["as_path_length", "ge", 1], ["as_path_length", "le", 7]]
            continue
        conds.append(c)
    calls = []
    kinds = rng.sample(["community", "large_community", "extcommunity", "extcommunity_rt", "extcommunity_soo",
                        "as_path", "next_hop", "metric", "local_pref", "origin", "tag", "metric_type"],
                       rng.choice([1, 2, 2, 3, 4]))
    for k in kinds:
        if k in POOL:
            o = rng.choice(TAME_COMM[vendor][k])
            if o == "setrt":
                calls.append([k, "set", rng.sample(["R1", "R2", "R3"], rng.choice([1, 2]))])
            else:
                calls.append([k, o, rng.sample(POOL[k], rng.choice([1, 1, 2]))])
        elif k == "as_path":
            o = rng.choice(TAME_ASPATH[vendor])
            calls.append(["as_path", o, rng.randint(1, 4)] if o == "expand_last_as"
                         else ["as_path", o, [rng.choice([65000, "65001", 123]) for _ in range(rng.choice([1, 2]))]])
        elif k == "next_hop":
            t = rng.choice(["self", "peer", "discard", "ipv4_addr", "ipv6_addr", "mapped_ipv4"])
            calls.append(["next_hop", t] + ({"ipv4_addr": ["192.0.2.1"], "ipv6_addr": ["2001:db8::1"],
                                             "mapped_ipv4": ["192.0.2.2"]}.get(t, [])))
        elif k == "metric":
            calls += rng.choice([[["set_metric", 10]], [["add_metric", 5]]])
        else:
            calls.append({"local_pref": ["set_local_pref", 200], "origin": ["set_origin", "igp"],
                          "tag": ["set_tag", 3], "metric_type": ["set_metric_type", "type-2"]}[k])
    calls.append([rng.choice(["allow", "deny", "next"])])
    return conds, calls


def gen_program(rng, vendor, tame=False):
    cl, pl, af, rd = entities(rng, tame)
    if tame:
        policies = []
        for pi in range(rng.choice([1, 2])):
            sts = []
            for si in range(rng.choice([1, 2, 3])):
                conds, calls = gen_tame_statement(rng, vendor)
                sts.append({"number": (si + 1) * 10, "name": f"n{si}", "conds": conds, "calls": calls})
            policies.append({"name": f"pol{pi}", "statements": sts})
        return {"vendor": vendor, "clists": cl, "plists": pl, "aspaths": af, "rdfilters": rd, "policies": policies}
    policies = []
    for pi in range(rng.choice([1, 1, 2])):
        sts = []
        for si in range(rng.choice([1, 2, 2, 3])):
            number = (si + 1) * 10
            r = rng.random()
            if r < 0.03:
                number = None
            elif r < 0.07 and si > 0:
                number = si * 10
            sts.append({"number": number, "name": f"n{si}", "conds": gen_conds(rng), "calls": gen_calls(rng)})
        policies.append({"name": f"pol{pi}", "statements": sts})
    return {"vendor": vendor, "clists": cl, "plists": pl, "aspaths": af, "rdfilters": rd, "policies": policies}


def add_probes(rng, case):
    """direct calls of the name-derivation functions (bounds equal to 0, unset bounds, unsorted and
    repeated member names)"""
    case["probes"] = {
        "pfx": [[rng.choice(["P4a", "P4b", "P6a", "P6b"]), rng.choice([None, 0, 1, 8, 32, 128]),
                 rng.choice([None, 0, 1, 24, 32, 128])] for _ in range(3)],
        "mangle": [[rng.choice(["B1", "B2", "B3", "L1", "R2", "S3"]) for _ in range(rng.choice([1, 2, 2, 3, 4]))]
                   for _ in range(2)],
    }
    return case


def duplicate_entities(rng, case):
    """entity sets in which a name occurs twice: every generator keeps them in a dict keyed by name"""
    import copy
    case = copy.deepcopy(case)
    for key in ("clists", "plists", "aspaths", "rdfilters"):
        if rng.random() < 0.7:
            src = copy.deepcopy(rng.choice(case[key]))
            if key == "clists":
                src["members"] = [m for m in reversed(src["members"])] + src["members"][:1]
                src["logic"] = rng.choice(["AND", "OR"])
            elif key == "plists":
                src["members"] = src["members"][:1]
            elif key == "aspaths":
                src["filters"] = ["64512"]
            else:
                src["members"] = ["7:7"]
            case[key].insert(rng.randrange(len(case[key]) + 1), src)
    case["dup_entities"] = True
    return case


def exhaustive_items(rng):
    """One statement per shape of action / condition, on every vendor."""
    acts = []
    for f in POOL:
        a, b = POOL[f][0], POOL[f][-1]
        for calls in ([[f, "set", [a]]], [[f, "set", [a, b]]], [[f, "set", [b, a]]], [[f, "set", []]],
                      [[f, "add", [a]]], [[f, "add", [a, b]]], [[f, "remove", [a]]],
                      [[f, "add", [a]], [f, "remove", [b]]], [[f, "set", [a]], [f, "add", [b]]],
                      [[f, "set", [a]], [f, "remove", [b]]]):
            acts.append(calls)
    for ops in (["prepend"], ["delete"], ["expand"], ["set"], ["set0"], ["expand_last_as"], ["set", "expand"],
                ["set", "delete"], ["set", "expand_last_as"], ["set", "prepend"], ["prepend", "expand"],
                ["prepend", "delete"], ["prepend", "expand_last_as"], ["delete", "expand"],
                ["delete", "expand_last_as"], ["prepend", "delete", "expand_last_as"]):
        calls = []
        for o in ops:
            if o == "set0":
                calls.append(["as_path", "set", []])
            elif o == "expand_last_as":
                calls.append(["as_path", "expand_last_as", 2])
            else:
                calls.append(["as_path", o, [65000, 65001]])
        acts.append(calls)
    for t in ("self", "peer", "discard"):
        acts.append([["next_hop", t]])
    acts += [[["next_hop", "ipv4_addr", "192.0.2.1"]], [["next_hop", "ipv6_addr", "2001:db8::1"]],
             [["next_hop", "mapped_ipv4", "192.0.2.2"]]]
    acts += [[["set_metric", 10]], [["add_metric", 5]], [["set_local_pref", 100]], [["set_metric_type", "type-1"]],
             [["set_origin", "igp"]], [["set_tag", 7]], [["set_mpls_label"]], [["set_rpki_valid_state", "valid"]],
             [["set_resolution", "x"]]]
    conds = []
    for f in ("community", "large_community", "extcommunity_rt", "extcommunity_soo"):
        for o in ("has", "has_any"):
            for names in (POOL[f][:1], POOL[f][:2], POOL[f][:3]):
                conds.append([[f, o, names]])
    for o in ("has", "has_any"):
        conds += [[["rd", o, ["RD1"]]], [["rd", o, ["RD1", "RD2"]]]]
    for ol in OR_LONGER[1:]:
        conds += [[["match_v4", ["P4a", "P4b"], list(ol)]], [["match_v6", ["P6a"], list(ol)]]]
    conds += [[["match_v4", ["P4a"], [8, 24]], ["match_v6", ["P6a"], [8, 24]]]]
    conds += [[["as_path_filter", "AS1"]], [["as_path_length", "eq", 3]], [["as_path_length", "ge", 3]],
              [["as_path_length", "le", 3]], [["as_path_length", "between_included", [1, 4]]],
              [["as_path_length", "ge", 1], ["as_path_length", "le", 5]], [["local_pref", "lt", 10]],
              [["interface", "eq", "eth0"]], [["protocol", "eq", "bgp"]], [["metric", "eq", 5]],
              [["net_len", "eq", 24]], [["family", "eq", 4]]]
    out = []
    for vendor in VENDORS:
        for calls in acts:
            cl, pl, af, rd = entities(rng)
            out.append({"vendor": vendor, "clists": cl, "plists": pl, "aspaths": af, "rdfilters": rd,
                        "policies": [{"name": "pol0", "statements": [
                            {"number": 10, "name": "n0", "conds": [["protocol", "eq", "bgp"]],
                             "calls": calls + [["allow"]]},
                            {"number": 20, "name": "n1", "conds": [], "calls": [["set_tag", 1]]}]}]})
        for cs in conds:
            cl, pl, af, rd = entities(rng)
            out.append({"vendor": vendor, "clists": cl, "plists": pl, "aspaths": af, "rdfilters": rd,
                        "policies": [{"name": "pol0", "statements": [
                            {"number": 10, "name": "n0", "conds": cs, "calls": [["set_tag", 1], ["deny"]]}]}]})
    # witnesses of C14_refs_united_name_collision_refuted (Properties/C14.v), replayed on the real generators
    for vendor in ("arista", "cumulus"):
        cl, pl, af, rd = entities(rng)
        cl = [c for c in cl if c["name"] in ("B1", "B2")] + [
            {"name": "B1_OR_B2", "members": ["9:9:9"], "type": "LARGE", "logic": "OR", "use_regex": False}]
        for c in cl[:2]:
            c["use_regex"], c["members"] = False, ["100:1"]
        out.append({"vendor": vendor, "clists": cl, "plists": pl, "aspaths": af, "rdfilters": rd,
                    "policies": [{"name": "pol0", "statements": [
                        {"number": 10, "name": "n0", "conds": [["community", "has_any", ["B1", "B2"]]],
                         "calls": [["allow"]]},
                        {"number": 20, "name": "n1", "conds": [["large_community", "has", ["B1_OR_B2"]]],
                         "calls": [["allow"]]}]}]})
    return out


# sessions: the generator OBJECTS are built once and run for 2-3 devices in sequence (runner: session()).
# Shapes: the same inputs twice on one vendor; the same inputs on arista, then huawei (and the other way
# round); different inputs on one vendor (the entity names come from one pool, so derived names overlap);
# three devices mixing both; cumulus after cumulus.  Every member is an ordinary program of gen_program.
SESSION_SHAPES = [
    ("same-inputs-same-vendor", [("huawei", 0), ("huawei", 0)]),
    ("same-inputs-same-vendor", [("arista", 0), ("arista", 0)]),
    ("same-inputs-same-vendor", [("cumulus", 0), ("cumulus", 0)]),
    ("huawei-after-arista", [("arista", 0), ("huawei", 0)]),
    ("huawei-after-arista", [("arista", 0), ("huawei", 1)]),
    ("arista-after-huawei", [("huawei", 0), ("arista", 0)]),
    ("different-inputs-same-vendor", [("huawei", 0), ("huawei", 1)]),
    ("different-inputs-same-vendor", [("arista", 0), ("arista", 1)]),
    ("different-inputs-same-vendor", [("cumulus", 0), ("cumulus", 1)]),
    ("three-devices", [("arista", 0), ("arista", 1), ("huawei", 0)]),
    ("three-devices", [("huawei", 0), ("cumulus", 0), ("huawei", 0)]),
    ("three-devices", [("arista", 0), ("huawei", 1), ("arista", 0)]),
]


def gen_session(rng, j):
    import copy
    label, shape = SESSION_SHAPES[j % len(SESSION_SHAPES)]
    progs = {}
    members = []
    for vendor, k in shape:
        if k not in progs:
            # mostly constructs every back-end of the session accepts, so that lists are really generated
            progs[k] = gen_program(rng, vendor, tame=rng.random() < 0.75)
        c = copy.deepcopy(progs[k])
        c["vendor"] = vendor
        members.append(c)
    return {"session": members, "shape": label}


def gen_sessions(ctx):
    rng = ctx.rng("sessions")               # own stream: the older families keep their inputs
    n = 600 if ctx.thorough else 132
    sessions = [gen_session(rng, j) for j in range(n)]
    rngp = ctx.rng("session-probes")
    for s_ in sessions:
        for c in s_["session"]:
            add_probes(rngp, c)
    hist = {}
    for s_ in sessions:
        hist[s_["shape"]] = hist.get(s_["shape"], 0) + 1
    ctx.coverage.setdefault("input_distribution", {}).update({
        "sessions": n, "session_runs": sum(len(s_["session"]) for s_ in sessions), "session_shapes": hist,
        "session": "generator objects built once, run for 2-3 devices in sequence; each object twice per device "
                   "(stream consumed row by row, then the real _run_partial_generator)"})
    return sessions


def gen_cases(ctx):
    rng = ctx.rng("gen")
    cases = exhaustive_items(rng)
    n_exh = len(cases)
    n_rand = 9000 if ctx.thorough else 900
    for i in range(n_rand):
        cases.append(gen_program(rng, VENDORS[i % 3], tame=(i % 2 == 0)))
    n_dup = 150 if ctx.thorough else 18
    rng2 = ctx.rng("dup")
    for i in range(n_dup):
        cases.append(duplicate_entities(rng2, gen_program(rng2, VENDORS[i % 3], tame=True)))
    rng3 = ctx.rng("probes")
    for c in cases:
        add_probes(rng3, c)
    ctx.coverage["input_distribution"] = {
        "exhaustive_single_item_programs": n_exh, "random_programs": n_rand,
        "programs_with_duplicate_entity_names": n_dup,
        "or_longer_bounds": [list(x) for x in OR_LONGER],
        "random_streams": "half mostly-valid (constructs the vendor back-end accepts), half unrestricted "
                          "(near-miss: unsupported operators/actions, missing or duplicate numbers, next_policy)",
        "exhaustive_scope": "every builder shape of each action (set/add/remove combinations per community field, "
                            "as_path op combinations, six next_hop targets, simple setters) and of each condition "
                            "(has/has_any over 1..3 lists, or_longer bounds, as_path_length ops) x 3 vendors",
    }
    return cases


# ----------------------------------------------------------------------------------------
# Coq printers

CFIELD = {"community": "FCommunity", "large_community": "FLarge", "extcommunity_rt": "FExtRt",
          "extcommunity_soo": "FExtSoo"}
SFIELD = {"interface": "FInterface", "protocol": "FProtocol", "net_len": "FNetLen", "local_pref": "FLocalPref",
          "metric": "FMetric", "family": "FFamily"}
OPS = {"EQ": "EQ", "GE": "GE", "GT": "GT", "LE": "LE", "LT": "LT", "BETWEEN_INCLUDED": "BETWEEN", "HAS": "HAS",
       "HAS_ANY": "HAS_ANY", "CUSTOM": "CUSTOM"}
AFIELD = {"community": "AFCommunity", "large_community": "AFLarge", "extcommunity": "AFExt",
          "extcommunity_rt": "AFExtRt", "extcommunity_soo": "AFExtSoo"}
ATYPE = {"SET": "TSET", "ADD": "TADD", "REMOVE": "TREMOVE", "CUSTOM": "TCUSTOM"}
TFIELD = {"local_pref": "TLocalPref", "metric_type": "TMetricType", "mpls_label": "TMplsLabel", "origin": "TOrigin",
          "tag": "TTag", "rpki_valid_state": "TRpki", "resolution": "TResolution"}
NH = {"self": "NHSelf", "discard": "NHDiscard", "peer": "NHPeer", "ipv4_addr": "NHv4", "ipv6_addr": "NHv6",
      "mapped_ipv4": "NHMapped"}
RESULT = {"ALLOW": "RAllow", "DENY": "RDeny", "NEXT": "RNext", "NEXT_POLICY": "RNextPolicy"}
ERRS = {"NotImpl": "ENotImpl", "Runtime": "ERuntime", "Value": "EValue", "Key": "EKey", "Invalid": "EInvalid"}
VENDOR = {"huawei": "Huawei", "arista": "Arista", "cumulus": "Cumulus"}


def strs(l):
    return clist(cstr(str(x)) for x in l)


def onat(x):
    return copt(None if x is None else cnat(int(x)))


def coq_cond(c):
    f, o, v = c["field"], OPS[c["op"]], c["value"]
    if f in CFIELD:
        return f"(CComm {CFIELD[f]} {o} {strs(v)})"
    if f == "rd":
        return f"(CRd {o} {strs(v)})"
    if f in ("ip_prefix", "ipv6_prefix"):
        return f"(CPrefix {cbool(f == 'ipv6_prefix')} {strs(v['names'])} {onat(v['ge'])} {onat(v['le'])})"
    if f == "as_path_length":
        a, b = (v[0], v[1]) if isinstance(v, list) else (v, "")
        return f"(CAsLen {o} {cstr(str(a))} {cstr(str(b))})"
    if f == "as_path_filter":
        return f"(CAsFilter {cstr(v)})"
    if f in SFIELD:
        return f"(CSimple {SFIELD[f]} {o} {cstr(str(v))})"
    raise core.CheckFailure(f"condition outside the model's domain: {c}")


def coq_action(a):
    f, t, v = a["field"], ATYPE[a["type"]], a["value"]
    if f in AFIELD:
        rep = copt(None if v["replaced"] is None else strs(v["replaced"]))
        return f"(AComm {AFIELD[f]} {rep} {strs(v['added'])} {strs(v['removed'])})"
    if f == "metric":
        return f"(AMetric {t} {cstr(str(v))})"
    if f == "as_path":
        st = copt(None if v["set"] is None else strs(v["set"]))
        return (f"(AAsPath {st} {strs(v['prepend'])} {strs(v['expand'])} {strs(v['delete'])} "
                f"{cstr(str(v['expand_last_as']))})")
    if f == "next_hop":
        return f"(ANextHop {NH[v['target']]} {cstr(v['addr'])})"
    if f in TFIELD:
        return f"(ASimple {TFIELD[f]} {t} {cstr(str(v))})"
    raise core.CheckFailure(f"action outside the model's domain: {a}")


def coq_prog(case, prog):
    cl = clist(f"CL {cstr(c['name'])} {strs(c['members'])} {c['type']} {'LAND' if c['logic'] == 'AND' else 'LOR'} "
               f"{cbool(c['use_regex'])}" for c in case["clists"])

    def pmem(m):
        net = ipaddress.ip_network(m[0])     # what IpPrefixListMember.__post_init__ stores
        addr, ln = str(net.network_address), str(net.prefixlen)
        return f"PM {cstr(addr)} {cstr(ln)} {onat(m[1])} {onat(m[2])}"
    pl = clist(f"PL {cstr(p['name'])} {cbool(p['v6'])} {clist(pmem(m) for m in p['members'])}" for p in case["plists"])
    af = clist(f"AF {cstr(a['name'])} {strs(a['filters'])}" for a in case["aspaths"])
    rd = clist(f"RD {cstr(r['name'])} {cnat(r['number'])} {strs(r['members'])}" for r in case["rdfilters"])
    pols = clist(
        f"Pol {cstr(p['name'])} " + clist(
            f"St {onat(s['number'])} {RESULT[s['result']]} {clist(coq_cond(c) for c in s['conds'])} "
            f"{clist(coq_action(a) for a in s['acts'])}" for s in p["statements"])
        for p in prog)
    return f"(Prog (Env {cl} {pl} {af} {rd}) {pols})"


def coq_tag(t):
    if t is None:
        return "None"
    k = {"s": "KStmt", "c": "KCond", "a": "KAct"}[t[2]]
    return f"(Some (Tag {cnat(t[0])} {cnat(t[1])} {k} {cnat(t[3])}))"


def coq_err(e):
    if e is None:
        return "None"
    return f"(Some ({ERRS.get(e['cls'], 'EOther')}, {coq_tag(e['tag'])}))"


def coq_run(r):
    if "ok" in r:
        return f"(ROk {cforest(r['ok'])})"
    if "none" in r:
        return "RNone"
    return {"Acl": "RAcl", "Gen": "RGen", "Parser": "RParser"}.get(r["err"], "ROther")


def coq_obs(vendor, gens):
    items = []
    for name, o in gens.items():
        if vendor == "arista" and name == "rd":
            if o["rows"] or "none" not in o["runner"]:
                raise core.CheckFailure(f"arista RD generator unexpectedly active: {o}")
            continue
        rows = clist(f"IR {strs(r['path'])} {cstr(r['text'])} {cbool(r['hdr'])} {coq_tag(r['tag'])}"
                     for r in o["rows"])
        items.append(f"IG {GNAMES[name]} {rows} {coq_err(o['err'])} {coq_run(o['runner'])}")
    return clist(items)


def coq_case(case, out):
    return cpair(cpair(VENDOR[case["vendor"]], coq_prog(case, out["prog"])), coq_obs(case["vendor"], out["gens"]))


PREDS = {
    "agree": "fun c => agree patched (fst (fst c)) (snd (fst c)) (snd c)",
    "agree_full": "fun c => agree_full patched (fst (fst c)) (snd (fst c)) (snd c)",
    "acl": "fun c => P_C14_a (fst (fst c)) (snd (fst c)) (snd c)",
    # the C06 model of ACL filtering, fed the ACL text read from the source, on the REAL rows
    "acl_model": "fun c => P_acl_model (fst (fst c)) (snd c)",
    "nesting": "fun c => P_C14_b (fst (fst c)) (snd (fst c)) (snd c)",
    "refs": "fun c => P_C14_c (fst (fst c)) (snd (fst c)) (snd c)",
    "refs_split": "fun c => P_C14_c_split (fst (fst c)) (snd (fst c)) (snd c)",
    "before": "fun c => P_C14_d (fst (fst c)) (snd (fst c)) (snd c)",
    # domain of theorem C14_refs_defined (counted, not a verdict)
    "refs_thm_domain": "fun c => wf_refs (snd (fst c)) && refs_guard (fst (fst c)) (snd (fst c)) && "
                       "lists_ok (fst (fst c)) (snd (fst c))",
    "wf": "fun c => wf_prog (snd (fst c))",
}

# ----------------------------------------------------------------------------------------
# signatures (named from the failing case; the decision itself is Coq's)


def item_field(out, tag):
    if tag is None:
        return "list-phase"
    st = out["prog"][tag[0]]["statements"][tag[1]]
    if tag[2] == "a":
        return st["acts"][tag[3]]["field"]
    if tag[2] == "c":
        return "match-" + st["conds"][tag[3]]["field"]
    return "statement"


def signature(kind, case, out):
    v = case["vendor"]
    if kind == "before":
        for name, o in out["gens"].items():
            e = o["err"]
            if e and e["tag"] is not None and any(r["tag"] == e["tag"] for r in o["rows"]):
                return (f"C14/{v}/{item_field(out, e['tag'])}/partial-emission-before-error",
                        f"{v}: lines of a `{item_field(out, e['tag'])}` item are streamed by run(device) and then "
                        f"the same item is rejected with {e['cls']} ({e['msg']})")
    if kind == "acl":
        for name, o in out["gens"].items():
            r = o["runner"]
            if r.get("err") == "Acl":
                return (f"C14/{v}/{name}-generator/acl-uncovered",
                        f"{v} {name} generator yields a row its own ACL does not cover: {r.get('msg')}")
            if "err" in r and not (r["err"] == "Gen" and o["err"]):
                return (f"C14/{v}/{name}-generator/runner-{r['err']}",
                        f"{v} {name} generator: real runner outcome {r} with stream error {o['err']}")
            if "ok" in r and o["err"]:
                return (f"C14/{v}/{name}-generator/runner-ok-after-stream-error", f"{o['err']}")
    if kind == "acl_model":
        return (f"C14/{v}/row-not-covered-by-own-acl",
                f"{v}: a row streamed by a generator is not covered by that generator's own ACL text "
                f"(Model/Acl.v on Gen/Src_rpl.v)")
    if kind == "nesting":
        return (f"C14/{v}/nesting-differs", f"{v}: parsed nesting of the generated text differs from the yielded one")
    if kind in ("refs", "refs_split"):
        names = {c["name"] for c in case["clists"]}
        for pol in out["prog"]:
            for st in pol["statements"]:
                for c in st["conds"]:
                    if c["field"] in CFIELD and c["op"] == "HAS_ANY" and len(c["value"]) > 1 \
                            and "_OR_".join(c["value"]) in names:
                        return (f"C14/{v}/united-name-collides-with-list-name",
                                f"{v}: HAS_ANY over {c['value']} next to a list literally called "
                                f"{'_OR_'.join(c['value'])}: the dictionary of used lists is keyed by the mangled "
                                f"name, one entry overwrites the other and the policy refers to a list that no "
                                f"row defines in that name space")
        return (f"C14/{v}/undefined-reference",
                f"{v}: a policy row refers to a named list the list generators do not define under that name")
    return (f"C14/{v}/{kind}", kind)


# ----------------------------------------------------------------------------------------


INDEP_TY = "list igen * list igen"
INDEP_PREDS = {"indep": "fun c => P_C14_indep (fst c) (snd c)"}
INDEP_GENS = {g: f"fun c => forallb (fun nb => negb (gname_eqb (fst nb) {GNAMES[g]}) || snd nb) "
                 f"(indep_per_gen (fst c) (snd c))" for g in GNAMES}


def evaluate_sessions(sessions, tag="sessions"):
    """every run of every session is a case of its own for all predicates (flat), and Coq compares each run
    with the run of new objects on the same inputs"""
    if not sessions:
        return [], [], {}, [], {}
    souts = core.run_impl_sharded("c14_runner.py", sessions, timeout=1200)
    flat_cases, flat_outs, where, fresh = [], [], [], []
    for si, (s_, o) in enumerate(zip(sessions, souts)):
        for k, (c, r) in enumerate(zip(s_["session"], o["session"])):
            if "build_error" in r["run"] or "build_error" in r["fresh"]:
                continue
            flat_cases.append(c)
            flat_outs.append(r["run"])
            fresh.append(r["fresh"])
            where.append((si, k))
    terms = [coq_case(c, o) for c, o in zip(flat_cases, flat_outs)]
    res = core.run_case_files(ID, TY, IMPORTS, PREDS, terms, per_file=60, tag=tag, timeout=1200)
    nres = core.run_case_files(ID, "nameobs", IMPORTS, {"names": "names_agree"},
                               [coq_names(o["names"]) for o in flat_outs], per_file=400, tag=tag + "_names",
                               timeout=600)
    res["names"] = nres["names"]
    iterms = [cpair(coq_obs(c["vendor"], f["gens"]), coq_obs(c["vendor"], o["gens"]))
              for c, f, o in zip(flat_cases, fresh, flat_outs)]
    ires = core.run_case_files(ID, INDEP_TY, IMPORTS, dict(INDEP_PREDS, **INDEP_GENS), iterms, per_file=60,
                               tag=tag + "_indep", timeout=1200)
    res["indep"] = ires["indep"]
    res["indep_gens"] = {j: [g for g in GNAMES if j in ires[g]] for j in ires["indep"]}
    return flat_cases, flat_outs, res, where, {"fresh": fresh, "souts": souts}


def session_replay(sessions, where, j):
    si, k = where[j]
    return {"session": sessions[si]["session"][:k + 1], "shape": sessions[si].get("shape"), "failing_run": k}


def evaluate(cases, tag="cases"):
    outs = core.run_impl_sharded("c14_runner.py", cases, timeout=1200)
    keep = [i for i, o in enumerate(outs) if "build_error" not in o]
    terms = [coq_case(cases[i], outs[i]) for i in keep]
    res = core.run_case_files(ID, TY, IMPORTS, PREDS, terms, per_file=60, tag=tag, timeout=1200)
    res = {k: [keep[i] for i in v] for k, v in res.items()}
    nterms = [coq_names(outs[i]["names"]) for i in keep]
    nres = core.run_case_files(ID, "nameobs", IMPORTS, {"names": "names_agree"}, nterms, per_file=400,
                               tag=tag + "_names", timeout=600)
    res["names"] = [keep[i] for i in nres["names"]]
    return outs, keep, res


def coq_names(n):
    pfx = clist("(" + ", ".join([cstr(q[0]), onat(q[1]), onat(q[2]), cstr(q[3])]) + ")" for q in n["pfx"])
    mg = clist(cpair(strs(q[0]), cstr(q[1])) for q in n["mangle"])
    return f"(NO {pfx} {mg})"


def nontrivial(case, out):
    """non-trivial = some generator raised, or the policy stream has >= 3 item rows and a name reference"""
    gens = out["gens"]
    if any(o["err"] for o in gens.values()):
        return True
    rows = [r for o in gens.values() for r in o["rows"] if r["tag"] and r["tag"][2] in "ca"]
    return len(rows) >= 3


def run(ctx):
    core.proof_stage(ctx, THEOREM_FILE)
    cases = gen_cases(ctx)
    outs, keep, res = evaluate(cases)
    build_errors = [i for i, o in enumerate(outs) if "build_error" in o]
    if len(build_errors) > len(cases) // 50:
        raise core.CheckFailure(f"{len(build_errors)} programs refused by the builders, e.g. "
                                f"{outs[build_errors[0]]} for {cases[build_errors[0]]}")
    not_wf = set(res["wf"])
    if len(not_wf) > len(cases) // 50:
        i = sorted(not_wf)[0]
        raise core.CheckFailure(f"{len(not_wf)} generated programs outside wf_prog, e.g. {cases[i]}")
    failing = set()
    for kind in ("before", "acl", "acl_model", "nesting", "refs", "refs_split"):
        for i in res[kind]:
            if kind == "refs_split" and i in res["refs"]:
                continue
            failing.add(i)
            sig, what = signature(kind, cases[i], outs[i])
            ctx.add_violation(core.Violation(signature=sig, what=what,
                                             replay={"predicate": kind, "case": cases[i], "impl": outs[i]}))
    # word-for-word comparison of every row (names, members, bounds, numbers), also outside wf_prog
    # (programs with duplicate entity names are outside it and are compared all the same)
    disagree = [i for i in res["agree_full"] if i not in failing]
    for i in disagree[:1]:
        ctx.add_violation(core.Violation(
            signature="C14/model-impl-disagree",
            what="the Coq model of the rpl generators and the real generators differ (rows compared word for "
                 "word with block path, item and error class) on a program where the property holds"
                 + ("" if i in res["agree"] else "; they agree under the abstraction (head, names, nesting)"),
            replay={"correspondence": "Model.Rpl.run_all patched vs annet.rpl_generators (agree_full)",
                    "case": cases[i], "impl": outs[i]}, no_input=True))
    # ---- sessions: every run of a generator object that has been run before
    sessions = gen_sessions(ctx)
    scases, souts, sres, where, extra = evaluate_sessions(sessions)
    sfailing = set()
    for kind in ("before", "acl", "acl_model", "nesting", "refs", "refs_split"):
        for j in sres[kind]:
            if kind == "refs_split" and j in sres["refs"]:
                continue
            sfailing.add(j)
            sig, what = signature(kind, scases[j], souts[j])
            k = where[j][1]
            if j in sres["indep"]:
                # the same inputs given to new objects behave differently: the earlier runs are the cause
                sig += "/in-a-later-run-of-the-same-generator-objects"
                what += (f" -- in run {k + 1} of a session of the same generator objects "
                         f"({sessions[where[j][0]]['shape']}); generators whose output differs from a run of new "
                         f"objects on the same inputs: {sres['indep_gens'].get(j)}")
            ctx.add_violation(core.Violation(signature=sig, what=what,
                                             replay={"predicate": kind, "case": session_replay(sessions, where, j),
                                                     "impl": souts[j]}))
    for j in sres["indep"]:
        gens = sres["indep_gens"].get(j) or ["?"]
        k = where[j][1]
        ctx.add_violation(core.Violation(
            signature=f"C14/{scases[j]['vendor']}/{gens[0]}-generator/output-depends-on-earlier-runs",
            what=f"{scases[j]['vendor']}: run {k + 1} of a session ({sessions[where[j][0]]['shape']}) - the generator "
                 f"objects {gens} that have been run before give a different stream / runner outcome than new "
                 f"objects on the same inputs (a generator's output must depend on its inputs only)",
            replay={"predicate": "indep", "case": session_replay(sessions, where, j),
                    "impl": {"run": souts[j], "fresh": extra["fresh"][j]}}))
    sdis = [j for j in sres["agree_full"] if j not in sfailing and j not in sres["indep"]]
    for j in sdis[:1]:
        ctx.add_violation(core.Violation(
            signature="C14/model-impl-disagree",
            what="the Coq model of the rpl generators and the real generators differ in a session run although new "
                 "objects agree with the session's objects",
            replay={"correspondence": "Model.Rpl.run_all patched vs annet.rpl_generators (agree_full)",
                    "case": session_replay(sessions, where, j), "impl": souts[j]}, no_input=True))
    ctx.coverage["session_runs_evaluated"] = len(scases)
    ctx.coverage["session_runs_with_a_generator_error"] = sum(
        1 for o in souts if any(g["err"] for g in o["gens"].values()))
    ctx.coverage["session_runs_differing_from_new_objects"] = len(sres["indep"])
    ctx.coverage["session_rows_compared_word_for_word"] = sum(len(g["rows"]) for o in souts for g in o["gens"].values())
    for j in sres["names"][:1]:
        ctx.add_violation(core.Violation(
            signature="C14/name-derivation-disagree",
            what="Model.Rpl.pfx_name / mangle differ from the real name-derivation functions on a probe (session run)",
            replay={"correspondence": "Spec.P_C14x.names_agree", "case": session_replay(sessions, where, j),
                    "impl": souts[j]["names"]}, no_input=True))
    for i in res["names"][:1]:
        ctx.add_violation(core.Violation(
            signature="C14/name-derivation-disagree",
            what="Model.Rpl.pfx_name / mangle differ from PrefixListNameGenerator.get_prefix(...).name / "
                 "mangle_united_community_list_name on a probe",
            replay={"correspondence": "Spec.P_C14x.names_agree", "case": cases[i], "impl": outs[i]["names"]},
            no_input=True))
    seen, nontriv = set(), 0
    hist = {"ok": 0, "error": 0}
    errs = {}
    for i in keep:
        o = outs[i]
        anyerr = any(g["err"] for g in o["gens"].values())
        hist["error" if anyerr else "ok"] += 1
        for g in o["gens"].values():
            if g["err"]:
                k = f"{cases[i]['vendor']}/{item_field(o, g['err']['tag'])}/{g['err']['cls']}"
                errs[k] = errs.get(k, 0) + 1
        h = core.canon_hash([cases[i]["vendor"], o["prog"], cases[i]["clists"], cases[i]["plists"]])
        if h in seen:
            continue
        seen.add(h)
        if nontrivial(cases[i], o):
            nontriv += 1
    ctx.coverage.update({
        "evaluations": len(keep) + len(scases),
        "distinct_nontrivial": nontriv,
        "rule": "distinct by (vendor, program after the builders, entity sets); non-trivial = some generator raised "
                "or the policy stream carries >= 3 rows of conditions/actions",
        "samples": [{"input": cases[i], "impl": outs[i]} for i in keep[-2:]],
        "traces_validated_against_impl": len(keep) + len(scases),
        "disagreements_checked": len(disagree),
        "outcome_histogram": hist,
        "error_classes_seen": dict(sorted(errs.items())),
        "builder_refusals": len(build_errors),
        "cases_in_domain_of_C14_refs_defined": len(keep) - len(res["refs_thm_domain"]),
        "name_derivation_probes": sum(len(outs[i]["names"]["pfx"]) + len(outs[i]["names"]["mangle"]) for i in keep),
        "rows_compared_word_for_word": sum(len(g["rows"]) for i in keep for g in outs[i]["gens"].values()),
        "outside_wf": len(not_wf),
        "exhaustive": False,
    })
    ctx.assumptions += [
        "names of entities are single words distinct from the command keywords additive/delete/matches-all/"
        "regexp/basic/advanced/standard/expanded (wf domain of the generator of inputs)",
        "references of a policy to lists are type-correct and resolve (wf_prog); KeyError for unknown names and "
        "ValueError for a BASIC/LARGE list in an extcommunity action are outside the domain",
        "rows are compared word for word (words of the text = tokens of the model split at blanks); addresses are "
        "given to the model in the canonical form ipaddress.ip_network prints",
        "C14_refs_defined reads rows as token lists (Model.Rpl.alpha) and holds under refs_guard (Arista reserved "
        "words, one union per mangled key) and wf_refs (referenced lists exist, have members, type-correct; entity "
        "names may repeat)",
        "C14_acl_covered: row text = tokens joined by single blanks; Cumulus has no ACL (text generator)",
        "CommunityType.COST, custom conditions/actions and set_next_hop (undocumented) are outside the domain",
        "a generator object behaves like a function of (device inputs): premise history_free of the session theorems; "
        "observed on sessions of 2-3 devices per set of generator objects (P_C14_indep against new objects); the "
        "runner resets TreeGenerator._block_path (its own observation device, read by nothing in annet) before a run",
    ]
    ctx.notes.append("level: partial — see META.note")


def replay(ctx, doc):
    c = doc["replay"]["case"]
    if "session" in c:
        scases, souts, sres, where, extra = evaluate_sessions([c], tag="replay_sess")
        last = len(scases) - 1
        kinds = ("before", "acl", "acl_model", "nesting", "refs", "refs_split", "indep")
        bad = [k for k in kinds if last in sres[k]]
        print("impl (last run of the session):", json.dumps(souts[last])[:3000])
        print("failing predicates on the last run:", bad, " generators differing from new objects:",
              sres["indep_gens"].get(last))
        return 1 if bad else 0
    outs, keep, res = evaluate([c], tag="replay")
    print("impl:", json.dumps(outs[0])[:3000])
    bad = [k for k in ("before", "acl", "acl_model", "nesting", "refs", "refs_split") if res[k]]
    print("failing predicates:", bad, "agree:", not res["agree"])
    return 1 if bad else 0
