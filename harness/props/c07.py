"""C07 — rule patterns mean what the rule language says, in every rulebook kind (DESIGN §3.C07)."""
from __future__ import annotations

import itertools
import re

from .. import core
from ..core import cstr, clist, cbool, copt

ID = "C07"
THEOREM_FILE = "Properties/C07.v"
IMPORTS = "From Annet Require Import Base.Str Model.Pattern Model.PatternX Spec.P_C07 Spec.P_C07X."
TY = "c07_in * c07_out"
IMPORTS_T = ("From Annet Require Import Base.Str Model.Pattern Model.PatternX Model.PatternT Model.PatternY "
             "Spec.P_C07 Spec.P_C07X Spec.P_C07T Spec.P_C07Y.")
TY_T = "c07t_in * c07t_out"
META = {
    "text": "Proof: for every plain pattern (literal words, `*`, `*/re/`, trailing `~`) and every row, the word-level "
            "matcher that models compile_row_regexp returns a key exactly when the declarative relation matches_spec "
            "holds (one word per token at word boundaries, key = bound words, `~` binds the rest), the key has one entry "
            "per placeholder, the derivative matcher of one-word regexps decides their language, and "
            "_make_reverse(...).format(*key) is the negation word followed by the rule's words with the key substituted "
            "(prefix stripped when already present; negating twice gives the rule back). The same theorems are proved for "
            "the extended language in which a rule word may be a one-word regular expression that binds nothing "
            "(`(ftp|FTP)`, `(?:permit|deny)`, `vlans?`, `[11|12]`, `~/re/`): match iff the declarative relation, key = "
            "the words bound by the placeholders only, key length = number of placeholders (+ the exact excess caused "
            "by the code's un-neutralised groups in rows without `*`), removal command keeps a regex word's source text "
            "and drops `~/re/`; the plain language is proved to be the sub-language (same parser, matcher, spec), and "
            "the two places where compile_row_regexp deviates (plain groups stay capturing in a row without `*`; no "
            "trailing word boundary in a row with `~/re/`) are modelled faithfully, excluded by an explicit guard and "
            "shown necessary by refutation theorems (known findings). Correspondence: Coq evaluates "
            "model==implementation and the declarative predicate on the real compile_row_regexp/.groups()/_make_reverse/"
            ".format outputs, exhaustively over small patterns x rows (plain and with regex words), and on every shipped "
            "rule line the extended language covers (through the regexps stored in the really compiled patching/"
            "ordering/deploy rulebooks, the ACL and the implicit compilers), with rows synthesised from the model (every "
            "enumerated word of every regex word, proved to be in its language) and near-miss mutants. "
            "Second extension (Model/PatternY.v, conservative over the first: C07Y_conservative): a placeholder glued to a "
            "literal suffix (`*/(ip|ipv6)/-prefix`) and special last words `w...`, `w~`, `*/a.*/`, `*/a.+/` (`.` crosses "
            "blanks: binds the rest of the row), `w$`, `*/r$/`: proved for all patterns/rows: matcher = declarative relation "
            "(C07Y_match_iff, C07Y_match_iff_new), key unique, key length, parser returns well-formed patterns that print "
            "back to the text, ignore_case (C07Y_ignore_case; C07X_ignore_case for the first extension, both peculiarities "
            "included); the removal-command half for the new forms is proved too: for every well-formed pattern, negation "
            "word and key the text-level _make_reverse(...).format(*key) equals the token-level reading (C07Y_reverse, "
            "C07Y_reverse_template; a glued placeholder keeps its suffix, `w~` keeps w, `w...`/`w$` keep their text), so "
            "the whole predicate holds of the model (C07Y_holds, guard quirk_free and no inline (?i)); parser after "
            "printer holds exactly on the parser's normal form (C07Y_parse_print, C07Y_parse_print_iff: yparse_canon is "
            "necessary and sufficient; the unguarded statement is refuted by C07Y_parse_print_refuted: the text `a ~` is "
            "read as PatternX reads it, and a last regex word such as `a\\$` after a glued placeholder is taken for a "
            "`w$` word and rejected, fail closed; the real compile_row_regexp sees one text either way). The shipped "
            "lines it covers are compared with CPython re (direct and negated form, removal template included) on "
            "synthesised rows and mutants. Rule-TEXT entry points: the model of _parse_raw_rule (strip, %params cut, "
            "runs of blanks/tabs collapsed) is proved to return the words of the line joined by single blanks "
            "(C07T_collapse, C07T_row_words, C07T_spacing_irrelevant, C07T_row_normal_form) and the model of the three "
            "text compilers satisfies the text-level predicate (C07T_holds); a share of the cases goes through "
            "compile_patching_text / compile_acl_text / compile_ordering_text with irregular spacing and %params, "
            "comparing matches, keys, removal commands and the ACL/ordering reverse forms.",
    "technique": "Coq induction on tokens/words/characters, Brzozowski derivatives; vm_compute differential check",
    "note": "Shipped rule lines still outside both extensions (15 rule texts: `.`/`.*` not at the end of the last "
            "placeholder or in a literal word, `$` inside an alternative, a glued placeholder before `...`, groups spanning "
            "two words, `*` inside a word, an alternation not closed in a group, a lookahead) are listed as unmodelled in the "
            "evidence and excluded from the claim (fail closed). C07X_match_iff / C07X_holds / C07Y_match_iff carry the "
            "guard quirk_free; C07X_bare_group_refuted and C07X_no_boundary_refuted show it is needed. For the new forms of "
            "the second extension both halves of the predicate are proved of the model (C07Y_holds_partial: matching, "
            "C07Y_holds: matching and removal commands, for rule rows without inline (?i)); the "
            "text-level theorems assume ASCII text whose blanks are space and \\t..\\r (no separators 28..31).",
}

FKEY = ["K1", "K2", "K3", "K4", "K5", "K6"]


# --------------------------------------------------------------------------------------
# generators


def patterns(lits, max_tok):
    """all patterns of 1..max_tok tokens over lits + `*` + `*/[ab]+/`, optional trailing `~`"""
    toks = list(lits) + ["*", "*/[ab]+/"]
    out = []
    for n in range(1, max_tok + 1):
        for combo in itertools.product(toks, repeat=n):
            out.append(" ".join(combo))
        for combo in itertools.product(toks, repeat=n - 1):
            out.append(" ".join(combo + ("~",)))
    return out


def rows_over(alpha, max_words):
    out = []
    for n in range(1, max_words + 1):
        for combo in itertools.product(alpha, repeat=n):
            out.append(" ".join(combo))
    return out


ALPHA = {"A1": ["no", "ab", "abc"], "A2": ["No", "aB", "ABc"]}


def gen_exhaustive(ctx):
    """family (i): patterns <= 4 tokens x rows <= 5 words, with and without ignore_case"""
    cases = []
    pats = patterns(["no", "ab"], 4)
    if ctx.thorough:
        chosen = pats
        max_words = 5
    else:
        # deterministic subsample: everything up to 3 tokens, every 4th of the 4-token patterns
        small = [p for p in pats if len(p.split()) <= 3]
        big = [p for p in pats if len(p.split()) == 4]
        off = ctx.seed % 4
        chosen = small + big[off::4]
        max_words = 4
    for p in chosen:
        for an in ("A1", "A2"):
            for ic in (False, True):
                if not ctx.thorough and an == "A2" and not ic and len(p.split()) == 4:
                    continue
                cases.append({"kind": "raw", "rule": p, "prefix": "no", "ic": ic, "fkey": FKEY[:4],
                              "rows": ("rows_" + an, max_words), "src": "exhaustive"})
    scope = (f"{len(chosen)} of {len(pats)} patterns <= 4 tokens over {{no, ab, *, */[ab]+/, trailing ~}} x all "
             f"{len(rows_over(ALPHA['A1'], max_words))} rows <= {max_words} words over {ALPHA['A1']} and {ALPHA['A2']}, "
             f"ignore_case on/off")
    return cases, scope, len(chosen) == len(pats) and max_words == 5


def gen_reverse(ctx):
    """family (i'): reverse templates for several vendors' negation words, keys too short / exact / long,
    inline (?i), the prefix word in every position"""
    cases = []
    some_rows = ["ab", "ab ab", "no ab", "undo ab ab", "ab abc ab", "delete ab ab ab", "- ab", "remove ab no ab"]
    for prefix in ["undo", "no", "delete", "remove", "-"]:
        for p in patterns([prefix, "ab"], 3 if not ctx.thorough else 4):
            n = len(p.split())
            if not ctx.thorough and n == 3 and (hash_small(p + prefix) % 2):
                continue
            for klen in (0, 1, 4):
                cases.append({"kind": "raw", "rule": p, "prefix": prefix, "ic": False, "fkey": FKEY[:klen],
                              "rows": some_rows, "src": "reverse"})
    # inline flag: "(?i)" glued to a token (compile_row_regexp removes the text and sets IGNORECASE)
    for p in patterns(["no", "ab"], 2):
        toks = p.split()
        for i in range(len(toks)):
            if toks[i] in ("*", "~"):
                continue
            t = list(toks)
            t[i] = ("*/(?i)" + t[i][2:]) if t[i].startswith("*/") else "(?i)" + t[i]
            cases.append({"kind": "raw", "rule": " ".join(t), "prefix": "no", "ic": False, "fkey": FKEY[:3],
                          "rows": ("rows_A2", 3), "src": "inline-flag"})
    return cases



# one-word regular expressions that bind nothing: bare words (LitRe) and `~/re/` (TildeRe)
EXT_TOKS = ["(ab|no)", "(?:ab|abc)", "abc?", "[an][bo]", "~/(ab|no)/", "~/ab?/"]


def ext_patterns(base, ext, max_tok):
    """patterns of 1..max_tok tokens over base+ext that contain at least one ext token"""
    toks = list(base) + list(ext)
    out = []
    for n in range(1, max_tok + 1):
        for combo in itertools.product(toks, repeat=n):
            if any(t in ext for t in combo):
                out.append(" ".join(combo))
        for combo in itertools.product(toks, repeat=n - 1):
            if any(t in ext for t in combo):
                out.append(" ".join(combo + ("~",)))
    return out


def gen_exhaustive_ext(ctx, accepted):
    """family (i-ext): patterns <= 3 tokens with at least one regex word x rows <= 4 words; `accepted`
    decides (in Coq) which rule texts the extended language covers"""
    pats = [p for p in ext_patterns(["no", "ab", "*", "*/[ab]+/"], EXT_TOKS, 3) if accepted(p, "no")]
    if ctx.thorough:
        chosen = pats
    else:
        small = [p for p in pats if len(p.split()) <= 2]
        big = [p for p in pats if len(p.split()) == 3]
        off = ctx.seed % 6
        chosen = small + big[off::6]
    cases = []
    for p in chosen:
        fams = ((("A1", 4), False), (("A2", 3), True)) if not ctx.thorough else ((("A1", 4), False), (("A2", 4), True))
        for (an, mw), ic in fams:
            cases.append({"kind": "raw", "rule": p, "prefix": "no", "ic": ic, "fkey": FKEY[:4],
                          "rows": ("rows_" + an, mw), "src": "exhaustive-ext"})
    scope = (f"{len(chosen)} of {len(pats)} accepted patterns <= 3 tokens over {{no, ab, *, */[ab]+/, trailing ~}} + "
             f"{EXT_TOKS} with at least one regex word x all rows <= 4 words (quick: <= 3 words for the ignore_case half)")
    return cases, scope


def gen_reverse_ext(ctx, accepted):
    """family (i'-ext): reverse templates of rules with regex words, the negation word in every position"""
    cases = []
    some_rows = ["ab", "ab ab", "no ab", "undo ab ab", "ab abc ab", "delete no ab ab", "no no", "undo abc no ab"]
    for prefix in ["undo", "no", "delete"]:
        for p in ext_patterns([prefix, "ab", "*"], ["(ab|no)", "(?:ab|abc)", "~/ab?/"], 3):
            if not accepted(p, prefix):
                continue
            if not ctx.thorough and len(p.split()) == 3 and (hash_small(p + prefix) % 3):
                continue
            for klen in ((0, 1, 4) if ctx.thorough else (1, 4)):
                cases.append({"kind": "raw", "rule": p, "prefix": prefix, "ic": False, "fkey": FKEY[:klen],
                              "rows": some_rows, "src": "reverse-ext"})
    return cases


# --- rule lines through the rule-TEXT entry points ------------------------------------------

VENDOR_OF_PREFIX = {"no": "cisco", "undo": "huawei", "delete": "juniper", "remove": "routeros", "-": "pc"}
GAPS = ["  ", "\t", "   ", " \t", "\t\t", "    ", " \t ", " "]
SFX_P = ["", "", "   %comment=c1", "\t%global", "  %ignore_case", "    %comment=a  %multiline", " \t %force_commit=1"]
SFX_A = ["", "", "  %cant_delete=1", "\t%prio=5", "   %global", "  %cant_delete=0   %prio=2"]
SFX_O = ["", "", "   %order_reverse", "\t%global", "  %scope=patch", " \t%order_reverse=1  %global=0"]
TEXT_HAND = [
    "no shutdown", "shutdown", "no ip redirects", "ip address * *", "mtu */\\d+/", "no ip proxy-arp",
    "description ~", "no description ~", "interface * mtu */\\d+/ ~", "undo interface * mtu", "undo undo ab",
    "delete interfaces * unit */\\d+/", "delete delete", "no no shutdown", "route-map * (?:permit|deny) *",
    "no route-map * (?:permit|deny) *", "undo (ftp|FTP) *", "vlans? * name ~",
]


def respace(rule: str, rng, lead: bool = True) -> tuple[str, str]:
    """the rule line with every blank replaced by a run of blanks / tabs; returns (text, spacing class)"""
    toks = rule.split(" ")
    gaps = [rng.choice(GAPS) for _ in toks[1:]]
    if gaps and all(g == " " for g in gaps):
        gaps[rng.randrange(len(gaps))] = rng.choice(GAPS[:-1])
    body = toks[0] + "".join(g + t for g, t in zip(gaps, toks[1:]))
    head = rng.choice(["", "", "  ", "\t"]) if lead else ""
    tail = rng.choice(["", "", " ", "\t", "   "])
    cls = "single-token" if not gaps else ("tab" if any("\t" in g for g in gaps) else "blanks")
    return head + body + tail, cls


def gen_text_rules(ctx, shipped_modelled):
    """(rule text single-spaced, negation word, vendor for the compilers, per-token samples or None, family)"""
    out = []
    for prefix in ("no", "undo", "delete"):
        for t in TEXT_HAND:
            out.append((t, prefix, VENDOR_OF_PREFIX[prefix], None, "text-hand"))
    for prefix in ("no", "undo", "delete", "remove", "-"):
        for p in patterns([prefix, "ab"], 3):
            if ctx.thorough or hash_small("T" + p + prefix) % (2 if len(p.split()) <= 2 else 5) == 0:
                out.append((p, prefix, VENDOR_OF_PREFIX[prefix], None, "text-small"))
    step = 1 if ctx.thorough else 6
    off = ctx.seed % step
    seen = set()
    rows = sorted(shipped_modelled, key=lambda r: (r["row"], r["vendor"]))
    for r in rows:
        k = (r["row"], r["prefix"])
        if k in seen or "%" in r["row"] or r["row"].startswith(("!", "#")):
            continue
        seen.add(k)
        if len(r["row"].split(" ")) >= 2:
            out.append((r["row"], r["prefix"], r["vendor"], r["smp"], "text-shipped"))
    ship = [x for x in out if x[4] == "text-shipped"]
    out = [x for x in out if x[4] != "text-shipped"] + ship[off::step]
    return out


# --- reading Coq values back --------------------------------------------------------------

_CTOK = re.compile(r'\s*("(?:[^"]|"")*"|\[|\]|\(|\)|;|,|Some|None|true|false|\d+)')


def parse_coq(txt: str):
    """Coq value printed by vm_compute -> Python: lists, tuples, strings, bool, nat, None / {"some": v}"""
    toks, pos = [], 0
    txt = txt.strip()
    while pos < len(txt):
        m = _CTOK.match(txt, pos)
        if not m:
            raise core.CheckFailure(f"cannot read Coq value at {txt[pos:pos + 60]!r}")
        toks.append(m.group(1))
        pos = m.end()

    def val(i):
        t = toks[i]
        if t == "None":
            return None, i + 1
        if t == "Some":
            v, i = val(i + 1)
            return {"some": v}, i
        if t in ("true", "false"):
            return t == "true", i + 1
        if t[0] == '"':
            return t[1:-1].replace('""', '"'), i + 1
        if t.isdigit():
            return int(t), i + 1
        if t == "[":
            items, i = [], i + 1
            if toks[i] == "]":
                return items, i + 1
            while True:
                v, i = val(i)
                items.append(v)
                if toks[i] == ";":
                    i += 1
                elif toks[i] == "]":
                    return items, i + 1
                else:
                    raise core.CheckFailure("cannot read Coq list")
        if t == "(":
            items, i = [], i + 1
            while True:
                v, i = val(i)
                items.append(v)
                if toks[i] == ",":
                    i += 1
                elif toks[i] == ")":
                    return (items[0] if len(items) == 1 else tuple(items)), i + 1
                else:
                    raise core.CheckFailure("cannot read Coq tuple")
        raise core.CheckFailure(f"cannot read Coq value token {t!r}")

    v, i = val(0)
    if i != len(toks):
        raise core.CheckFailure("trailing text after Coq value")
    return v


def hash_small(s: str) -> int:
    return int(core.canon_hash(s)[:6], 16)


# --- rows for shipped rule lines ---------------------------------------------------------


def sample_word(src: str, rng) -> str | None:
    """a word that the one-word regex `src` probably matches (generator only: both sides are
    evaluated on whatever comes out)"""
    try:
        import re._parser as sp  # py3.11+
    except ImportError:  # pragma: no cover
        import sre_parse as sp
    try:
        tree = sp.parse(src)
    except Exception:
        return None
    pool = "abcdefxyzABC0123456789_-/.:"

    def cat(name):
        n = str(name)
        if "NOT_DIGIT" in n:
            return "x"
        if "DIGIT" in n:
            return rng.choice("0123456789")
        if "NOT_SPACE" in n:
            return rng.choice("ab1/")
        if "NOT_WORD" in n:
            return rng.choice("-/.")
        if "WORD" in n:
            return rng.choice("aZ5_")
        return "x"

    def gen(items) -> str:
        out = []
        for op, av in items:
            o = str(op)
            if o == "LITERAL":
                out.append(chr(av))
            elif o == "NOT_LITERAL":
                out.append("x" if chr(av) != "x" else "y")
            elif o == "ANY":
                out.append(rng.choice("abc123"))
            elif o == "IN":
                neg = any(str(a) == "NEGATE" for a, _ in av)
                cands = []
                for a, v in av:
                    s = str(a)
                    if s == "LITERAL":
                        cands.append(chr(v))
                    elif s == "RANGE":
                        cands.append(chr(rng.randint(v[0], v[1])))
                    elif s == "CATEGORY":
                        cands.append(cat(v))
                if neg:
                    ok = [c for c in pool if c not in cands]
                    out.append(rng.choice(ok))
                else:
                    out.append(rng.choice(cands) if cands else "x")
            elif o == "CATEGORY":
                out.append(cat(av))
            elif o == "BRANCH":
                out.append(gen(rng.choice(av[1])))
            elif o == "SUBPATTERN":
                out.append(gen(av[3]))
            elif o in ("MAX_REPEAT", "MIN_REPEAT"):
                lo, hi, sub = av
                k = rng.randint(lo, min(max(lo, 1) + 2, int(hi) if str(hi) != "MAXREPEAT" else 99))
                out.append("".join(gen(sub) for _ in range(k)))
            elif o == "AT":
                pass
            else:
                raise ValueError(o)
        return "".join(out)

    try:
        w = gen(tree)
    except Exception:
        return None
    if not w or any(c.isspace() or not (33 <= ord(c) <= 126) for c in w):
        return None
    return w


def swapcase_one(w: str, rng) -> str:
    idx = [i for i, c in enumerate(w) if c.isalpha()]
    if not idx:
        return w
    i = rng.choice(idx)
    return w[:i] + w[i].swapcase() + w[i + 1:]


def is_regex_tok(t: str) -> bool:
    return t not in ("*", "~") and (t.startswith(("*/", "~/")) or any(c in t for c in "()[]?+|\\"))


def synth_rows(rule: str, rng, extra_first: list[str] = (), samples: list[list[str]] | None = None) -> list[str]:
    """rows built from the rule's tokens: matching candidates and near-miss mutants.  `samples`: per token,
    words of its language enumerated by the Coq model from the regex AST (Model/PatternX.xtok_samples)"""
    toks = rule.replace("(?i)", "").split(" ")
    if samples is not None and len(samples) != len(toks):
        samples = None
    fill = ["x1", "10", "Eth0/1", "a-b", "foo", "VRF_X", "10.0.0.1", "abc", "2001:db8::1", "ab"]

    def words_of(i, t):
        if samples is not None and samples[i]:
            return samples[i]
        if t.startswith("*/") and t.endswith("/") and len(t) > 3:
            w = sample_word(t[2:-1], rng)
            return [w] if w else []
        return []

    def sampled(i, t):
        # a word that is not matched literally: a regex word, or (second extension) a word for which the
        # model enumerated sample words other than its own text
        return is_regex_tok(t) or (samples is not None and bool(samples[i]) and samples[i] != [t])

    bases = []
    for _ in range(3):
        ws = []
        for i, t in enumerate(toks):
            if t == "*":
                ws.append(rng.choice(fill))
            elif t == "~":
                ws.extend(rng.sample(fill, rng.randint(1, 3)))
            elif sampled(i, t):
                ws.append(rng.choice(words_of(i, t) or fill))
            else:
                ws.append(t)
        bases.append(ws)
    out = []

    def add(ws):
        ws = [w for w in ws if w]
        if ws:
            out.append(" ".join(ws))

    for ws in bases:
        add(ws)
    ws = bases[0]
    n = len(ws)
    # every enumerated word of every regex token in turn, and near misses of it
    for i, t in enumerate(toks):
        if t in ("*", "~") or not sampled(i, t) or i >= n:
            continue
        cands = words_of(i, t)
        for k, w in enumerate(cands[:10]):
            add(ws[:i] + [w] + ws[i + 1:])
            if k < 3:
                add(ws[:i] + [w + "x"] + ws[i + 1:])
                add(ws[:i] + [w[:-1]] + ws[i + 1:])
                add(ws[:i] + [swapcase_one(w, rng)] + ws[i + 1:])
        if len(cands) >= 2:
            add(ws[:i] + [cands[0] + cands[1]] + ws[i + 1:])
            add(ws[:i] + [cands[0], cands[1]] + ws[i + 1:])
        add(ws[:i] + [t] + ws[i + 1:])                    # the regex source itself as a word
    add(ws + ["extra"])                                   # longer row (word boundary after the last token)
    add(ws + ["extra", "more"])
    add(ws[:-1])                                          # drop the last word
    add(ws[:-1] + [ws[-1] + "x"])                         # extend the last word (no boundary)
    add(ws[:-1] + [ws[-1][:-1]])                          # truncate the last word
    add(ws[:-1] + [ws[-1] + ws[-1]])
    for _ in range(2):
        i = rng.randrange(n)
        add(ws[:i] + ws[i + 1:])                          # drop a word
        add(ws[:i] + [ws[i], ws[i]] + ws[i + 1:])         # duplicate a word
        add(ws[:i] + [ws[i] + "Z"] + ws[i + 1:])          # alter a word
        add(ws[:i] + ["Z" + ws[i]] + ws[i + 1:])
        add(ws[:i] + [swapcase_one(ws[i], rng)] + ws[i + 1:])   # change case
        add(ws[:i] + [rng.choice(fill)] + ws[i + 1:])     # replace a word
        if n >= 2:
            j = rng.randrange(n - 1)
            add(ws[:j] + [ws[j] + ws[j + 1]] + ws[j + 2:])      # glue two words
            add(ws[:j] + [ws[j + 1], ws[j]] + ws[j + 2:])       # swap two words
    add([w.upper() for w in ws])
    add([w.lower() for w in ws])
    add(["x"] + ws)                                       # not at the start of the row
    for e in extra_first:
        add([e] + ws)
    seen, res = set(), []
    for r in out:
        if r not in seen and all(33 <= ord(c) <= 126 or c == " " for c in r):
            seen.add(r)
            res.append(r)
    return res


# --------------------------------------------------------------------------------------
# Coq terms


def c_fmt(o) -> str:
    return copt(cstr(o["ok"])) if "ok" in o else "None"


def c_rowout(o) -> str:
    if o is None:
        return "None"
    g, f = o
    return f"(Some ({clist(cstr(x) for x in g)}, {c_fmt(f)}))"


def c_in(c, rule_expr: str | None = None, rows_expr: str | None = None) -> str:
    rows = rows_expr if rows_expr is not None else clist(cstr(r) for r in c["rows"])
    rule = rule_expr if rule_expr is not None else cstr(c["rule"])
    return (f"(C07In {rule} {cstr(c['prefix'])} {cbool(c['ic'])} "
            f"{clist(cstr(k) for k in c['fkey'])} {rows})")


def c_out(o) -> str:
    return f"(C07Out {cstr(o['tmpl'])} {c_fmt(o['ffmt'])} {clist(c_rowout(x) for x in o['rows'])})"


def c_mrows(rows) -> str:
    return clist("None" if g is None else f"(Some {clist(cstr(x) for x in g)})" for g in rows)


def c_inT(c) -> str:
    return (f"(C07TIn {cstr(c['raw_p'])} {cstr(c['raw_a'])} {cstr(c['raw_o'])} {cstr(c['prefix'])} {cbool(c['ic'])} "
            f"{clist(cstr(k) for k in c['fkey'])} {clist(cstr(r) for r in c['rows'])})")


def c_outT(o) -> str:
    return (f"(C07TOut {c_out(o['patch'])} {cstr(o['acl_id'])} {c_mrows(o['acl_d'])} {c_mrows(o['acl_r'])} "
            f"{c_mrows(o['ord_d'])} {c_mrows(o['ord_r'])})")


def parse_bools(txt: str) -> list[bool]:
    return [x == "true" for x in re.findall(r"\b(true|false)\b", txt)]


# --------------------------------------------------------------------------------------


def materialise_rows(c) -> list[str]:
    r = c["rows"]
    if isinstance(r, tuple):
        name, mw = r
        return rows_over(ALPHA[name.split("_")[1]], mw)
    return r


def run(ctx):
    import time
    t0 = time.time()
    marks = {}
    core.proof_stage(ctx, THEOREM_FILE)
    marks["proof_stage_s"] = round(time.time() - t0, 1)
    rng = ctx.rng("rows")

    # ---- shipped rule lines: which ones does the plain language cover? (decided by Coq) ----
    listing = core.run_impl("c07_runner.py", {"op": "list"}, timeout=600)
    broken = [r for r in listing["rules"] if "exc" in r]
    if broken or listing["files_without_hw"]:
        raise core.CheckFailure(f"shipped rulebook texts could not be rendered/compiled: {broken[:3]} "
                                f"{listing['files_without_hw']}")
    uniq: dict[tuple, dict] = {}
    per_file: dict[str, int] = {}
    for r in listing["rules"]:
        per_file[r["file"]] = per_file.get(r["file"], 0) + (1 if (r["file"], r["row"], r["ic"]) not in uniq else 0)
        uniq.setdefault((r["file"], r["row"], r["ic"]), r)
    shipped = list(uniq.values())
    for r in shipped:
        for ch in r["row"] + r["pattern"]:
            if not (32 <= ord(ch) <= 126):
                r["nonascii"] = True
    texts = sorted({r["row"] for r in shipped if not r.get("nonascii")})
    CHS = 150
    cand = sorted({(p, "no") for p in ext_patterns(["no", "ab", "*", "*/[ab]+/"], EXT_TOKS, 3)}
                  | {(p, pre) for pre in ("undo", "no", "delete")
                     for p in ext_patterns([pre, "ab", "*"], ["(ab|no)", "(?:ab|abc)", "~/ab?/"], 3)})
    e_samp = ["map xrule_samples " + clist(cstr(t) for t in texts[k:k + CHS]) for k in range(0, len(texts), CHS)]
    e_plain = ["map (fun s => match rule_pat s with Some _ => true | None => false end) "
               + clist(cstr(t) for t in texts[k:k + 300]) for k in range(0, len(texts), 300)]
    # which generated rule texts does the extended language cover (with this negation word)?
    e_acc = ["map (fun x => match xrule_pat (fst x) with Some p => lead_ok (reverse_xpat p (snd x)) | None => false end) "
             + clist(f"({cstr(a)}, {cstr(b)})" for a, b in cand[k:k + 500]) for k in range(0, len(cand), 500)]
    # rule lines for the rule-TEXT entry points: which (rule, negation word) are in the domain wf_C07T?
    text_pre = gen_text_rules(ctx, [dict(r, smp=None) for r in shipped if not r.get("nonascii")])
    tcand = sorted({(t[0], t[1]) for t in text_pre})
    e_twf = ["map (fun x => wf_C07T (C07TIn (fst x) (fst x) (fst x) (snd x) false [] [])) "
             + clist(f"({cstr(a)}, {cstr(b)})" for a, b in tcand[k:k + 400]) for k in range(0, len(tcand), 400)]
    all_out = core.coq_eval(ID, IMPORTS_T, e_samp + e_plain + e_acc + e_twf, tag="modelled")
    if len(all_out) != len(e_samp) + len(e_plain) + len(e_acc) + len(e_twf):
        raise core.CheckFailure("could not read back the language-membership answers from Coq")
    twf_out = all_out[len(e_samp) + len(e_plain) + len(e_acc):]
    all_out = all_out[:len(e_samp) + len(e_plain) + len(e_acc)]
    twf_flags = [b for chunk in twf_out for b in parse_bools(chunk)]
    if len(twf_flags) != len(tcand):
        raise core.CheckFailure("could not read back wf_C07T flags from Coq")
    twf_set = {c for c, b in zip(tcand, twf_flags) if b}
    samp_out = all_out[:len(e_samp)]
    plain_out = all_out[len(e_samp):len(e_samp) + len(e_plain)]
    acc_out = all_out[len(e_samp) + len(e_plain):]
    samp = [v for chunk in samp_out for v in parse_coq(chunk)]
    if len(samp) != len(texts):
        raise core.CheckFailure("could not read back xrule_samples from Coq")
    samples_of_text = {t: v["some"] for t, v in zip(texts, samp) if v is not None}
    plain_flags = [b for chunk in plain_out for b in parse_bools(chunk)]
    if len(plain_flags) != len(texts):
        raise core.CheckFailure("could not read back rule_pat flags from Coq")
    plain_text = {t for t, b in zip(texts, plain_flags) if b}
    if not plain_text <= set(samples_of_text):
        raise core.CheckFailure("a rule line of the plain language is not in the extended language: "
                                f"{sorted(plain_text - set(samples_of_text))[:3]}")
    modelled_text = set(samples_of_text)
    modelled = [r for r in shipped if r["row"] in modelled_text]
    # rule lines outside PatternX: does the second extension (Model/PatternY.v) cover them?
    texts_y = [t for t in texts if t not in modelled_text]
    ysamp_out = core.coq_eval(ID, IMPORTS_T, ["map yrule_samples " + clist(cstr(t) for t in texts_y)], tag="modelled_y")
    ysamp = parse_coq(ysamp_out[0]) if texts_y else []
    if len(ysamp) != len(texts_y):
        raise core.CheckFailure("could not read back yrule_samples from Coq")
    ysamples_of_text = {t: v["some"] for t, v in zip(texts_y, ysamp) if v is not None}
    modelled_y = [r for r in shipped if r["row"] in ysamples_of_text]
    unmodelled = [r for r in shipped if r["row"] not in modelled_text and r["row"] not in ysamples_of_text]
    acc_flags = [b for chunk in acc_out for b in parse_bools(chunk)]
    if len(acc_flags) != len(cand):
        raise core.CheckFailure("could not read back acceptance flags from Coq")
    acc_set = {c for c, b in zip(cand, acc_flags) if b}

    def accepted(rule, prefix):
        return (rule, prefix) in acc_set

    # ---- cases ----
    exh, scope, exh_full = gen_exhaustive(ctx)
    rev = gen_reverse(ctx)
    exh_x, scope_x = gen_exhaustive_ext(ctx, accepted)
    rev_x = gen_reverse_ext(ctx, accepted)
    book = []
    skipped_lead = []
    for r in modelled:
        smp = samples_of_text[r["row"]]
        for is_rev in (False, True):
            text = r["row"]
            tsmp = smp
            if is_rev:
                pre = r["prefix"] + " "
                if text.startswith(pre):
                    text, tsmp = text[len(pre):], smp[1:]
                else:
                    text, tsmp = pre + text, [[r["prefix"]]] + smp
            # the removal command of this text would start with a dropped `~/re/` word: outside the guard
            tt = text.replace("(?i)", "").split(" ")
            rt = tt[1:] if (tt[0] == r["prefix"] and len(tt) > 1) else [r["prefix"]] + tt
            if rt[0].startswith("~/"):
                skipped_lead.append(text)
                continue
            rows = synth_rows(text, rng, extra_first=[r["prefix"]], samples=tsmp)
            if is_rev:
                rows += synth_rows(r["row"], rng, samples=smp)[:6]
            book.append({"kind": "book", "file": r["file"], "hw": r["hw"], "idx": r["idx"], "rev": is_rev,
                         "rule": r["row"], "prefix": r["prefix"],
                         # %ignore_case lives in the patching rule only: the reverse forms come from
                         # the ordering / ACL compilers, which never set the flag
                         "ic": r["ic"] and not is_rev,
                         "fkey": FKEY, "rows": rows, "src": "shipped-reverse" if is_rev else "shipped"})
    cases = exh + rev + exh_x + rev_x + book
    for c in cases:
        c["rows_list"] = materialise_rows(c)

    # ---- shipped rule lines covered only by the second extension (glued placeholders, special last words) ----
    yrng = ctx.rng("rows-y")
    ycases = []
    for r in modelled_y:
        smp = ysamples_of_text[r["row"]]
        for is_rev in (False, True):
            text, tsmp = r["row"], smp
            if is_rev:
                pre = r["prefix"] + " "
                if text.startswith(pre):
                    text, tsmp = text[len(pre):], smp[1:]
                else:
                    text, tsmp = pre + text, [[r["prefix"]]] + smp
            rows = []
            for _ in range(3 if ctx.thorough else 2):
                rows += [x for x in synth_rows(text, yrng, extra_first=[r["prefix"]], samples=tsmp) if x not in rows]
            if is_rev:
                rows += [x for x in synth_rows(r["row"], yrng, samples=smp)[:6] if x not in rows]
            ycases.append({"kind": "book", "file": r["file"], "hw": r["hw"], "idx": r["idx"], "rev": is_rev,
                           "rule": r["row"], "prefix": r["prefix"], "ic": r["ic"] and not is_rev,
                           "fkey": FKEY, "rows": rows, "rows_list": rows,
                           "src": "shipped-y-reverse" if is_rev else "shipped-y"})

    # ---- rule lines with irregular spacing through compile_patching_text / compile_acl_text /
    # compile_ordering_text (syntax.parse_text, _parse_raw_rule) ----
    trng = ctx.rng("text")
    tcases = []
    t_skipped = 0
    for rule, prefix, vendor, _, fam in gen_text_rules(ctx, [dict(r, smp=samples_of_text.get(r["row"]))
                                                            for r in shipped if not r.get("nonascii")]):
        if (rule, prefix) not in twf_set:
            t_skipped += 1
            continue
        smp = samples_of_text.get(rule) if fam == "text-shipped" else None
        pre = prefix + " "
        if rule.startswith(pre):
            rtext, rsmp = rule[len(pre):], (smp[1:] if smp else None)
        else:
            rtext, rsmp = pre + rule, ([[prefix]] + smp if smp else None)
        nd, nr = (24, 16) if ctx.thorough else (14, 10)
        rows = synth_rows(rule, trng, extra_first=[prefix], samples=smp)[:nd]
        rows += [r for r in synth_rows(rtext, trng, extra_first=[prefix], samples=rsmp)[:nr] if r not in rows]
        variants = 2 if fam == "text-hand" or ctx.thorough else 1
        for _ in range(variants):
            body_p, cls = respace(rule, trng)
            body_a, _ = respace(rule, trng)
            body_o, _ = respace(rule, trng)
            sp_, sa_, so_ = trng.choice(SFX_P), trng.choice(SFX_A), trng.choice(SFX_O)
            tcases.append({"kind": "text", "vendor": vendor, "prefix": prefix, "rule": rule,
                           "raw_p": body_p.rstrip(" \t") + sp_ if sp_ else body_p,
                           "raw_a": body_a.rstrip(" \t") + sa_ if sa_ else body_a,
                           "raw_o": body_o.rstrip(" \t") + so_ if so_ else body_o,
                           "ic": "%ignore_case" in sp_, "fkey": FKEY, "rows": rows, "src": fam, "spacing": cls,
                           "neighbours": trng.random() < 0.4})

    payload = [dict({k: v for k, v in c.items() if k not in ("rows", "rows_list", "src")}, rows=c["rows_list"])
               for c in cases]
    marks["generate_s"] = round(time.time() - t0, 1)
    tpayload = [{k: v for k, v in c.items() if k not in ("src", "spacing", "rule")} for c in tcases]
    ypayload = [{k: v for k, v in c.items() if k not in ("rows_list", "src")} for c in ycases]
    outs_all = core.run_impl_sharded("c07_runner.py", payload + tpayload + ypayload,
                                     wrap=lambda cs: {"op": "run", "cases": cs}, timeout=900)
    outs, touts = outs_all[:len(payload)], outs_all[len(payload):len(payload) + len(tpayload)]
    youts = outs_all[len(payload) + len(tpayload):]
    marks["implementation_s"] = round(time.time() - t0, 1)

    # ---- Coq evaluates agree / holds ----
    used = sorted({c["rows"] for c in cases if isinstance(c["rows"], tuple)})
    extra_defs = "\n".join(
        f"Definition {name}_{mw} : list string := {clist(cstr(r) for r in rows_over(ALPHA[name.split('_')[1]], mw))}."
        for name, mw in used)
    terms, live = [], []
    kinds_differ = []
    for i, (c, o) in enumerate(zip(cases, outs)):
        if "exc" in o:
            raise core.CheckFailure(f"runner could not evaluate case {c}: {o}")
        if c["kind"] == "book":
            if o.get("kinds_differ"):
                kinds_differ.append(i)
            rule_expr = f"(reverse_row {cstr(c['rule'])} {cstr(c['prefix'])})" if c["rev"] else None
        else:
            rule_expr = None
        rows_expr = f"rows_{c['rows'][0].split('_')[1]}_{c['rows'][1]}" if isinstance(c["rows"], tuple) else None
        terms.append(f"({c_in(c, rule_expr, rows_expr)}, {c_out(o)})")
        live.append(i)
    preds = {
        "agree": "fun c => out_eqb (model_C07X (fst c)) (snd c)",
        "holds": "fun c => P_C07X (fst c) (snd c)",
        "wf": "fun c => wf_C07X (fst c)",
    }
    # the three batches of case files (main, rule-text entry points, second extension) are evaluated side by side
    for c, o in zip(tcases, touts):
        if "exc" in o:
            raise core.CheckFailure(f"runner could not evaluate text case {public_t(c)}: {o}")
    tterms = [f"({c_inT(c)}, {c_outT(o)})" for c, o in zip(tcases, touts)]
    yterms = []
    for c, o in zip(ycases, youts):
        if "exc" in o:
            raise core.CheckFailure(f"runner could not evaluate case {public(c)}: {o}")
        rule_expr = f"(reverse_row {cstr(c['rule'])} {cstr(c['prefix'])})" if c["rev"] else None
        yterms.append(f"({c_in(c, rule_expr)}, {c_out(o)})")
    core.ensure_built(IMPORTS_T)
    from concurrent.futures import ThreadPoolExecutor as _TPE
    with _TPE(max_workers=3) as _ex:
        f_main = _ex.submit(core.run_case_files, ID, TY, IMPORTS, preds, terms, per_file=40,
                            extra_defs=extra_defs, timeout=1500)
        f_text = _ex.submit(core.run_case_files, ID, TY_T, IMPORTS_T, {
            "agree": "fun c => outT_eqb (model_C07T (fst c)) (snd c)",
            "holds": "fun c => P_C07T (fst c) (snd c)",
            "wf": "fun c => wf_C07T (fst c)",
        }, tterms, per_file=25, tag="text", timeout=1500)
        f_y = _ex.submit(core.run_case_files, ID, TY, IMPORTS_T, {
            "agree": "fun c => out_eqb (model_C07Y (fst c)) (snd c)",
            "holds": "fun c => P_C07Y (fst c) (snd c)",
            "wf": "fun c => wf_C07Y (fst c)",
        }, yterms, per_file=8, tag="ycases", timeout=1500)
        res, tres, yres = f_main.result(), f_text.result(), f_y.result()
    marks["coq_cases_s"] = round(time.time() - t0, 1)
    ctx.notes.append(f"cumulative phase times: {marks}")
    if res["wf"]:
        i = res["wf"][0]
        raise core.CheckFailure(f"generator produced a case outside the guard wf_C07X: {public(cases[i])}")

    # ---- reverse-row text (ACL / ordering form) and regex source text: compared in Coq ----
    rr_items = [(c, o) for c, o in zip(cases, outs)]
    rr_terms = [f"({cstr(o.get('rule_text', c['rule']))}, {cstr(c['prefix'])}, {cstr(o['reverse_row'])})" for c, o in rr_items]
    rr_bad = []
    CH = 400
    rr_out = core.coq_eval(ID, IMPORTS, [
        "map (fun x => String.eqb (reverse_row (fst (fst x)) (snd (fst x))) (snd x)) " + clist(rr_terms[k:k + CH])
        for k in range(0, len(rr_terms), CH)], tag="revrow")
    rr_flags = [b for chunk in rr_out for b in parse_bools(chunk)]
    if len(rr_flags) != len(rr_terms):
        raise core.CheckFailure("could not read back reverse_row flags from Coq")
    rr_bad = [i for i, b in enumerate(rr_flags) if not b]

    src_items = sorted({(o.get("rule_text", c["rule"]), o["pattern"]) for c, o in zip(cases, outs)})
    src_out = core.coq_eval(ID, IMPORTS, [
        "map (fun x => match xrule_pat (fst x) with Some p => String.eqb (xregex_src p) (snd x) | None => false end) "
        + clist(f"({cstr(a)}, {cstr(b)})" for a, b in src_items[k:k + CH]) for k in range(0, len(src_items), CH)],
        tag="regexsrc")
    src_flags = [b for chunk in src_out for b in parse_bools(chunk)]
    src_diff = [src_items[i] for i, b in enumerate(src_flags) if not b] if len(src_flags) == len(src_items) else None

    # ---- verdicts ----
    bad_holds = sorted(set(res["holds"]))
    bad_agree = set(res["agree"])
    diag = {}
    if bad_holds:
        # diagnose a selection that is diverse over the case families: first the cases where the
        # implementation also differs from the model (at most 200), then cases where it agrees with the
        # model (these can only be the documented peculiarities / the inline flag; at most 80)
        def diverse(idx, limit):
            by_fam: dict[str, list[int]] = {}
            for i in idx:
                by_fam.setdefault(cases[i]["src"], []).append(i)
            pick = []
            for k in range(max((len(v) for v in by_fam.values()), default=0)):
                for fam in sorted(by_fam):
                    if k < len(by_fam[fam]) and len(pick) < limit:
                        pick.append(by_fam[fam][k])
            return pick
        pick = diverse([i for i in bad_holds if i in bad_agree], 200) + \
            diverse([i for i in bad_holds if i not in bad_agree], 80)
        chunks = [pick[k:k + 40] for k in range(0, len(pick), 40)]

        def diag_chunk(job):
            k, chunk = job
            return core.coq_eval(ID, IMPORTS + "\n" + extra_defs,
                                 [f"diag_C07X (fst {terms[i]}) (snd {terms[i]})" for i in chunk], tag=f"diag{k}")
        from concurrent.futures import ThreadPoolExecutor
        with ThreadPoolExecutor(max_workers=8) as ex:
            d_outs = list(ex.map(diag_chunk, enumerate(chunks)))
        for chunk, d_out in zip(chunks, d_outs):
            for i, txt in zip(chunk, d_out):
                try:
                    ffmt_ok, model_ok, (qcap, qnb), rows_bad = parse_coq(txt)
                except (ValueError, TypeError):
                    raise core.CheckFailure(f"could not read diag_C07X output: {txt[:200]}")
                diag[i] = (ffmt_ok, model_ok, qcap, qnb, [tuple(x) for x in rows_bad])
        if len(pick) < len(bad_holds):
            ctx.notes.append(f"{len(bad_holds)} cases violate P_C07X; {len(pick)} of them were diagnosed and reported")
        bad_holds = sorted(pick)
    for i in bad_holds:
        c, o = cases[i], outs[i]
        ffmt_ok, model_ok, qcap, qnb, rows_bad = diag.get(i, (None, False, False, False, []))
        match_bad = [n for n, same in rows_bad if not same]
        inline = "(?i)" in c["rule"] and "(?i)" in o["tmpl"]
        fam = "shipped" if c["kind"] == "book" else "plain"
        if model_ok and qcap and not inline:
            # compile_row_regexp neutralises plain groups only when the row contains `*`
            fam, kind = "ext", "bare-group-captures-without-placeholder"
        elif model_ok and qnb and not inline:
            # compile_row_regexp appends no trailing word boundary when the row contains `~/re/`
            fam, kind = "ext", "tilde-re-row-lacks-word-boundary"
        elif match_bad:
            kind = "match-differs"
        elif inline:
            kind = "reverse-template-keeps-inline-flag"
        else:
            kind = "removal-command-differs"
        rows_l = c["rows_list"]
        witness = [{"row": rows_l[n], "impl": o["rows"][n]} for n, _ in rows_bad[:3]]
        ctx.add_violation(core.Violation(
            signature=f"C07/{fam}/{kind}",
            what=f"rule {c['rule']!r} (prefix {c['prefix']!r}, ignore_case={c['ic']}): the real regexp/template gives "
                 f"{witness or o['ffmt']} which is not what the rule language says",
            replay={"case": public(c, rows=[w["row"] for w in witness] or rows_l[:3]), "impl_tmpl": o["tmpl"],
                    "impl_ffmt": o["ffmt"], "witness": witness}))
    for i in kinds_differ:
        c, o = cases[i], outs[i]
        ctx.add_violation(core.Violation(
            signature="C07/shipped/rulebook-kinds-compile-differently",
            what=f"{c['file']}: row {c['rule']!r} is compiled differently by {o['kinds_differ']}",
            replay={"case": public(c, rows=c["rows_list"][:3]), "kinds_differ": o["kinds_differ"]}))
    for i in rr_bad[:1]:
        c, o = rr_items[i]
        ctx.add_violation(core.Violation(
            signature="C07/reverse-row-differs",
            what=f"acl._make_reverse({o.get('rule_text', c['rule'])!r}, {c['prefix']!r}) = {o['reverse_row']!r} differs "
                 f"from strip-or-prepend of the negation word",
            replay={"case": public(c, rows=[]), "impl_reverse_row": o["reverse_row"]}))
    if not bad_holds and not kinds_differ and not rr_bad:
        for i in sorted(set(res["agree"]))[:1]:
            ctx.add_violation(core.Violation(
                signature="C07/model-impl-disagree",
                what="Coq model (rule_match / make_reverse / format_template) and the real compile_row_regexp / "
                     "_make_reverse / str.format differ (correspondence broken); P_C07 holds on all outputs explored",
                replay={"correspondence": "Model.Pattern vs annet.annlib.rbparser.syntax.compile_row_regexp, "
                                          "annet.rulebook.patching._make_reverse",
                        "case": public(cases[i], rows=cases[i]["rows_list"][:5]), "impl_tmpl": outs[i]["tmpl"]},
                no_input=True))

    # ---- rule-TEXT entry points: Coq evaluates agree / holds on the compiled rulebooks' regexps ----
    if tres["wf"]:
        raise core.CheckFailure(f"generator produced a text case outside the guard wf_C07T: {public_t(tcases[tres['wf'][0]])}")
    t_bad = sorted(set(tres["holds"]))
    if t_bad:
        pick = t_bad[:12]
        d_out = core.coq_eval(ID, IMPORTS_T, [f"diag_C07T (fst {tterms[i]}) (snd {tterms[i]})" for i in pick], tag="tdiag")
        names = ["patching-match-or-removal-command", "acl-rule-id-not-single-spaced", "acl-direct-form",
                 "acl-reverse-form", "ordering-direct-form", "ordering-reverse-form"]
        seen_sig = set()
        for i, txt in zip(pick, d_out):
            flags = parse_bools(txt)
            bad = [n for n, ok in zip(names, flags) if not ok] or ["unknown"]
            c, o = tcases[i], touts[i]
            sig = f"C07/text/{bad[0]}"
            if sig in seen_sig:
                continue
            seen_sig.add(sig)
            ctx.add_violation(core.Violation(
                signature=sig,
                what=f"rule line {c['raw_p']!r} (words {c['rule']!r}, negation word {c['prefix']!r}) compiled through "
                     f"compile_patching_text / compile_acl_text / compile_ordering_text: {', '.join(bad)} differ(s) from "
                     f"what the words of the line mean (removal template {o['patch']['tmpl']!r}, regexps {o['patterns']})",
                replay={"case": public_t(c), "impl_tmpl": o["patch"]["tmpl"], "impl_patterns": o["patterns"],
                        "failing_parts": bad}))
    elif tres["agree"] and not ctx.violations:
        i = sorted(set(tres["agree"]))[0]
        ctx.add_violation(core.Violation(
            signature="C07/text/model-impl-disagree",
            what="Coq model of _parse_raw_rule + compile_row_regexp / _make_reverse and the rulebooks compiled by the "
                 "real text compilers differ (correspondence broken); P_C07T holds on all outputs explored",
            replay={"correspondence": "Model.PatternT vs syntax._parse_raw_rule via compile_*_text",
                    "case": public_t(tcases[i])}, no_input=True))

    # ---- second extension: Coq evaluates agree / holds on the shipped lines it covers ----
    y_outside = sorted(set(yres["wf"]))          # e.g. the reversed text is outside the language: not judged
    y_bad = [i for i in sorted(set(yres["holds"])) if i not in y_outside]
    y_kinds = [i for i, o in enumerate(youts) if o.get("kinds_differ") and i not in y_outside]
    if y_bad:
        pick = y_bad[:10]
        d_out = core.coq_eval(ID, IMPORTS_T, [f"diag_C07Y (fst {yterms[i]}) (snd {yterms[i]})" for i in pick], tag="ydiag")
        seen_sig = set()
        for i, txt in zip(pick, d_out):
            flags = parse_bools(txt)
            ffmt_ok, model_ok, match_ok = (flags + [False, False, False])[:3]
            c, o = ycases[i], youts[i]
            kind = "match-differs" if not match_ok else "removal-command-differs"
            sig = f"C07/ext2/{kind}" + ("" if not model_ok else "-as-modelled")
            if (sig, c["rule"]) in seen_sig:
                continue
            seen_sig.add((sig, c["rule"]))
            ctx.add_violation(core.Violation(
                signature=sig,
                what=f"rule {o.get('rule_text', c['rule'])!r} (prefix {c['prefix']!r}, ignore_case={c['ic']}): the real regexp "
                     f"{o['pattern']!r} / template {o['tmpl']!r} do not give what the rule language says",
                replay={"case": public(c, rows=c["rows_list"][:8]), "impl_tmpl": o["tmpl"], "impl_ffmt": o["ffmt"],
                        "y": True}))
    for i in y_kinds[:1]:
        c, o = ycases[i], youts[i]
        ctx.add_violation(core.Violation(
            signature="C07/shipped/rulebook-kinds-compile-differently",
            what=f"{c['file']}: row {c['rule']!r} is compiled differently by {o['kinds_differ']}",
            replay={"case": public(c, rows=c["rows_list"][:3]), "kinds_differ": o["kinds_differ"], "y": True}))
    if not y_bad and not ctx.violations:
        for i in [j for j in sorted(set(yres["agree"])) if j not in y_outside][:1]:
            ctx.add_violation(core.Violation(
                signature="C07/ext2/model-impl-disagree",
                what="Coq model (Model.PatternY) and the real compile_row_regexp / _make_reverse differ on a shipped rule "
                     "line of the second extension; P_C07Y holds on all outputs explored",
                replay={"correspondence": "Model.PatternY vs annet.annlib.rbparser.syntax.compile_row_regexp",
                        "case": public(ycases[i], rows=ycases[i]["rows_list"][:5]), "y": True}, no_input=True))

    marks["verdicts_s"] = round(time.time() - t0, 1)
    ctx.notes.append(f"cumulative phase times (end): {marks}")
    # ---- coverage ----
    evals = sum(len(c["rows_list"]) for c in cases) + sum(len(c["rows_list"]) for c in ycases)
    seen, nontrivial = set(), 0
    hist = {"matched": 0, "unmatched": 0, "format_error": 0}
    by_src: dict[str, int] = {}
    for c, o in zip(cases, outs):
        by_src[c["src"]] = by_src.get(c["src"], 0) + len(c["rows_list"])
        if "exc" in o["ffmt"]:
            hist["format_error"] += 1
        for r, x in zip(c["rows_list"], o["rows"]):
            hist["matched" if x is not None else "unmatched"] += 1
            h = (c["rule"], c["prefix"], c["ic"], c.get("rev", False), r)
            if h in seen:
                continue
            seen.add(h)
            if x is not None and x[0]:
                nontrivial += 1
    unm_rows = sorted({r["row"] for r in unmodelled})
    ctx.coverage.update({
        "evaluations": evals,
        "distinct_nontrivial": nontrivial,
        "rule": "one evaluation = one (rule row, ignore_case, negation word, configuration row) through the real regexp "
                "and reverse template; distinct by that tuple; non-trivial = the real regexp matched and extracted a "
                "non-empty key (so key extraction and the removal command were compared, not only rejection)",
        "samples": [{"input": public(c, rows=c["rows_list"][:4]), "impl": {"tmpl": o["tmpl"], "ffmt": o["ffmt"],
                                                                            "rows": o["rows"][:4]}}
                    for c, o in (list(zip(cases, outs))[:1] + list(zip(cases, outs))[-2:])],
        "traces_validated_against_impl": evals,
        "cases": len(cases),
        "disagreements_checked": len(set(res["agree"])),
        "outcome_histogram": hist,
        "input_distribution": dict(by_src, exhaustive_scope=scope, exhaustive_ext_scope=scope_x),
        "exhaustive": bool(exh_full),
        "shipped_rule_lines": {
            "distinct_lines": len(shipped),
            "modelled": len(modelled) + len(modelled_y),
            "modelled_by_PatternX": len(modelled),
            "modelled_only_by_second_extension": sorted({r["row"] for r in modelled_y}),
            "second_extension": {
                "lines": len(modelled_y), "cases": len(ycases),
                "evaluations": sum(len(c["rows_list"]) for c in ycases),
                "matched_rows": sum(1 for o in youts for x in o["rows"] if x is not None),
                "cases_outside_wf_C07Y_not_judged": [ycases[i]["rule"] + (" [reversed]" if ycases[i]["rev"] else "") for i in y_outside],
                "model_disagreements": len([j for j in set(yres["agree"]) if j not in y_outside]),
            },
            "unmodelled": len(unmodelled),
            "per_file_distinct": per_file,
            "unmodelled_rows": unm_rows,
            "modelled_only_by_extended_language": sorted({r["row"] for r in modelled if r["row"] not in plain_text}),
            "skipped_removal_command_starts_with_dropped_word": sorted(set(skipped_lead)),
        },
        "rule_text_entry_points": {
            "cases": len(tcases),
            "evaluations": sum(len(c["rows"]) for c in tcases) * 5,
            "rule_lines_outside_wf_C07T_skipped": t_skipped,
            "by_family": {f: sum(1 for c in tcases if c["src"] == f) for f in sorted({c["src"] for c in tcases})},
            "spacing": {f: sum(1 for c in tcases if c["spacing"] == f) for f in sorted({c["spacing"] for c in tcases})},
            "with_params_suffix": sum(1 for c in tcases if "%" in c["raw_p"]),
            "reverse_regexp_matched_rows": sum(1 for o in touts for g in o["acl_r"] if g is not None),
            "model_disagreements": len(set(tres["agree"])),
            "note": "one rule line with runs of blanks / tabs / alignment blanks before %params through "
                    "compile_patching_text, compile_acl_text, compile_ordering_text (syntax.parse_text, _parse_raw_rule); "
                    "5 regexps + the removal template per case compared with Model.PatternT and judged by P_C07T",
        },
        "regex_source_text_diagnostic": {
            "compared": len(src_items),
            "identical": None if src_diff is None else len(src_items) - len(src_diff),
            "different_examples": None if src_diff is None else [list(x) for x in src_diff[:10]],
            "note": "xregex_src p vs compile_row_regexp(...).pattern; informational, never a violation",
        },
    })
    ctx.assumptions += [
        "rows are wf_row: printable ASCII words separated by single spaces (what the vendor formatters' split/strip produce)",
        "CPython re is trusted to implement the textbook semantics of the supported regex subset "
        "(classes, sets, alternation, greedy * + ?), re.IGNORECASE on ASCII; checked by this correspondence only",
        "rule rows outside both extensions (parse_xpat = None and parse_ypat = None) are excluded: see "
        "shipped_rule_lines.unmodelled_rows; rows covered only by Model/PatternY.v are judged by P_C07Y / model_C07Y",
        "rule-text cases: ASCII lines whose blanks are space / tab; the ignore_case flag of a patching line is passed to the "
        "model as an input (the %params values themselves are not modelled, only where they are cut off)",
        "the predicate is evaluated with the extended-language definitions (P_C07X, model_C07X); on rule rows of the plain "
        "language they coincide with P_C07 / model_C07 (theorem C07X_conservative)",
    ]


def public_t(c) -> dict:
    return {k: v for k, v in c.items() if k not in ("src", "spacing")}


def public(c, rows=None) -> dict:
    d = {k: v for k, v in c.items() if k not in ("rows_list", "rows")}
    d["rows"] = rows if rows is not None else c["rows_list"]
    return d


def replay(ctx, doc):
    c = dict(doc["replay"]["case"])
    if c.get("kind") == "text":
        out = core.run_impl("c07_runner.py", {"op": "run", "cases": [{k: v for k, v in c.items() if k != "rule"}]})[0]
        if "exc" in out:
            print("impl:", out)
            return 1
        term = f"({c_inT(c)}, {c_outT(out)})"
        res = core.run_case_files(ID, TY_T, IMPORTS_T, {"holds": "fun c => P_C07T (fst c) (snd c)"}, [term], tag="replay")
        print("impl:", {"tmpl": out["patch"]["tmpl"], "patterns": out["patterns"]}, "holds:", not res["holds"])
        return 1 if res["holds"] else 0
    rows = c.pop("rows")
    c.pop("src", None)
    out = core.run_impl("c07_runner.py", {"op": "run", "cases": [dict(c, rows=rows)]})[0]
    cc = dict(c, rows=rows)
    rule_expr = f"(reverse_row {cstr(c['rule'])} {cstr(c['prefix'])})" if c.get("rev") else None
    term = f"({c_in(cc, rule_expr)}, {c_out(out)})"
    if doc["replay"].get("y"):
        res = core.run_case_files(ID, TY, IMPORTS_T, {"holds": "fun c => P_C07Y (fst c) (snd c)"}, [term], tag="replay")
    else:
        res = core.run_case_files(ID, TY, IMPORTS, {"holds": "fun c => P_C07X (fst c) (snd c)"}, [term], tag="replay")
    print("impl:", {k: out[k] for k in ("tmpl", "ffmt", "rows", "pattern")}, "holds:", not res["holds"])
    return 1 if res["holds"] else 0
