"""C07 — rule patterns mean what the rule language says, in every rulebook kind (DESIGN §3.C07)."""
from __future__ import annotations

import itertools
import re

from .. import core
from ..core import cstr, clist, cbool, copt

ID = "C07"
THEOREM_FILE = "Properties/C07.v"
IMPORTS = "From Annet Require Import Base.Str Model.Pattern Spec.P_C07."
TY = "c07_in * c07_out"
META = {
    "text": "Proof: for every plain pattern (literal words, `*`, `*/re/`, trailing `~`) and every row, the word-level "
            "matcher that models compile_row_regexp returns a key exactly when the declarative relation matches_spec "
            "holds (one word per token at word boundaries, key = bound words, `~` binds the rest), the key has one entry "
            "per placeholder, the derivative matcher of one-word regexps decides their language, and "
            "_make_reverse(...).format(*key) is the negation word followed by the rule's words with the key substituted "
            "(prefix stripped when already present; negating twice gives the rule back). Correspondence: Coq evaluates "
            "model==implementation and the declarative predicate on the real compile_row_regexp/.groups()/_make_reverse/"
            ".format outputs, exhaustively over small patterns x rows, and on every shipped rule line the plain language "
            "covers (through the regexps stored in the really compiled patching/ordering/deploy rulebooks, the ACL and "
            "the implicit compilers), with synthesised rows and near-miss mutants.",
    "technique": "Coq induction on tokens/words/characters, Brzozowski derivatives; vm_compute differential check",
    "note": "Shipped rule lines that are regex source outside the plain language (e.g. `vlan */[^\\d].*/`, "
            "`(?:ip|ipv6) route`) are listed as unmodelled in the evidence and excluded from the claim (fail closed).",
}

FKEY = ["K1", "K2", "K3", "K4", "K5", "K6"]


# --------------------------------------------------------------------------------------
# generators


def patterns(lits, max_tok):
    """all patterns of 1..max_tok tokens over lits + `*` + `*/[ab]+/`, optional trailing `~`"""
    toks = list(lits) + ["*", "*/[ab]+/"]
    out = []
    for n in range(1, max_tok + 1):
        for combo in itertools.product(toks, repeat=n):
            out.append(" ".join(combo))
        for combo in itertools.product(toks, repeat=n - 1):
            out.append(" ".join(combo + ("~",)))
    return out


def rows_over(alpha, max_words):
    out = []
    for n in range(1, max_words + 1):
        for combo in itertools.product(alpha, repeat=n):
            out.append(" ".join(combo))
    return out


ALPHA = {"A1": ["no", "ab", "abc"], "A2": ["No", "aB", "ABc"]}


def gen_exhaustive(ctx):
    """family (i): patterns <= 4 tokens x rows <= 5 words, with and without ignore_case"""
    cases = []
    pats = patterns(["no", "ab"], 4)
    if ctx.thorough:
        chosen = pats
        max_words = 5
    else:
        # deterministic subsample: everything up to 3 tokens, every 4th of the 4-token patterns
        small = [p for p in pats if len(p.split()) <= 3]
        big = [p for p in pats if len(p.split()) == 4]
        off = ctx.seed % 4
        chosen = small + big[off::4]
        max_words = 4
    for p in chosen:
        for an in ("A1", "A2"):
            for ic in (False, True):
                if not ctx.thorough and an == "A2" and not ic and len(p.split()) == 4:
                    continue
                cases.append({"kind": "raw", "rule": p, "prefix": "no", "ic": ic, "fkey": FKEY[:4],
                              "rows": ("rows_" + an, max_words), "src": "exhaustive"})
    scope = (f"{len(chosen)} of {len(pats)} patterns <= 4 tokens over {{no, ab, *, */[ab]+/, trailing ~}} x all "
             f"{len(rows_over(ALPHA['A1'], max_words))} rows <= {max_words} words over {ALPHA['A1']} and {ALPHA['A2']}, "
             f"ignore_case on/off")
    return cases, scope, len(chosen) == len(pats) and max_words == 5


def gen_reverse(ctx):
    """family (i'): reverse templates for several vendors' negation words, keys too short / exact / long,
    inline (?i), the prefix word in every position"""
    cases = []
    some_rows = ["ab", "ab ab", "no ab", "undo ab ab", "ab abc ab", "delete ab ab ab", "- ab", "remove ab no ab"]
    for prefix in ["undo", "no", "delete", "remove", "-"]:
        for p in patterns([prefix, "ab"], 3 if not ctx.thorough else 4):
            n = len(p.split())
            if not ctx.thorough and n == 3 and (hash_small(p + prefix) % 2):
                continue
            for klen in (0, 1, 4):
                cases.append({"kind": "raw", "rule": p, "prefix": prefix, "ic": False, "fkey": FKEY[:klen],
                              "rows": some_rows, "src": "reverse"})
    # inline flag: "(?i)" glued to a token (compile_row_regexp removes the text and sets IGNORECASE)
    for p in patterns(["no", "ab"], 2):
        toks = p.split()
        for i in range(len(toks)):
            if toks[i] in ("*", "~"):
                continue
            t = list(toks)
            t[i] = ("*/(?i)" + t[i][2:]) if t[i].startswith("*/") else "(?i)" + t[i]
            cases.append({"kind": "raw", "rule": " ".join(t), "prefix": "no", "ic": False, "fkey": FKEY[:3],
                          "rows": ("rows_A2", 3), "src": "inline-flag"})
    return cases


def hash_small(s: str) -> int:
    return int(core.canon_hash(s)[:6], 16)


# --- rows for shipped rule lines ---------------------------------------------------------


def sample_word(src: str, rng) -> str | None:
    """a word that the one-word regex `src` probably matches (generator only: both sides are
    evaluated on whatever comes out)"""
    try:
        import re._parser as sp  # py3.11+
    except ImportError:  # pragma: no cover
        import sre_parse as sp
    try:
        tree = sp.parse(src)
    except Exception:
        return None
    pool = "abcdefxyzABC0123456789_-/.:"

    def cat(name):
        n = str(name)
        if "NOT_DIGIT" in n:
            return "x"
        if "DIGIT" in n:
            return rng.choice("0123456789")
        if "NOT_SPACE" in n:
            return rng.choice("ab1/")
        if "NOT_WORD" in n:
            return rng.choice("-/.")
        if "WORD" in n:
            return rng.choice("aZ5_")
        return "x"

    def gen(items) -> str:
        out = []
        for op, av in items:
            o = str(op)
            if o == "LITERAL":
                out.append(chr(av))
            elif o == "NOT_LITERAL":
                out.append("x" if chr(av) != "x" else "y")
            elif o == "ANY":
                out.append(rng.choice("abc123"))
            elif o == "IN":
                neg = any(str(a) == "NEGATE" for a, _ in av)
                cands = []
                for a, v in av:
                    s = str(a)
                    if s == "LITERAL":
                        cands.append(chr(v))
                    elif s == "RANGE":
                        cands.append(chr(rng.randint(v[0], v[1])))
                    elif s == "CATEGORY":
                        cands.append(cat(v))
                if neg:
                    ok = [c for c in pool if c not in cands]
                    out.append(rng.choice(ok))
                else:
                    out.append(rng.choice(cands) if cands else "x")
            elif o == "CATEGORY":
                out.append(cat(av))
            elif o == "BRANCH":
                out.append(gen(rng.choice(av[1])))
            elif o == "SUBPATTERN":
                out.append(gen(av[3]))
            elif o in ("MAX_REPEAT", "MIN_REPEAT"):
                lo, hi, sub = av
                k = rng.randint(lo, min(max(lo, 1) + 2, int(hi) if str(hi) != "MAXREPEAT" else 99))
                out.append("".join(gen(sub) for _ in range(k)))
            elif o == "AT":
                pass
            else:
                raise ValueError(o)
        return "".join(out)

    try:
        w = gen(tree)
    except Exception:
        return None
    if not w or any(c.isspace() or not (33 <= ord(c) <= 126) for c in w):
        return None
    return w


def swapcase_one(w: str, rng) -> str:
    idx = [i for i, c in enumerate(w) if c.isalpha()]
    if not idx:
        return w
    i = rng.choice(idx)
    return w[:i] + w[i].swapcase() + w[i + 1:]


def synth_rows(rule: str, rng, extra_first: list[str] = ()) -> list[str]:
    """rows built from the rule's tokens: matching candidates and near-miss mutants"""
    toks = rule.replace("(?i)", "").split(" ")
    fill = ["x1", "10", "Eth0/1", "a-b", "foo", "VRF_X", "10.0.0.1", "abc", "2001:db8::1", "ab"]
    bases = []
    for _ in range(3):
        ws = []
        for t in toks:
            if t == "*":
                ws.append(rng.choice(fill))
            elif t == "~":
                ws.extend(rng.sample(fill, rng.randint(1, 3)))
            elif t.startswith("*/") and t.endswith("/") and len(t) > 3:
                ws.append(sample_word(t[2:-1], rng) or rng.choice(fill))
            else:
                ws.append(t)
        bases.append(ws)
    out = []

    def add(ws):
        ws = [w for w in ws if w]
        if ws:
            out.append(" ".join(ws))

    for ws in bases:
        add(ws)
    ws = bases[0]
    n = len(ws)
    add(ws + ["extra"])                                   # longer row (word boundary after the last token)
    add(ws + ["extra", "more"])
    add(ws[:-1])                                          # drop the last word
    add(ws[:-1] + [ws[-1] + "x"])                         # extend the last word (no boundary)
    add(ws[:-1] + [ws[-1][:-1]])                          # truncate the last word
    add(ws[:-1] + [ws[-1] + ws[-1]])
    for _ in range(2):
        i = rng.randrange(n)
        add(ws[:i] + ws[i + 1:])                          # drop a word
        add(ws[:i] + [ws[i], ws[i]] + ws[i + 1:])         # duplicate a word
        add(ws[:i] + [ws[i] + "Z"] + ws[i + 1:])          # alter a word
        add(ws[:i] + ["Z" + ws[i]] + ws[i + 1:])
        add(ws[:i] + [swapcase_one(ws[i], rng)] + ws[i + 1:])   # change case
        add(ws[:i] + [rng.choice(fill)] + ws[i + 1:])     # replace a word
        if n >= 2:
            j = rng.randrange(n - 1)
            add(ws[:j] + [ws[j] + ws[j + 1]] + ws[j + 2:])      # glue two words
            add(ws[:j] + [ws[j + 1], ws[j]] + ws[j + 2:])       # swap two words
    add([w.upper() for w in ws])
    add([w.lower() for w in ws])
    add(["x"] + ws)                                       # not at the start of the row
    for e in extra_first:
        add([e] + ws)
    seen, res = set(), []
    for r in out:
        if r not in seen and all(33 <= ord(c) <= 126 or c == " " for c in r):
            seen.add(r)
            res.append(r)
    return res


# --------------------------------------------------------------------------------------
# Coq terms


def c_fmt(o) -> str:
    return copt(cstr(o["ok"])) if "ok" in o else "None"


def c_rowout(o) -> str:
    if o is None:
        return "None"
    g, f = o
    return f"(Some ({clist(cstr(x) for x in g)}, {c_fmt(f)}))"


def c_in(c, rule_expr: str | None = None, rows_expr: str | None = None) -> str:
    rows = rows_expr if rows_expr is not None else clist(cstr(r) for r in c["rows"])
    rule = rule_expr if rule_expr is not None else cstr(c["rule"])
    return (f"(C07In {rule} {cstr(c['prefix'])} {cbool(c['ic'])} "
            f"{clist(cstr(k) for k in c['fkey'])} {rows})")


def c_out(o) -> str:
    return f"(C07Out {cstr(o['tmpl'])} {c_fmt(o['ffmt'])} {clist(c_rowout(x) for x in o['rows'])})"


def parse_bools(txt: str) -> list[bool]:
    return [x == "true" for x in re.findall(r"\b(true|false)\b", txt)]


# --------------------------------------------------------------------------------------


def materialise_rows(c) -> list[str]:
    r = c["rows"]
    if isinstance(r, tuple):
        name, mw = r
        return rows_over(ALPHA[name.split("_")[1]], mw)
    return r


def run(ctx):
    import time
    t0 = time.time()
    marks = {}
    core.proof_stage(ctx, THEOREM_FILE)
    marks["proof_stage_s"] = round(time.time() - t0, 1)
    rng = ctx.rng("rows")

    # ---- shipped rule lines: which ones does the plain language cover? (decided by Coq) ----
    listing = core.run_impl("c07_runner.py", {"op": "list"}, timeout=600)
    broken = [r for r in listing["rules"] if "exc" in r]
    if broken or listing["files_without_hw"]:
        raise core.CheckFailure(f"shipped rulebook texts could not be rendered/compiled: {broken[:3]} "
                                f"{listing['files_without_hw']}")
    uniq: dict[tuple, dict] = {}
    per_file: dict[str, int] = {}
    for r in listing["rules"]:
        per_file[r["file"]] = per_file.get(r["file"], 0) + (1 if (r["file"], r["row"], r["ic"]) not in uniq else 0)
        uniq.setdefault((r["file"], r["row"], r["ic"]), r)
    shipped = list(uniq.values())
    for r in shipped:
        for ch in r["row"] + r["pattern"]:
            if not (32 <= ord(ch) <= 126):
                r["nonascii"] = True
    texts = sorted({r["row"] for r in shipped if not r.get("nonascii")})
    flags = core.coq_eval(ID, IMPORTS, [
        "map (fun s => match rule_pat s with Some _ => true | None => false end) " + clist(cstr(t) for t in texts[k:k + 200])
        for k in range(0, len(texts), 200)], tag="modelled")
    ok_flags = [b for chunk in flags for b in parse_bools(chunk)]
    if len(ok_flags) != len(texts):
        raise core.CheckFailure("could not read back rule_pat flags from Coq")
    modelled_text = {t for t, b in zip(texts, ok_flags) if b}
    modelled = [r for r in shipped if r["row"] in modelled_text]
    unmodelled = [r for r in shipped if r["row"] not in modelled_text]

    # ---- cases ----
    exh, scope, exh_full = gen_exhaustive(ctx)
    rev = gen_reverse(ctx)
    book = []
    for r in modelled:
        for is_rev in (False, True):
            text = r["row"]
            if is_rev:
                pre = r["prefix"] + " "
                text = text[len(pre):] if text.startswith(pre) else pre + text
            rows = synth_rows(text, rng, extra_first=[r["prefix"]])
            if is_rev:
                rows += synth_rows(r["row"], rng)[:6]
            book.append({"kind": "book", "file": r["file"], "hw": r["hw"], "idx": r["idx"], "rev": is_rev,
                         "rule": r["row"], "prefix": r["prefix"],
                         # %ignore_case lives in the patching rule only: the reverse forms come from
                         # the ordering / ACL compilers, which never set the flag
                         "ic": r["ic"] and not is_rev,
                         "fkey": FKEY, "rows": rows, "src": "shipped-reverse" if is_rev else "shipped"})
    cases = exh + rev + book
    for c in cases:
        c["rows_list"] = materialise_rows(c)

    payload = [dict({k: v for k, v in c.items() if k not in ("rows", "rows_list", "src")}, rows=c["rows_list"])
               for c in cases]
    marks["generate_s"] = round(time.time() - t0, 1)
    outs = core.run_impl_sharded("c07_runner.py", payload, wrap=lambda cs: {"op": "run", "cases": cs}, timeout=900)
    marks["implementation_s"] = round(time.time() - t0, 1)

    # ---- Coq evaluates agree / holds ----
    used = sorted({c["rows"] for c in cases if isinstance(c["rows"], tuple)})
    extra_defs = "\n".join(
        f"Definition {name}_{mw} : list string := {clist(cstr(r) for r in rows_over(ALPHA[name.split('_')[1]], mw))}."
        for name, mw in used)
    terms, live = [], []
    kinds_differ = []
    for i, (c, o) in enumerate(zip(cases, outs)):
        if "exc" in o:
            raise core.CheckFailure(f"runner could not evaluate case {c}: {o}")
        if c["kind"] == "book":
            if o.get("kinds_differ"):
                kinds_differ.append(i)
            rule_expr = f"(reverse_row {cstr(c['rule'])} {cstr(c['prefix'])})" if c["rev"] else None
        else:
            rule_expr = None
        rows_expr = f"rows_{c['rows'][0].split('_')[1]}_{c['rows'][1]}" if isinstance(c["rows"], tuple) else None
        terms.append(f"({c_in(c, rule_expr, rows_expr)}, {c_out(o)})")
        live.append(i)
    preds = {
        "agree": "fun c => out_eqb (model_C07 (fst c)) (snd c)",
        "holds": "fun c => P_C07 (fst c) (snd c)",
        "wf": "fun c => wf_C07 (fst c)",
    }
    res = core.run_case_files(ID, TY, IMPORTS, preds, terms, per_file=40 if ctx.thorough else 30,
                              extra_defs=extra_defs, timeout=1500)
    marks["coq_cases_s"] = round(time.time() - t0, 1)
    ctx.notes.append(f"cumulative phase times: {marks}")
    if res["wf"]:
        i = res["wf"][0]
        raise core.CheckFailure(f"generator produced a case outside the guard wf_C07: {public(cases[i])}")

    # ---- reverse-row text (ACL / ordering form) and regex source text: compared in Coq ----
    rr_items = [(c, o) for c, o in zip(cases, outs)]
    rr_terms = [f"({cstr(o.get('rule_text', c['rule']))}, {cstr(c['prefix'])}, {cstr(o['reverse_row'])})" for c, o in rr_items]
    rr_bad = []
    CH = 400
    rr_out = core.coq_eval(ID, IMPORTS, [
        "map (fun x => String.eqb (reverse_row (fst (fst x)) (snd (fst x))) (snd x)) " + clist(rr_terms[k:k + CH])
        for k in range(0, len(rr_terms), CH)], tag="revrow")
    rr_flags = [b for chunk in rr_out for b in parse_bools(chunk)]
    if len(rr_flags) != len(rr_terms):
        raise core.CheckFailure("could not read back reverse_row flags from Coq")
    rr_bad = [i for i, b in enumerate(rr_flags) if not b]

    src_items = sorted({(o.get("rule_text", c["rule"]), o["pattern"]) for c, o in zip(cases, outs)})
    src_out = core.coq_eval(ID, IMPORTS, [
        "map (fun x => match rule_pat (fst x) with Some p => String.eqb (regex_src p) (snd x) | None => false end) "
        + clist(f"({cstr(a)}, {cstr(b)})" for a, b in src_items[k:k + CH]) for k in range(0, len(src_items), CH)],
        tag="regexsrc")
    src_flags = [b for chunk in src_out for b in parse_bools(chunk)]
    src_diff = [src_items[i] for i, b in enumerate(src_flags) if not b] if len(src_flags) == len(src_items) else None

    # ---- verdicts ----
    bad_holds = sorted(set(res["holds"]))
    diag = {}
    if bad_holds:
        # diagnose a selection that is diverse over the case families (at most 240 cases)
        by_fam: dict[str, list[int]] = {}
        for i in bad_holds:
            by_fam.setdefault(cases[i]["src"], []).append(i)
        pick = []
        for k in range(max(len(v) for v in by_fam.values())):
            for fam in sorted(by_fam):
                if k < len(by_fam[fam]) and len(pick) < 240:
                    pick.append(by_fam[fam][k])
        chunks = [pick[k:k + 40] for k in range(0, len(pick), 40)]

        def diag_chunk(job):
            k, chunk = job
            return core.coq_eval(ID, IMPORTS + "\n" + extra_defs,
                                 [f"diag_C07 (fst {terms[i]}) (snd {terms[i]})" for i in chunk], tag=f"diag{k}")
        from concurrent.futures import ThreadPoolExecutor
        with ThreadPoolExecutor(max_workers=8) as ex:
            d_outs = list(ex.map(diag_chunk, enumerate(chunks)))
        for chunk, d_out in zip(chunks, d_outs):
            for i, txt in zip(chunk, d_out):
                m = re.match(r"\(\s*(true|false)\s*,\s*\[(.*)\]\s*\)", txt, re.S)
                if not m:
                    raise core.CheckFailure(f"could not read diag_C07 output: {txt[:200]}")
                rows_bad = [(int(a), b == "true") for a, b in re.findall(r"\((\d+)\s*,\s*(true|false)\)", m.group(2))]
                diag[i] = (m.group(1) == "true", rows_bad)
        if len(pick) < len(bad_holds):
            ctx.notes.append(f"{len(bad_holds)} cases violate P_C07; {len(pick)} of them were diagnosed and reported")
        bad_holds = sorted(pick)
    for i in bad_holds:
        c, o = cases[i], outs[i]
        ffmt_ok, rows_bad = diag.get(i, (None, []))
        match_bad = [n for n, same in rows_bad if not same]
        inline = "(?i)" in c["rule"]
        if match_bad:
            kind = "match-differs"
        elif inline:
            kind = "reverse-template-keeps-inline-flag"
        else:
            kind = "removal-command-differs"
        fam = "shipped" if c["kind"] == "book" else "plain"
        rows_l = c["rows_list"]
        witness = [{"row": rows_l[n], "impl": o["rows"][n]} for n, _ in rows_bad[:3]]
        ctx.add_violation(core.Violation(
            signature=f"C07/{fam}/{kind}",
            what=f"rule {c['rule']!r} (prefix {c['prefix']!r}, ignore_case={c['ic']}): the real regexp/template gives "
                 f"{witness or o['ffmt']} which is not what the rule language says",
            replay={"case": public(c, rows=[w["row"] for w in witness] or rows_l[:3]), "impl_tmpl": o["tmpl"],
                    "impl_ffmt": o["ffmt"], "witness": witness}))
    for i in kinds_differ:
        c, o = cases[i], outs[i]
        ctx.add_violation(core.Violation(
            signature="C07/shipped/rulebook-kinds-compile-differently",
            what=f"{c['file']}: row {c['rule']!r} is compiled differently by {o['kinds_differ']}",
            replay={"case": public(c, rows=c["rows_list"][:3]), "kinds_differ": o["kinds_differ"]}))
    for i in rr_bad[:1]:
        c, o = rr_items[i]
        ctx.add_violation(core.Violation(
            signature="C07/reverse-row-differs",
            what=f"acl._make_reverse({o.get('rule_text', c['rule'])!r}, {c['prefix']!r}) = {o['reverse_row']!r} differs "
                 f"from strip-or-prepend of the negation word",
            replay={"case": public(c, rows=[]), "impl_reverse_row": o["reverse_row"]}))
    if not bad_holds and not kinds_differ and not rr_bad:
        for i in sorted(set(res["agree"]))[:1]:
            ctx.add_violation(core.Violation(
                signature="C07/model-impl-disagree",
                what="Coq model (rule_match / make_reverse / format_template) and the real compile_row_regexp / "
                     "_make_reverse / str.format differ (correspondence broken); P_C07 holds on all outputs explored",
                replay={"correspondence": "Model.Pattern vs annet.annlib.rbparser.syntax.compile_row_regexp, "
                                          "annet.rulebook.patching._make_reverse",
                        "case": public(cases[i], rows=cases[i]["rows_list"][:5]), "impl_tmpl": outs[i]["tmpl"]},
                no_input=True))

    # ---- coverage ----
    evals = sum(len(c["rows_list"]) for c in cases)
    seen, nontrivial = set(), 0
    hist = {"matched": 0, "unmatched": 0, "format_error": 0}
    by_src: dict[str, int] = {}
    for c, o in zip(cases, outs):
        by_src[c["src"]] = by_src.get(c["src"], 0) + len(c["rows_list"])
        if "exc" in o["ffmt"]:
            hist["format_error"] += 1
        for r, x in zip(c["rows_list"], o["rows"]):
            hist["matched" if x is not None else "unmatched"] += 1
            h = (c["rule"], c["prefix"], c["ic"], c.get("rev", False), r)
            if h in seen:
                continue
            seen.add(h)
            if x is not None and x[0]:
                nontrivial += 1
    unm_rows = sorted({r["row"] for r in unmodelled})
    ctx.coverage.update({
        "evaluations": evals,
        "distinct_nontrivial": nontrivial,
        "rule": "one evaluation = one (rule row, ignore_case, negation word, configuration row) through the real regexp "
                "and reverse template; distinct by that tuple; non-trivial = the real regexp matched and extracted a "
                "non-empty key (so key extraction and the removal command were compared, not only rejection)",
        "samples": [{"input": public(c, rows=c["rows_list"][:4]), "impl": {"tmpl": o["tmpl"], "ffmt": o["ffmt"],
                                                                            "rows": o["rows"][:4]}}
                    for c, o in (list(zip(cases, outs))[:1] + list(zip(cases, outs))[-2:])],
        "traces_validated_against_impl": evals,
        "cases": len(cases),
        "disagreements_checked": len(set(res["agree"])),
        "outcome_histogram": hist,
        "input_distribution": dict(by_src, exhaustive_scope=scope),
        "exhaustive": bool(exh_full),
        "shipped_rule_lines": {
            "distinct_lines": len(shipped),
            "modelled": len(modelled),
            "unmodelled": len(unmodelled),
            "per_file_distinct": per_file,
            "unmodelled_rows": unm_rows,
        },
        "regex_source_text_diagnostic": {
            "compared": len(src_items),
            "identical": None if src_diff is None else len(src_items) - len(src_diff),
            "different_examples": None if src_diff is None else [list(x) for x in src_diff[:10]],
            "note": "regex_src p vs compile_row_regexp(...).pattern; informational, never a violation",
        },
    })
    ctx.assumptions += [
        "rows are wf_row: printable ASCII words separated by single spaces (what the vendor formatters' split/strip produce)",
        "CPython re is trusted to implement the textbook semantics of the supported regex subset "
        "(classes, sets, alternation, greedy * + ?), re.IGNORECASE on ASCII; checked by this correspondence only",
        "rule rows outside the plain language (parse_pat = None) are excluded: see shipped_rule_lines.unmodelled_rows",
    ]


def public(c, rows=None) -> dict:
    d = {k: v for k, v in c.items() if k not in ("rows_list", "rows")}
    d["rows"] = rows if rows is not None else c["rows_list"]
    return d


def replay(ctx, doc):
    c = dict(doc["replay"]["case"])
    rows = c.pop("rows")
    c.pop("src", None)
    out = core.run_impl("c07_runner.py", {"op": "run", "cases": [dict(c, rows=rows)]})[0]
    cc = dict(c, rows=rows)
    rule_expr = f"(reverse_row {cstr(c['rule'])} {cstr(c['prefix'])})" if c.get("rev") else None
    term = f"({c_in(cc, rule_expr)}, {c_out(out)})"
    res = core.run_case_files(ID, TY, IMPORTS, {"holds": "fun c => P_C07 (fst c) (snd c)"}, [term], tag="replay")
    print("impl:", {k: out[k] for k in ("tmpl", "ffmt", "rows", "pattern")}, "holds:", not res["holds"])
    return 1 if res["holds"] else 0
