"""C10 — generators are confined to their ACL, own lines exclusively, merge by union (DESIGN §3.C10)."""
from __future__ import annotations

import time

from .. import core
from .. import aclgen
from ..core import cstr, clist, cpair, cforest, cnat, copt, cbool

ID = "C10"
THEOREM_FILE = "Properties/C10.v"
IMPORTS = ("From Annet Require Import Base.Str Base.Tree Model.Pattern Model.Acl Model.Offside Model.GenProg "
           "Model.GenAcl Spec.P_C10 Gen.Src_vendors Model.Join Model.GenProgV Spec.P_C05 Spec.P_C10b Spec.P_C10v.")
# vendors whose formatter.split agrees with CommonFormatter.split on the generated rows (no interior double
# blanks, no policy-end keywords): optixtrans is CommonFormatter itself; huawei / arista add split_remove_spaces
HWS = {"optixtrans": "Huawei OptiXtrans DC908", "huawei": "Huawei CE6870", "arista": "Arista DCS-7280",
       "h3c": "H3C S6800", "cisco": "Cisco Catalyst C3750", "nexus": "Cisco Nexus 9000", "iosxr": "Cisco ASR 9000",
       "aruba": "Aruba AP-505", "b4com": "B4com CS4100", "pc": "PC"}
# every vendor of the plain-indentation formatter family (Model/Join.v): the emit/parse stage runs the model with
# the vendor's own split kind (CommonFormatter / split_remove_spaces / policy-end filters / CiscoFormatter)
PLAIN_VENDORS = ["optixtrans", "huawei", "h3c", "arista", "cisco", "nexus", "iosxr", "aruba", "b4com", "pc"]
VENDOR = "optixtrans"
META = {
    "text": "Proof (Coq, unbounded): (layer 1, every program, no guard) the outcome of _run_partial_generator(use_acl=False) "
            "in the model of TreeGenerator's indentation bookkeeping, PartialGenerator.__call__ and parse_to_tree is: the "
            "invalid-value error iff the run reaches a None / list value, else the None assertion iff a row holds the word "
            "None, else the C05 offside reference over the program's (column, raw row) list, where a row is a '#' section "
            "reset, vanishes (blank, '!'/'#' comment) or is a line in column block column + own indentation "
            "(C10_run_items, C10_invalid_iff, C10_noneword_iff). (layer 2) under the computable guard wfx_prog the run "
            "succeeds with exactly tree_of': the ordered dict of the yielded paths where blank and comment rows vanish, a "
            "self-indented row is placed among the recent rows of its own block, a block body hangs under the last visible "
            "header line or - when the header vanishes - under the row yielded just before it, multi-line headers, any "
            "indent including 0, block_if / multiblock_if conditions with falsy-but-printable tokens "
            "(C10_emit_parse_gen; it extends C10_emit_parse: C10_gen_extends). With the device vendor's own "
            "formatter.split in the parse step both layers hold for every program the split leaves alone "
            "(C10_vendor_split_neutral, C10_emit_parse_gen_vendor: all split kinds of the plain-indentation family). "
            "config_tree (merge_dicts) is the first-seen-order union; apply_acl in fatal mode raises iff a yielded path is "
            "refused by the generator's own ACL and names the first such path; in exclusive mode it raises iff a reached "
            "line is deletable by >= 2 distinct generators and names them; otherwise new is the set of passed paths of the "
            "union. Correspondence: Coq (vm_compute) compares the model with real PartialGenerator subclasses run through "
            "_run_partial_generator (with and without ACL), run_partial_generators().config_tree() and "
            "annet.gen._old_new_per_device, and evaluates the property predicates on the real outputs; the emit/parse "
            "stage runs on devices of all ten plain-family vendors (optixtrans, pc: CommonFormatter.split; arista, aruba, "
            "b4com, nexus: split_remove_spaces; huawei, h3c: strip().startswith policy-end filter; iosxr: endswith "
            "filter; cisco: CiscoFormatter re-indentation) against the model with that vendor's split kind, read off the "
            "vendor table regenerated from the source.",
    "technique": "Coq induction over generator programs and trees (reusing the C05 offside theorem; a cursor invariant on "
                 "the offside history for vanishing headers and self-indented rows); vm_compute differential check "
                 "against real PartialGenerator runs on ten vendors",
    "note": "partial: (1) the confinement clause is refuted for lines discarded by apply_acl's reverse/cant_delete rule "
            "(C10_confined_refuted, KNOWN-FINDING, fix proposed) and proved outside that class; (2) 'new == union' is "
            "proved under the guard that the merged ACL passes every line of the union (ACL-merge monotonicity is "
            "property C06); (3) the path form of the tree theorem (tree_of') needs wfx_prog; outside it the exact outcome "
            "is still proved (layer 1) and each excluded class has a witness replayed on the real code: a vanishing header "
            "with no known row before it (first in its block or behind a nested block that showed lines) followed by a "
            "sibling -> ParserError (C10_vanishing_header_refuted); a self-indented row with no known row before it "
            "(C10_leading_blank_refuted) or into a column no open row started (C10_inner_dedent_refuted); a header line "
            "deeper than the block indent (C10_header_deep_line_refuted); a '#' row in column 0 inside a header "
            "(C10_header_reset_refuted); None values are errors (C10_invalid_iff), never skipped; inside the guard a body "
            "under a vanishing header is filed under the row before the block, not under 'the block path it was yielded "
            "in' (C10_example_reattached); (4) the vendor theorems need split_neutral: rows a vendor split rewrites "
            "(interior runs of blanks) or drops (huawei/h3c endif/end-list/end-filter, iosxr end-set/endif/end-policy) or "
            "re-indents (cisco address-family ... exit-address-family) are compared with the model by the correspondence "
            "only; ACL theorems are for every row matcher, the ACL stages of the correspondence use optixtrans, huawei "
            "and arista with rows their splits leave alone; brace (juniper, ribbon, nokia) and RouterOS formatters are "
            "not in the C10 model.",
}


def spread(n, cap):
    """cases per file: one file per core when there are few cases, at most `cap` per file"""
    return max(6, min(cap, -(-n // core.NPROC)))


def run_case_files(*a, **k):
    """core.run_case_files; one retry when a coqc child died without a Coq error (killed under memory pressure)"""
    try:
        return core.run_case_files(*a, **k)
    except core.CheckFailure as e:
        if "Error" in str(e):
            raise
        time.sleep(10)
        return core.run_case_files(*a, **k)


# --------------------------------------------------------------------------------------
# generator programs (JSON form understood by harness/impl/c10_runner.py)

TOP = ["interface X1", "interface X2", "interface Vlan10", "system", "bgp 100", "acl 3000",
       "ntp server 1.1.1.1", "sysname r1", "undo ntp enable", "route-policy P permit node 10"]
SUB = ["mtu 1", "mtu 2", "description a b", "shutdown", "undo shutdown", "peer 10.0.0.1 as 200",
       "ip address 1.2.3.4 255.0.0.0", "rule 5 permit", "ipv4-family unicast", "apply cost 5"]


def s_tok(s):
    return {"s": s}


def split_tokens(rng, row):
    """a row as block()/tuple arguments: whole, word by word, or numbers as ints"""
    ws = row.split(" ")
    m = rng.random()
    if m < 0.45 or len(ws) == 1:
        return [s_tok(row)]
    if m < 0.8:
        return [({"i": int(w)} if w.isdigit() and (w == "0" or not w.startswith("0")) and rng.random() < 0.5 else s_tok(w))
                for w in ws]
    k = rng.randint(1, len(ws) - 1)
    return [s_tok(" ".join(ws[:k])), s_tok(" ".join(ws[k:]))]


def gen_yield(rng, depth, wild):
    rows = TOP if depth == 0 and rng.random() < 0.8 else SUB
    row = rng.choice(rows)
    m = rng.random()
    if m < 0.62:
        v = {"s": row}
    elif m < 0.77:
        toks = split_tokens(rng, row)
        items = [dict(t) for t in toks]
        if rng.random() < 0.3 and len(items) >= 2:        # nested tuple / list inside the tuple
            k = rng.randint(0, len(items) - 2)
            items[k:k + 2] = [{rng.choice(["t", "l"]): items[k:k + 2]}]
        v = {"t": items}
    elif m < 0.92:                                        # multi-line text, flush after dedent
        n = rng.randint(2, 4)
        ls = [rng.choice(rows) for _ in range(n)]
        style = rng.random()
        if style < 0.4:
            v = {"s": "\n".join(ls)}
        elif style < 0.8:
            ind = " " * rng.choice([2, 4, 8, 12])
            v = {"s": "\n" + "\n".join(ind + l for l in ls) + "\n" + ind[:-2]}
        else:
            ind = " " * rng.choice([1, 4])
            v = {"s": "\n".join(ind + l for l in ls) + rng.choice(["", "\n", "\n\n"])}
    else:
        v = {"s": row + rng.choice(["", " ", "  "])}
    if wild and rng.random() < 0.25:
        w = rng.random()
        if w < 0.12:
            v = {"n": 1}
        elif w < 0.2:
            v = {"l": [s_tok(row)]}
        elif w < 0.3:
            v = {"t": [s_tok(row.split(" ")[0]), {"n": 1}]}
        elif w < 0.42:
            v = {"s": rng.choice(["description None", "None", "peer None as 1", "description NoneX", "xNone y",
                                  "description None-1", "a_None", "None."])}
        elif w < 0.54:
            v = {"s": rng.choice(["# note", "! note", "#", "!", " # x", "\t#a"])}
        elif w < 0.66:
            v = {"s": rng.choice(["", " ", "  " + row, " " + row, "\t" + row, "    " + row])}
        elif w < 0.86:                                    # multi-line with relative indentation / blank lines
            ls = [rng.choice(rows) for _ in range(rng.randint(2, 4))]
            inds = [rng.choice([0, 0, 1, 2, 2, 4]) for _ in ls]
            txt = "\n".join(" " * i + l for i, l in zip(inds, ls))
            if rng.random() < 0.3:
                txt = txt.replace("\n", "\n\n", 1)
            if rng.random() < 0.3:
                txt = "\n" + txt + "\n   "
            if rng.random() < 0.15:
                txt = txt.replace(" ", "\t", 1)
            v = {"s": txt}
        else:
            v = {"i": rng.randint(0, 99)}
    return {"y": v}


def gen_block_tokens(rng, depth, wild):
    row = rng.choice(TOP if depth == 0 and rng.random() < 0.85 else SUB)
    toks = split_tokens(rng, row)
    if wild and rng.random() < 0.2:
        w = rng.random()
        if w < 0.35:
            toks = toks + [{"n": 1}]
        elif w < 0.6:
            toks = toks + [s_tok("")]
        elif w < 0.7:
            toks = [s_tok("")]
        elif w < 0.8:
            toks = [s_tok(row + "\n" + rng.choice(SUB))]
        elif w < 0.9:
            toks = [s_tok(" " + row)]
        else:
            toks = [s_tok("# " + row)]
    return toks


def gen_body(rng, depth, wild, budget):
    n = rng.choice([0, 1, 1, 2, 2, 3, 4]) if depth else rng.choice([1, 2, 3, 4, 5])
    out = []
    for _ in range(n):
        if budget[0] <= 0:
            break
        budget[0] -= 1
        if depth < 3 and rng.random() < (0.45 if depth == 0 else 0.3):
            k = rng.random()
            body = gen_body(rng, depth + 1, wild, budget)
            if k < 0.55:
                ind = None
                if rng.random() < 0.15:
                    ind = rng.choice([1, 3, 4, 8]) if not (wild and rng.random() < 0.3) else 0
                out.append({"b": gen_block_tokens(rng, depth, wild), "indent": ind, "body": body})
            elif k < 0.75:
                toks = gen_block_tokens(rng, depth, wild)
                if rng.random() < 0.3:
                    toks = toks + [rng.choice([{"n": 1}, s_tok("")])]
                elif rng.random() < 0.25:
                    # printable but falsy: the default condition is about None and "" only (`area 0`, `unit 0`)
                    toks = toks + [{"i": 0}]
                cond = rng.choice([None, None, None, True, False])
                if cond is True and not wild:
                    toks = [t for t in toks if "n" not in t]
                out.append({"bi": toks, "cond": cond, "body": body})
            elif k < 0.93:
                nb = rng.choice([0, 1, 2, 2, 3])
                blocks = []
                for j in range(nb):
                    toks = gen_block_tokens(rng, depth + j, wild)
                    blocks.append(toks[0] if len(toks) == 1 and rng.random() < 0.6 else toks)
                out.append({"mb": blocks, "body": body})
            else:
                nb = rng.choice([1, 2])
                blocks = []
                for j in range(nb):
                    toks = gen_block_tokens(rng, depth + j, wild)
                    blocks.append(toks[0] if len(toks) == 1 and rng.random() < 0.6 else toks)
                if rng.random() < 0.3:
                    blocks.append({"n": 1})
                out.append({"mbi": blocks, "cond": rng.choice([None, None, True, False]), "body": body})
        else:
            out.append(gen_yield(rng, depth, wild))
    return out


def gen_prog(rng, wild):
    return gen_body(rng, 0, wild, [rng.choice([4, 8, 12, 20])])


# rows the vendors' splits care about: interior runs of blanks (split_remove_spaces), policy-end markers (huawei /
# h3c: strip().startswith; iosxr: endswith), address-family / exit rows (CiscoFormatter), '!' comments
VROWS = ["endif", "end-list", "end-filter", "end-policy", "end-set", "  endif", "xpl end-policy", "if a then endif",
         "endif x", "address-family ipv4", "address-family ipv4 unicast", "exit-address-family", "exit", " exit",
         "description a  b", "description  a   b c", "a   b", "mtu  1", "mtu 1  ", "!", "! x", "no shutdown",
         "router bgp 1", "neighbor 1.1.1.1 remote-as  2"]
VANISH = ["", "# h", "!", "  ", "!x", "#", "\t"]
FALSY_CONDS = [0, "", [], 0.0]
TRUTHY_CONDS = [1, "x", [0]]


def nested_text(rng, rows):
    """a multi-line text that carries its own indentation"""
    k = rng.randint(2, 5)
    ind, out = 0, []
    for j in range(k):
        out.append(" " * ind + rng.choice(rows))
        step = rng.random()
        if step < 0.4:
            ind += rng.choice([1, 2, 2, 4])
        elif step < 0.7 and ind:
            ind = rng.choice([0, max(0, ind - 2), ind - 1])
    txt = "\n".join(out)
    if rng.random() < 0.3:
        pre = " " * rng.choice([2, 6])
        txt = "\n" + "\n".join(pre + l for l in txt.split("\n")) + "\n"
    return txt


def mutate_x(rng, prog, depth=0):
    """rows / headers / conditions of the widened theorem domain, sprinkled over a generated program"""
    out = []
    for st in prog:
        st = dict(st)
        if "y" in st:
            r = rng.random()
            if r < 0.14:
                st = {"y": {"s": rng.choice(VROWS)}}
            elif r < 0.2:
                st = {"y": {"s": nested_text(rng, SUB + VROWS[:12])}}
            elif r < 0.23:
                st = {"y": {"t": [s_tok("flag"), {"bool": rng.random() < 0.5}]}}
            elif r < 0.25:
                st = {"y": {"bool": rng.random() < 0.5}}
            out.append(st)
            if rng.random() < 0.1:                       # a block whose header vanishes, right behind a row
                body = [{"y": {"s": rng.choice(SUB)}} for _ in range(rng.choice([0, 1, 1, 2]))]
                if body and rng.random() < 0.3:
                    body = [{"b": [s_tok(rng.choice(VANISH))], "indent": None, "body": body}]
                out.append({"b": [s_tok(rng.choice(VANISH))], "indent": rng.choice([None, None, 1, 4]), "body": body})
            continue
        st["body"] = mutate_x(rng, st["body"], depth + 1)
        if "b" in st:
            r = rng.random()
            if r < 0.08:
                st["b"] = [s_tok(rng.choice(VANISH))]
            elif r < 0.2:
                a, b2 = rng.choice(TOP if depth == 0 else SUB), rng.choice(SUB)
                st["b"] = [s_tok(rng.choice([a + "\n" + b2, a + "\n  " + b2, a + "\n   " + b2, a + "\n#", "# x\n" + b2,
                                             a + "\n! c", a + "\n\n" + b2, "\n    " + a + "\n      " + b2 + "\n"]))]
            elif r < 0.26:
                st["b"] = [s_tok(rng.choice(["address-family ipv4", "address-family ipv4 unicast", "router bgp 1"]))]
            if rng.random() < 0.1:
                st["indent"] = 0
        elif "bi" in st:
            r = rng.random()
            if r < 0.2:
                st["bi"] = list(st["bi"]) + [rng.choice([{"bool": False}, {"i": 0}, {"bool": True}])]
            if rng.random() < 0.2:
                st["cond"] = rng.choice(FALSY_CONDS + TRUTHY_CONDS)
        elif "mbi" in st:
            if rng.random() < 0.25:
                st["cond"] = rng.choice(FALSY_CONDS + TRUTHY_CONDS)
            if rng.random() < 0.15:
                st["mbi"] = list(st["mbi"]) + [{"bool": False}]
        out.append(st)
    return out


# --------------------------------------------------------------------------------------
# Coq printers


def c_tok(t):
    if "s" in t:
        return f"(TS {cstr(t['s'])})"
    if "i" in t:
        return f"(TS {cstr(str(t['i']))})"
    if "bool" in t:
        return f"(TS {cstr(str(bool(t['bool'])))})"        # str(False) = "False": printable, falsy
    return "TNone"


def c_cond(st):
    """an explicit condition= argument (any Python value: only its truthiness matters); None = left at the default"""
    c = st.get("cond")
    return copt(None if c is None else cbool(bool(c)))


def c_yval(v):
    if "s" in v:
        return f"(YS {cstr(v['s'])})"
    if "i" in v:
        return f"(YS {cstr(str(v['i']))})"
    if "bool" in v:
        return f"(YS {cstr(str(bool(v['bool'])))})"
    if "t" in v:
        return f"(YT {clist(c_yval(x) for x in v['t'])})"
    if "l" in v:
        return f"(YL {clist(c_yval(x) for x in v['l'])})"
    return "YNone"


def c_mblk(b):
    if isinstance(b, list):
        return f"(ML {clist(c_tok(t) for t in b)})"
    return f"(MT {c_tok(b)})"


def c_stmt(st):
    if "y" in st:
        return f"(Yield {c_yval(st['y'])})"
    if "b" in st:
        ind = copt(None if st.get("indent") is None else cnat(st["indent"]))
        return f"(Block {clist(c_tok(t) for t in st['b'])} {ind} {c_prog(st['body'])})"
    if "bi" in st:
        return f"(BlockIf {clist(c_tok(t) for t in st['bi'])} {c_cond(st)} {c_prog(st['body'])})"
    if "mb" in st:
        return f"(MultiBlock {clist(c_mblk(b) for b in st['mb'])} {c_prog(st['body'])})"
    if "mbi" in st:
        return f"(MultiBlockIf {clist(c_mblk(b) for b in st['mbi'])} {c_cond(st)} {c_prog(st['body'])})"
    raise core.CheckFailure(f"bad stmt {st}")


def c_prog(p):
    return clist(c_stmt(s) for s in p)


def c_gres(o):
    if "ok" in o:
        return f"(GOk {cforest(o['ok'])})"
    kind, payload = o["err"]
    if kind == "invalid":
        return "GInvalid"
    if kind == "none":
        return "GNoneWord"
    if kind == "parse":
        return f"(GParse {cnat(payload[0])} {cstr(payload[1])})"
    if kind == "acl":
        return f"(GAcl {cstr(payload)})"
    if kind == "compile":
        return "GAclCompile"
    raise core.CheckFailure(f"unexpected implementation outcome {o}")


# --------------------------------------------------------------------------------------


def depth_of(p):
    d = 0
    for st in p:
        if "y" not in st:
            d = max(d, 1 + depth_of(st["body"]))
    return d


def n_yields(p):
    return sum(1 if "y" in st else n_yields(st["body"]) for st in p)


def kinds_of(p, acc):
    for st in p:
        for k in ("y", "b", "bi", "mb", "mbi"):
            if k in st:
                acc[k] = acc.get(k, 0) + 1
        if "y" in st:
            v = st["y"]
            if "t" in v:
                acc["tuple"] = acc.get("tuple", 0) + 1
            elif "s" in v and "\n" in v["s"]:
                acc["multiline"] = acc.get("multiline", 0) + 1
        else:
            kinds_of(st["body"], acc)
    return acc


# --------------------------------------------------------------------------------------
# ACLs and programs that belong together


def item(pat, kids=(), cd=None, glob=False, prio=0):
    return {"pat": pat, "ign": False, "glob": glob, "cd": cd, "prio": prio, "gens": [], "kids": list(kids)}


VOCAB_TOP = {"interface X1": "interface *", "interface X2": "interface *", "interface Vlan10": "interface *",
             "system": "system", "bgp 100": "bgp *", "acl 3000": "acl *", "ntp server 1.1.1.1": "ntp server *",
             "sysname r1": "sysname *", "undo ntp enable": "ntp enable", "route-policy P permit node 10":
             "route-policy * permit node *"}
VOCAB_SUB = {"mtu 1": "mtu *", "mtu 2": "mtu *", "description a b": "description ~", "shutdown": "shutdown",
             "undo shutdown": "shutdown", "peer 10.0.0.1 as 200": "peer * as *",
             "ip address 1.2.3.4 255.0.0.0": "ip address * *", "rule 5 permit": "rule * permit",
             "ipv4-family unicast": "ipv4-family unicast", "apply cost 5": "apply cost *"}


def vocab_acl(rng, drop=0.12, depth=3, tops=None):
    """an ACL over the fixed vocabulary of gen_yield/gen_block_tokens; some lines missing"""
    def sub(d):
        out = []
        pats = list(dict.fromkeys(VOCAB_SUB.values()))
        if d < depth - 1:
            pats = rng.sample(pats, rng.randint(2, 4))
        for pat in pats:
            if rng.random() < drop:
                continue
            x = rng.random()
            cd = [True] if x < 0.2 else ([False] if x < 0.3 else None)
            kids = sub(d - 1) if d > 1 and rng.random() < 0.25 else []
            if rng.random() < 0.08:
                out.append(item(pat, [], cd, glob=True))
            else:
                out.append(item(pat, kids, cd))
        return out
    out = []
    for pat in (tops if tops is not None else dict.fromkeys(VOCAB_TOP.values())):
        if rng.random() < drop:
            continue
        x = rng.random()
        cd = [True] if x < 0.15 else ([False] if x < 0.3 else None)
        out.append(item(pat, sub(depth - 1) if rng.random() < 0.85 else [], cd))
    if tops is None and rng.random() < 0.15:
        out.append(item("~", sub(1), None))
    if tops is None and rng.random() < 0.1:
        out.append(item("mtu *", [], None, glob=True))
    return out


def yield_of_row(rng, row):
    if rng.random() < 0.75:
        return {"y": {"s": row + ("  " if rng.random() < 0.05 else "")}}
    return {"y": {"t": [dict(t) for t in split_tokens(rng, row)]}}


def prog_of_tree(rng, tree, depth=0):
    """a program yielding exactly the paths of `tree` (first-seen order), through randomly chosen
    block styles, repeated visits of a block, tuple and multi-line yields"""
    out = []
    items = list(tree.items())
    i = 0
    later = []
    while i < len(items):
        row, kids = items[i]
        if not kids:
            # a run of leaves as one multi-line yield
            j = i
            while j < len(items) and not items[j][1]:
                j += 1
            if j - i >= 2 and rng.random() < 0.3:
                k = rng.randint(i + 2, j)
                ind = " " * rng.choice([0, 2, 6])
                txt = "\n".join(ind + r for r, _ in items[i:k])
                if ind:
                    txt = "\n" + txt + "\n" + ind[:-2]
                out.append({"y": {"s": txt}})
                i = k
                continue
            if rng.random() < 0.1:
                out.append({"b": split_tokens(rng, row), "indent": None, "body": []})
            else:
                out.append(yield_of_row(rng, row))
                if rng.random() < 0.05:
                    out.append(yield_of_row(rng, row))            # the same line twice
            i += 1
            continue
        kitems = list(kids.items())
        if len(kitems) >= 2 and rng.random() < 0.2:               # come back to this block later
            cut = rng.randint(1, len(kitems) - 1)
            first, second = dict(kitems[:cut]), dict(kitems[cut:])
            later.append((row, second))
        else:
            first = kids
        body = prog_of_tree(rng, first, depth + 1)
        k = rng.random()
        toks = split_tokens(rng, row)
        if k < 0.5:
            ind = rng.choice([1, 3, 4]) if rng.random() < 0.1 else None
            out.append({"b": toks, "indent": ind, "body": body})
        elif k < 0.7:
            out.append({"bi": toks, "cond": rng.choice([None, None, True]), "body": body})
        elif k < 0.95:
            # fold a chain row -> single child with children into one multiblock
            blocks = [toks[0] if len(toks) == 1 and rng.random() < 0.5 else toks]
            cur = first
            while len(cur) == 1 and list(cur.values())[0] and rng.random() < 0.7:
                r2, cur = list(cur.items())[0]
                t2 = split_tokens(rng, r2)
                blocks.append(t2[0] if len(t2) == 1 and rng.random() < 0.5 else t2)
            out.append({"mb": blocks, "body": prog_of_tree(rng, cur, depth + 1)})
        else:
            out.append({"mbi": [toks], "cond": None, "body": body})
        i += 1
        if later and rng.random() < 0.5:
            r, rest = later.pop(0)
            out.append({"b": split_tokens(rng, r), "indent": None, "body": prog_of_tree(rng, rest, depth + 1)})
    for r, rest in later:
        out.append({"b": split_tokens(rng, r), "indent": None, "body": prog_of_tree(rng, rest, depth + 1)})
    return out


def tree_from_acl(rng, acl, rev, noise, depth=0, inherited=(), budget=None):
    """a config tree whose rows are mostly covered by `acl`: instances of its rows (a few in reverse
    form, a few for inherited %global rules), children drawn from the children rules"""
    budget = [16] if budget is None else budget
    t = {}
    globs = [it for it in acl if it.get("glob")]
    cands = [it for it in acl if rng.random() < 0.65] + [g for g in inherited if rng.random() < 0.25]
    rng.shuffle(cands)
    for it in cands:
        holes = "*" in it["pat"] or "~" in it["pat"]
        for _ in range(rng.choice([1, 1, 2]) if holes else 1):
            if budget[0] <= 0:
                break
            row = aclgen.inst(rng, it["pat"], extra=False)
            if not row or row in t:
                continue
            budget[0] -= 1
            if rng.random() < 0.06:
                t[row[len(rev) + 1:] if row.startswith(rev + " ") else rev + " " + row] = {}
                continue
            kids = [] if it.get("glob") else it.get("kids", [])
            if depth < 3 and (kids or inherited or globs) and rng.random() < 0.75:
                t[row] = tree_from_acl(rng, kids, rev, noise, depth + 1, tuple(inherited) + tuple(globs), budget)
            else:
                t[row] = {}
    if rng.random() < noise:
        t["unknown " + rng.choice(aclgen.VAL)] = {} if rng.random() < 0.7 else {"alpha 1": {}}
    return t


def gen_case(rng, thorough):
    vendor = rng.choice(["optixtrans", "optixtrans", "optixtrans", "huawei", "arista"])
    c = gen_case_v(rng, vendor)
    c["vendor"] = vendor
    return c


def gen_exclusive_family(rng, VENDOR):
    """Generators overlapping on one yielded row, one of them matching it with SEVERAL rules whose cant_delete
    flags differ (a broad deletable rule and a pinned %cant_delete one, ranked by specificity or %prio):
    a generator can delete the row as soon as ONE of its matching rules is deletable."""
    base = rng.choice(["alpha", "port", "vlan", "ip"])
    row = f"{base} 1"
    it = aclgen._it
    gens = []
    ng = rng.choice([2, 2, 3])
    if rng.random() < 0.4:
        # the overlap one level down: the same child rule under TEXTUALLY DIFFERENT parent rules that both match
        # the block header (the children rule sets of all matching parents are merged, their per-generator
        # parameter lists concatenated): each generator owns the child line
        kid = rng.choice(["mtu *", "description ~", "mtu */[0-9]+/"])
        line = "mtu 9000" if kid.startswith("mtu") else "description x y"
        parents = [f"{base} *", row, f"{base} ~", f"{base} */[0-9]+/"]
        rng.shuffle(parents)
        same_flags = rng.random() < 0.7
        for j in range(ng):
            cd = [False] if same_flags else [rng.random() < 0.4]
            # the header itself is cant_delete for every generator (as `interface ...` rows are by default), so
            # exclusivity is decided at the child line
            items = [it(parents[j % len(parents)], cd=[True], kids=[it(kid, cd=cd)])]
            tree = {row: {line: {}}}
            if rng.random() < 0.3:
                tree[f"{base} 2"] = {line: {}}
            gens.append({"name": f"G{j}", "items": items, "prog": prog_of_tree(rng, tree)})
        return gens
    for j in range(ng):
        items = []
        if j == 0 or rng.random() < 0.35:
            broad = it(rng.choice([f"{base} *", f"{base} ~", "~", f"{base} */[0-9]+/"]), cd=[rng.random() < 0.25])
            pinned = it(row, cd=[rng.random() < 0.75])
            if rng.random() < 0.25:
                broad["prio"], broad["prio_explicit"] = rng.choice([1, 2]), True
            items = [broad, pinned]
            if rng.random() < 0.3:
                items.append(it(f"{base} 1 ~", cd=[rng.random() < 0.5]))
            if rng.random() < 0.5:
                items.reverse()
        else:
            items = [it(rng.choice([row, f"{base} *", f"{base} ~", "~"]), cd=[rng.random() < 0.3])]
        tree = {row: {}}
        if rng.random() < 0.4:
            tree[f"{base} 2"] = {}
        gens.append({"name": f"G{j}", "items": items, "prog": prog_of_tree(rng, tree)})
    return gens


def gen_case_v(rng, VENDOR):
    fam = rng.random()
    ng = rng.choice([1, 2, 2, 2, 3, 3, 4])
    gens = []
    if fam < 0.1:
        gens = gen_exclusive_family(rng, VENDOR)
        family = "exclusive-several-rules-per-generator"
    elif fam < 0.17:
        # generators whose parent rules overlap on SOME rows only (one contributing %global rules): a row matched
        # by one parent alone must see that parent's children rules only, whatever was matched before it in this
        # process (the compiled ACL is cached per text and shared by rows, passes and devices)
        parts, tree = aclgen.gen_acl_shared_children(rng, aclgen.VENDORS[VENDOR])
        rows = list(tree.items())
        for j, acl in enumerate(parts):
            sub = dict(rows) if rng.random() < 0.5 else dict(rows[j::len(parts)] or rows[:1])
            gens.append({"name": f"G{j}", "items": acl, "prog": prog_of_tree(rng, sub)})
        family = "shared-children"
    elif fam < 0.5:
        # ACL-driven: structured ACLs of the shared generator, trees drawn from them
        rev = aclgen.VENDORS[VENDOR]
        prev = None
        noise = rng.choice([0.0, 0.0, 0.03, 0.1])
        for j in range(ng):
            if prev is not None and rng.random() < 0.6:
                acl = aclgen.gen_acl_variant(rng, prev, rev, aligned=True)
            else:
                acl = aclgen.gen_acl(rng, rev, max_depth=2, width=(1, 4), aligned=True)
            prev = acl
            if rng.random() < 0.25:
                tree = aclgen.gen_tree(rng, acl, VENDOR, density=0.6, noise=noise, budget=[14])
            else:
                tree = tree_from_acl(rng, acl, rev, noise)
            gens.append({"name": f"G{j}", "items": acl, "prog": prog_of_tree(rng, tree)})
        family = "acl-driven"
    elif fam < 0.8:
        # vocabulary trees replayed as programs, vocabulary ACLs with gaps
        drop = rng.choice([0.0, 0.0, 0.0, 0.04, 0.12])
        shares = None
        if rng.random() < 0.5:                       # every generator owns its own top-level sections
            tops = list(dict.fromkeys(VOCAB_TOP.values()))
            rng.shuffle(tops)
            shares = [tops[j::ng] for j in range(ng)]
            if rng.random() < 0.3 and ng > 1:         # ... except one shared section
                shares[1] = shares[1] + shares[0][:1]
        for j in range(ng):
            acl = vocab_acl(rng, drop=drop, tops=None if shares is None else shares[j])
            tree = tree_from_acl(rng, acl, aclgen.VENDORS[VENDOR], rng.choice([0.0, 0.0, 0.05]))
            gens.append({"name": f"G{j}", "items": acl, "prog": prog_of_tree(rng, tree)})
        family = "vocab-tree"
    else:
        wild = rng.random() < 0.5
        for j in range(ng):
            acl = vocab_acl(rng, drop=rng.choice([0.0, 0.0, 0.1]))
            gens.append({"name": f"G{j}", "items": acl, "prog": gen_prog(rng, wild)})
        family = "free-wild" if wild else "free"
    for g in gens:
        g["acl"] = aclgen.acl_text(g["items"]) + "\n"
    return {"gens": gens, "family": family}


def gen_cases(ctx):
    rng = ctx.rng("gen")
    n = 1800 if ctx.thorough else 220
    return [gen_case(rng, ctx.thorough) for _ in range(n)]


def _y(s_):
    return {"y": {"s": s_}}


def _b(s_, body, ind=None):
    return {"b": [s_tok(s_)], "indent": ind, "body": body}


# fixed corpus of the emit/parse stage: the witnesses of Properties/C10.v (each replayed on the real code on every run)
CORPUS = [
    ("optixtrans", [_y("a"), _b("", [_y("b")]), _y("c")]),                                        # C10_example_reattached
    ("optixtrans", [_b("a", [_b("", [_y("b")]), _y("c")])]),                                      # C10_vanishing_header_refuted
    ("optixtrans", [_y(" a"), _y("b")]),                                                          # C10_leading_blank_refuted
    ("optixtrans", [_y("a\n    b\n  c")]),                                                        # C10_inner_dedent_refuted
    ("optixtrans", [_b("a\n   b", [_y("x")])]),                                                   # C10_header_deep_line_refuted
    ("optixtrans", [_b("a\n#", [_y("x")])]),                                                      # C10_header_reset_refuted
    ("cisco", [_b("router bgp 1", [_b("address-family ipv4", [_y("network 1")]), _y("x")])]),     # C10_cisco_address_family_refuted
    ("nexus", [_b("router bgp 1", [_b("address-family ipv4", [_y("network 1")]), _y("x")])]),
    ("huawei", [_b("xpl p", [_y("if a then"), _y("pass"), _y("endif")])]),                        # C10_huawei_policy_end_refuted
    ("iosxr", [_b("route-policy P", [_y("pass"), _y("end-policy")])]),
    ("arista", [_y("description a  b")]),                                                         # C10_spaces_rewritten_refuted
    ("pc", [{"bi": [s_tok("flag"), {"bool": False}], "cond": None, "body": [_y("x")]}]),
    ("pc", [{"bi": [s_tok("flag")], "cond": 0, "body": [_y("x")]}]),
    ("pc", [{"mbi": [s_tok("flag")], "cond": 1, "body": [_y("x")]}]),
] + [(v, [                                                                                         # ex_prog_x
    _b("interface X1", [_y("mtu 1"), _b("# vanishing header", [_y("b"), _b("!", [_y("z")])]), _y(""), _y("   "),
                        _y("! note"), _y("shutdown")]),
    _y("#"),
    _b("acl 1\nacl 2", [_y("rule 1\n  match a\n    deep\n  match b\nrule 2")], 3),
    _b("system", [_y("sysname r1")], 0),
    {"bi": [s_tok("area"), s_tok("0")], "cond": None, "body": [_y("network 1")]}]) for v in ("optixtrans", "huawei", "cisco")]


def gen_free_progs(ctx):
    """programs only (no ACL): the emit/parse stage gets a much larger sample; each runs on a device of one of the
    plain-family vendors, so that the vendor's own formatter.split is inside the comparison.
    families: free (plain rows), free-wild (near misses), x (the widened domain: vanishing headers behind rows,
    multi-line headers, texts with their own indentation, indent=0, falsy tokens / conditions, rows the vendor
    splits rewrite or drop)"""
    rng = ctx.rng("free")
    n = 12000 if ctx.thorough else 1500
    out = [(v, p, "noacl-corpus") for (v, p) in CORPUS]
    for i in range(n):
        vendor = rng.choice(PLAIN_VENDORS)
        m = rng.random()
        if m < 0.3:
            out.append((vendor, gen_prog(rng, False), "noacl-free"))
        elif m < 0.5:
            out.append((vendor, gen_prog(rng, True), "noacl-wild"))
        else:
            out.append((vendor, mutate_x(rng, gen_prog(rng, rng.random() < 0.25)), "noacl-x"))
    return out


def c_gen(g):
    return f"(Gen {cstr(g['name'])} {aclgen.coq_acl(g['items'])} {c_prog(g['prog'])})"


def c_ores(o):
    if "ok" in o:
        return f"(OOk {cforest(o['ok'])})"
    kind, payload = o["err"]
    if kind == "exclusive":
        return f"(OExclusive {cstr(payload[0])} {clist(cstr(x) for x in payload[1])})"
    if kind == "compile":
        return "OAclCompile"
    return f"(OGenErr {c_gres(o)})"


def runner_case(c):
    """what the runner reads; `items` (the structured ACL the text was printed from) rides along for replay"""
    return {"hw": HWS[c.get("vendor", VENDOR)], "vendor": c.get("vendor", VENDOR), "family": c.get("family", "replay"),
            "gens": [{"name": g["name"], "acl": g.get("acl", ""), "items": g.get("items", []), "prog": g["prog"]}
                     for g in c["gens"]]}


def is_other(o):
    return "err" in o and o["err"][0] == "other"


def correspond(ctx, cases, free_progs=()):
    cases = list(cases)
    n_acl_cases = len(cases)
    # programs without ACL ride along as single-generator cases with an empty ACL
    allc = cases + [{"gens": [{"name": "G0", "items": [], "acl": "", "prog": p}], "family": fam, "vendor": v}
                    for (v, p, fam) in free_progs]
    outs = core.run_impl_sharded("c10_runner.py", [runner_case(c) for c in allc])
    st = {}

    def V(c):
        return aclgen.coq_avendor(c.get("vendor", VENDOR))

    def unexpected(c, o, where):
        ctx.add_violation(core.Violation(
            signature="C10/unexpected-exception", what=f"unexpected exception at {where}: {o}",
            replay={"case": runner_case(c), "impl": o}))

    # ---- stage 1: every generator on its own, without ACL: rows -> text -> (the vendor's split) -> tree
    t0 = time.time()
    progs, terms = [], []
    for ci, (c, o) in enumerate(zip(allc, outs)):
        for gi, (g, go) in enumerate(zip(c["gens"], o["gens"])):
            if is_other(go["noacl"]):
                unexpected({"gens": [g], "vendor": c.get("vendor", VENDOR)}, go["noacl"], "_run_partial_generator(use_acl=False)")
                continue
            progs.append((ci, gi))
            terms.append(cpair(cpair(cstr(c.get("vendor", VENDOR)), c_prog(g["prog"])), c_gres(go["noacl"])))
    TY1 = "(string * prog) * gres"
    NEUTRAL = ("match vendor_splitk (fst (fst c)) with Some sk => split_neutral sk (snd (fst c)) | None => false end")
    res = run_case_files(ID, TY1, IMPORTS, {
        "agree": "fun c => opt_gres_eqb (run_noacl_vendor (fst (fst c)) (snd (fst c))) (snd c)",
        "holds": "fun c => P_C10_vendor (fst (fst c)) (snd (fst c)) (snd c)",
        "wf": "fun c => negb (wf_prog (snd (fst c)))",
        "wfx": "fun c => negb (wfx_prog (snd (fst c)))",
        "neutral": f"fun c => negb ({NEUTRAL})",
        "wfx_neutral": f"fun c => negb (wfx_prog (snd (fst c)) && {NEUTRAL})",
        # the plain tree clause WITHOUT the split_neutral guard: what the vendor's split does to plain programs
        "plain_any": "fun c => P_C10_tree (snd (fst c)) (snd c)",
    }, terms, per_file=spread(len(terms), 300), tag="tree")
    fail1 = sorted(res["holds"])
    cls1 = run_case_files(ID, TY1, IMPORTS, {
        "plain": "fun c => P_C10_tree (snd (fst c)) (snd c)",
        "items": "fun c => P_C10_items (snd (fst c)) (snd c)",
    }, [terms[i] for i in fail1], per_file=40, tag="tree_cls") if fail1 else {"plain": [], "items": []}
    bad_plain = {fail1[j] for j in cls1["plain"]}
    bad_items = {fail1[j] for j in cls1["items"]}
    for i in res["holds"]:
        ci, gi = progs[i]
        if i in bad_plain:
            sig, what = ("C10/tree-differs-from-yielded-paths",
                         "a program of plain rows does not parse to the tree of its yielded paths")
        elif i in bad_items:
            sig, what = ("C10/outcome-differs-from-offside-reference-of-emitted-rows",
                         "the outcome of _run_partial_generator(use_acl=False) is not the offside reference over the "
                         "program's (column, row) list / the generator error the program's values call for")
        else:
            sig, what = ("C10/tree-differs-from-general-yielded-paths",
                         "a program inside the widened guard (vanishing rows and headers, self-indented rows, indent=0) "
                         "does not parse to tree_of'")
        ctx.add_violation(core.Violation(
            signature=sig, what=what,
            replay={"case": runner_case({"gens": [allc[ci]["gens"][gi]], "vendor": allc[ci].get("vendor", VENDOR)}),
                    "impl": outs[ci]["gens"][gi]["noacl"]}))
    if not res["holds"]:
        for i in res["agree"][:1]:
            ci, gi = progs[i]
            ctx.add_violation(core.Violation(
                signature="C10/model-impl-disagree-emit",
                what="Coq model run_noacl_vendor and _run_partial_generator(use_acl=False) differ (correspondence broken)",
                replay={"correspondence": "Model.GenProgV.run_noacl_vendor vs annet.generators._run_partial_generator",
                        "case": runner_case({"gens": [allc[ci]["gens"][gi]], "vendor": allc[ci].get("vendor", VENDOR)}),
                        "impl": outs[ci]["gens"][gi]["noacl"]},
                no_input=True))
    # plain programs (wf_prog) whose tree differs only because the vendor's split touched a row: by design for the
    # whitespace / policy-end filters; for Cisco address-family blocks it is a generator error (known finding)
    touched = sorted(set(res["plain_any"]) - set(res["holds"]))
    tcls = run_case_files(ID, TY1, IMPORTS, {
        "af": "fun c => negb (existsb (fun cr : crow => startswith \"address-family\" (strip (snd cr))) "
              "(prog_rows (snd (fst c))))",
    }, [terms[i] for i in touched], per_file=40, tag="tree_touched") if touched else {"af": []}
    has_af = {touched[j] for j in tcls["af"]}
    st["n_touched"] = len(touched)
    st["n_cisco_af"] = 0
    for i in touched:
        ci, gi = progs[i]
        o = outs[ci]["gens"][gi]["noacl"]
        if allc[ci].get("vendor", VENDOR) == "cisco" and i in has_af and "err" in o and o["err"][0] == "parse":
            st["n_cisco_af"] += 1
            ctx.add_violation(core.Violation(
                signature="C10/cisco/address-family-block-followed-by-row-raises-parser-error",
                what="a Cisco generator program of plain rows with an address-family block followed by another row raises "
                     "GeneratorError(ParserError) instead of producing the tree of its yielded paths",
                replay={"case": runner_case({"gens": [allc[ci]["gens"][gi]], "vendor": "cisco"}), "impl": o}))
    st["tree"] = res
    st["n_prog"] = len(terms)
    st["n_wf"] = len(res["wf"])           # run_case_files returns the indices where a predicate is FALSE: negb wf_prog false
    st["n_wfx"] = len(res["wfx"])
    st["n_neutral"] = len(res["neutral"])
    st["n_wfx_neutral"] = len(res["wfx_neutral"])
    st["t_tree"] = round(time.time() - t0, 1)
    vt = {}
    for (ci, gi) in progs:
        v = allc[ci].get("vendor", VENDOR)
        vt[v] = vt.get(v, 0) + 1
    st["tree_vendor_histogram"] = vt

    # ---- stage 2: config_tree() = union of the per-generator configs (the implementation's own)
    uterms, uidx = [], []
    for ci, (c, o) in enumerate(zip(allc[:n_acl_cases], outs)):
        if "ok" in o["union_noacl"] and all("ok" in g["noacl"] for g in o["gens"]):
            uidx.append(ci)
            uterms.append(cpair(clist(cforest(g["noacl"]["ok"]) for g in o["gens"]), cforest(o["union_noacl"]["ok"])))
    ures = run_case_files(ID, "list forest * forest", IMPORTS, {
        "agree": "fun c => forest_eqb (union_all (fst c)) (snd c)",
        "holds": "fun c => P_C10_union (fst c) (snd c)",
    }, uterms, per_file=300, tag="union")
    for i in ures["holds"]:
        ci = uidx[i]
        ctx.add_violation(core.Violation(
            signature="C10/config-tree-is-not-the-union",
            what="RunGeneratorResult.config_tree() differs from the first-seen-order union of the generators' configs",
            replay={"case": runner_case(allc[ci]), "impl": outs[ci]["union_noacl"]}))
    if not ures["holds"]:
        for i in ures["agree"][:1]:
            ci = uidx[i]
            ctx.add_violation(core.Violation(
                signature="C10/model-impl-disagree-union",
                what="Coq model union_all and RunGeneratorResult.config_tree() differ (correspondence broken)",
                replay={"correspondence": "Model.GenProg.union_all vs RunGeneratorResult.config_tree",
                        "case": runner_case(allc[ci]), "impl": outs[ci]["union_noacl"]}, no_input=True))
    st["union"] = ures
    st["n_union"] = len(uterms)

    # ---- stage 3: every generator under its own ACL (fatal mode)
    gidx, gterms = [], []
    for ci, (c, o) in enumerate(zip(allc[:n_acl_cases], outs)):
        for gi, (g, go) in enumerate(zip(c["gens"], o["gens"])):
            if is_other(go["acl"]):
                unexpected({"gens": [g]}, go["acl"], "_run_partial_generator(use_acl=True)")
                continue
            gidx.append((ci, gi))
            gterms.append(cpair(cpair(V(c), c_gen(g)), c_gres(go["acl"])))
    gres = run_case_files(ID, "(avendor * gen) * gres", IMPORTS, {
        "agree": "fun c => gres_eqb (run_gen (fst (fst c)) (snd (fst c))) (snd c)",
        "holds": "fun c => P_C10_confined (fst (fst c)) (snd (fst c)) (snd c)",
    }, gterms, per_file=spread(len(gterms), 40), tag="confined")
    # classify the failures only (a second, small run): is a refused line involved, or only discarded ones?
    fail = sorted(gres["holds"])
    cls = run_case_files(ID, "(avendor * gen) * gres", IMPORTS, {
        "refused": "fun c => only_dropped (fst (fst c)) (snd (fst c))",
    }, [gterms[i] for i in fail], per_file=40, tag="confined_cls") if fail else {"refused": []}
    refused = {fail[j] for j in cls["refused"]}
    for i in gres["holds"]:
        ci, gi = gidx[i]
        g = allc[ci]["gens"][gi]
        if i not in refused:
            sig = "C10/line-silently-dropped-by-reverse-cant-delete-rule"
            what = ("a yielded line matched only by the reverse form of a cant_delete rule of the generator's own ACL "
                    "is silently dropped by _run_partial_generator instead of raising GeneratorError")
        else:
            sig = "C10/generator-not-confined-to-its-acl"
            what = ("_run_partial_generator(use_acl=True) neither returned the full tree of a covered program nor "
                    "raised GeneratorError naming an uncovered yielded line")
        ctx.add_violation(core.Violation(signature=sig, what=what,
                                         replay={"case": runner_case({"gens": [g]}), "impl": outs[ci]["gens"][gi]["acl"]}))
    if not gres["holds"]:
        for i in gres["agree"][:1]:
            ci, gi = gidx[i]
            ctx.add_violation(core.Violation(
                signature="C10/model-impl-disagree-confined",
                what="Coq model run_gen and _run_partial_generator(use_acl=True) differ (correspondence broken)",
                replay={"correspondence": "Model.GenAcl.run_gen vs annet.generators._run_partial_generator",
                        "case": runner_case({"gens": [allc[ci]["gens"][gi]]}), "impl": outs[ci]["gens"][gi]["acl"]},
                no_input=True))
    st["confined"] = gres
    st["n_confined"] = len(gterms)

    # ---- stage 4: _old_new_per_device: merged tagged ACL, exclusive mode
    oidx, oterms = [], []
    for ci, (c, o) in enumerate(zip(allc[:n_acl_cases], outs)):
        if is_other(o["old_new"]) or any(is_other(g["acl"]) for g in o["gens"]):
            if is_other(o["old_new"]):
                unexpected(c, o["old_new"], "_old_new_per_device")
            continue
        oidx.append(ci)
        oterms.append(cpair(cpair(V(c), cpair(clist(c_gen(g) for g in c["gens"]), clist(c_gres(g["acl"]) for g in o["gens"]))),
                            c_ores(o["old_new"])))
    ores = run_case_files(ID, "(avendor * (list gen * list gres)) * ores", IMPORTS, {
        "agree": "fun c => ores_eqb (old_new (fst (fst c)) (fst (snd (fst c)))) (snd c)",
        "holds": "fun c => P_C10_old_new (fst (fst c)) (fst (snd (fst c))) (snd (snd (fst c))) (snd c)",
    }, oterms, per_file=spread(len(oterms), 25), tag="oldnew")
    ofail = sorted(ores["holds"])
    ocls = run_case_files(ID, "(avendor * (list gen * list gres)) * ores", IMPORTS, {
        "loses": "fun c => negb (match all_ok (snd (snd (fst c))) with Some fs => "
                 "merged_acl_loses (fst (fst c)) (fst (snd (fst c))) fs | None => false end)",
        "discards": "fun c => negb (match all_ok (snd (snd (fst c))) with Some fs => "
                    "merged_acl_discards (fst (fst c)) (fst (snd (fst c))) fs | None => false end)",
    }, [oterms[i] for i in ofail], per_file=25, tag="oldnew_cls") if ofail else {"loses": [], "discards": []}
    loses = {ofail[j] for j in ocls["loses"]}
    discards = {ofail[j] for j in ocls["discards"]}
    for i in ores["holds"]:
        ci = oidx[i]
        if i in discards:
            sig = "C10/merged-acl-discards-line-through-reverse-cant-delete-rule-of-other-generator"
            what = ("a line that passed its generator's own ACL is discarded by the merged generator-tagged ACL (the "
                    "reverse form of another generator's cant_delete rule governs it), so OldNewResult.new is smaller "
                    "than the union of the generators' outputs")
        elif i in loses:
            sig = "C10/merged-acl-does-not-match-line-passed-by-own-acl"
            what = ("a line that passed its generator's own ACL is matched by no rule in force of the merged "
                    "generator-tagged ACL, so OldNewResult.new is smaller than the union of the generators' outputs")
        else:
            sig = "C10/exclusivity-or-union-violated"
            what = ("_old_new_per_device neither reported the two-generator conflict on a deletable line nor returned "
                    "the union of the generators' outputs")
        ctx.add_violation(core.Violation(signature=sig, what=what,
                                         replay={"case": runner_case(allc[ci]), "impl": outs[ci]["old_new"]}))
    if not ores["holds"]:
        for i in ores["agree"][:1]:
            ci = oidx[i]
            ctx.add_violation(core.Violation(
                signature="C10/model-impl-disagree-old-new",
                what="Coq model old_new and annet.gen._old_new_per_device differ (correspondence broken)",
                replay={"correspondence": "Model.GenAcl.old_new vs annet.gen._old_new_per_device",
                        "case": runner_case(allc[ci]), "impl": outs[ci]["old_new"]}, no_input=True))
    st["oldnew"] = ores
    st["n_oldnew"] = len(oterms)
    return allc, outs, st


def run(ctx):
    core.proof_stage(ctx, THEOREM_FILE)
    cases = gen_cases(ctx)
    free = gen_free_progs(ctx)
    allc, outs, st = correspond(ctx, cases, free)
    seen, nontrivial = set(), 0
    hist, kinds, depths, fams, ohist, vend = {}, {}, {}, {}, {}, {}
    for c, o in zip(allc, outs):
        fams[c["family"]] = fams.get(c["family"], 0) + 1
        vend[c.get("vendor", VENDOR)] = vend.get(c.get("vendor", VENDOR), 0) + 1
        if not c["family"].startswith("noacl"):
            k = "ok" if "ok" in o["old_new"] else o["old_new"]["err"][0]
            ohist[k] = ohist.get(k, 0) + 1
        for g, go in zip(c["gens"], o["gens"]):
            r = go["acl"] if not c["family"].startswith("noacl") else go["noacl"]
            k = "ok" if "ok" in r else r["err"][0]
            hist[k] = hist.get(k, 0) + 1
            kinds_of(g["prog"], kinds)
            d = depth_of(g["prog"])
            depths[d] = depths.get(d, 0) + 1
            h = core.canon_hash([g["prog"], g.get("acl", "")])
            if h in seen:
                continue
            seen.add(h)
            if d >= 1 and n_yields(g["prog"]) >= 3:
                nontrivial += 1
    n_eval = st["n_prog"] + st["n_union"] + st["n_confined"] + st["n_oldnew"]
    ctx.coverage.update({
        "evaluations": n_eval,
        "distinct_nontrivial": nontrivial,
        "rule": "distinct (program, ACL text) pairs by canonical hash; non-trivial = at least one block context and at "
                "least three yields",
        "samples": [{"input": runner_case(c), "impl": o} for c, o in list(zip(allc, outs))[:2]],
        "traces_validated_against_impl": n_eval,
        "disagreements_checked": sum(len(st[k]["agree"]) for k in ("tree", "union", "confined", "oldnew")),
        "stage_sizes": {k: st[k] for k in ("n_prog", "n_union", "n_confined", "n_oldnew")},
        "generator_outcome_histogram": hist,
        "old_new_outcome_histogram": ohist,
        "case_families": fams,
        "vendor_histogram": vend,
        "statement_kinds": kinds,
        "depth_histogram": depths,
        "programs_in_theorem_domain(wf_prog)": st["n_wf"],
        "programs_in_general_theorem_domain(wfx_prog)": st["n_wfx"],
        "programs_the_vendor_split_leaves_alone(split_neutral)": st["n_neutral"],
        "programs_in_wfx_prog_and_split_neutral": st["n_wfx_neutral"],
        "plain_programs_whose_tree_the_vendor_split_changes(by design, except cisco address-family)": st["n_touched"],
        "cisco_address_family_generator_errors(known finding)": st["n_cisco_af"],
        "emit_parse_stage_vendor_histogram": st["tree_vendor_histogram"],
        "emit_parse_stage_seconds": st["t_tree"],
        "exhaustive": False,
    })
    ctx.assumptions += [
        "emit/parse stage: devices of the ten plain-family vendors, the model runs the vendor's own split kind "
        "(Model/GenProgV.v over Model/Join.v, vendor table regenerated from the source); ACL stages: optixtrans "
        "(CommonFormatter.split, reverse 'undo'), huawei ('undo') and arista ('no') with rows on which their splits are "
        "the identity (no interior double blanks, no policy-end keywords); str.strip/split modelled for printable "
        "ASCII + \\n \\t; re.sub of split_remove_spaces modelled as collapse_spaces",
        "textwrap.dedent modelled after CPython 3.12",
        "ACL matching is the shared model Model/Acl.v + Model/Pattern.v (plain rule language); ACL texts are "
        "printed from structured ACLs (harness/aclgen.py)",
        "generator class names are distinct (partial_results is keyed by class name)",
    ]


def replay(ctx, doc):
    c = doc["replay"]["case"]
    ctx2 = core.Ctx(prop=ID, tier="quick", seed=0)
    _, outs, _ = correspond(ctx2, [c])
    print("impl:", outs[0])
    for v in ctx2.violations:
        print("violation:", v.signature, "-", v.what)
    return 1 if ctx2.violations else 0
