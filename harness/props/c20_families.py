"""C20 — targeted job-sequence families (added to the random sequences of harness/props/c20.py).

Each family is a GENERAL situation a long-lived worker meets, built from what the repository ships
(rulebook templates, devdb.json, the vendor registry, the before/after corpus), never from an expected output.
Every job of every sequence is compared with the same job in a fresh process by P_C20 (Coq), as before.

 spelling   two devices whose model strings differ only in case / spacing (inventories are not consistent),
            for every hardware flag the shipped templates branch on (`%if hw.Huawei.CE`, `hw.Cisco.ASR` ...):
            a model string having the flag and its re-spellings that still resolve to the same vendor; the
            configs instantiate the rules INSIDE the `%if hw...` blocks of that vendor's template, so the jobs'
            results depend on which rendering of the rulebook they get; both orders
 acl        the byte-identical ACL text used by two vendors with the same reverse prefix
            (juniper/ribbon/nokia, huawei/h3c/optixtrans, cisco/arista/nexus/...): A, B, A again, configs with
            `inactive:` rows on the path of a change (Juniper's deactivated statements), ACL covering them
 refs       jobs with a NON-EMPTY RefTracker (generators referring to each other) followed by jobs without,
            on shipped rulebooks and on synthetic ones; the same job repeated
 raise      jobs whose patch generation RAISES half-way (two added rows for one rule key, as a pool worker sees
            a broken device), with references, followed by healthy jobs on the same rulebook
"""
from __future__ import annotations

import re
from pathlib import Path

from .. import core

SAFE_ROW = re.compile(r"^[A-Za-z0-9 _./:-]+$")


# ------------------------------------------------------------------ rules inside `%if hw...` blocks

def _indent(line: str) -> int:
    return len(line) - len(line.lstrip(" "))


def _pattern_of(rule_line: str) -> str | None:
    """the row pattern of a rule line (options stripped); None for lines this generator does not instantiate"""
    s = rule_line.strip()
    if not s or s.startswith("#") or s.startswith("!") or s.startswith("%"):
        return None
    s = re.split(r"\s+%", s, maxsplit=1)[0].strip()
    if "/" in s or "(" in s or "[" in s or "|" in s or "\\" in s or not s:
        return None
    return s


def _instantiate(pat: str, tag: str) -> str:
    out = []
    for i, w in enumerate(pat.split()):
        if w == "*":
            out.append(f"v{i}")
        elif w == "~":
            out.append(f"w{i} {tag}")
        else:
            out.append(w)
    return " ".join(out)


def branch_rules(repo: Path) -> dict:
    """{template file stem: {"flags": [hw attribute paths tested], "rows": [(parent patterns..., pattern)]}}
    for every rule line inside a `%if/%elif/%else` block of a shipped *.rul template"""
    res = {}
    for f in sorted((repo / "annet" / "rulebook" / "texts").glob("*.rul")):
        flags, rows = [], []
        depth_if = 0
        stack: list[tuple[int, str]] = []          # (indent, pattern) of enclosing rule lines
        for line in f.read_text().splitlines():
            st = line.strip()
            if st.startswith("%if") or st.startswith("%elif"):
                depth_if += st.startswith("%if")
                flags += re.findall(r"hw\.([A-Za-z0-9_.]+)", st)
                continue
            if st.startswith("%else"):
                continue
            if st.startswith("%endif"):
                depth_if = max(0, depth_if - 1)
                continue
            pat = _pattern_of(line)
            if pat is None:
                continue
            ind = _indent(line)
            while stack and stack[-1][0] >= ind:
                stack.pop()
            if depth_if:
                rows.append((tuple(p for _, p in stack) + (pat,), bool(re.search(r"%(diff_|apply_)?logic=", line))))
            stack.append((ind, pat))
        if rows:
            res[f.stem] = {"flags": sorted(set(flags)), "rows": rows}      # rows: [(path of patterns, has custom logic)]
    return res


def _stem(path) -> tuple:
    return tuple(" ".join(w for w in p.split() if w not in ("*", "~")) for p in path)


def branch_configs(rows) -> list[tuple[dict, dict]]:
    """old/new trees that touch the rules found inside the `%if hw...` blocks: for a rule pattern p the row
    `p-instantiated e1` in old and `p-instantiated e2` in new (so the outcome depends on whether the rule in
    force is `p`, `p *` or `p ~`), nested under instantiated parent rules.  Rules whose fixed words are a prefix
    of one another (`trust` / `trust *`, the two arms of a branch) go to different configs, a rule with a custom
    logic gets a config of its own (its logic may reject the synthetic row without hiding the other rules)."""
    groups: list[list] = []
    for path, has_logic in rows:
        st = _stem(path)
        placed = False
        if not has_logic:
            for g in groups:
                if g[0][1]:
                    continue
                clash = any(len(st) == len(_stem(q)) and st[:-1] == _stem(q)[:-1] and
                            (st[-1].startswith(_stem(q)[-1]) or _stem(q)[-1].startswith(st[-1])) for q, _ in g)
                if not clash:
                    g.append((path, has_logic))
                    placed = True
                    break
        if not placed:
            groups.append([(path, has_logic)])
    out = []
    for g in groups:
        old, new = {}, {}
        for path, _ in g:
            for tree, tag in ((old, "e1"), (new, "e2")):
                cur = tree
                for pat in path[:-1]:
                    cur = cur.setdefault(_instantiate(pat, "p"), {})
                cur.setdefault(_instantiate(path[-1], "p") + " " + tag, {})
        out.append((old, new))
    return out


def flag_models(repo: Path, flags: list[str]) -> list[str]:
    """a model string having each hardware flag (database sequence ending with the tested attribute path)"""
    from ..translators import tr_devdb
    from .c18 import synth_models
    entries, _ = tr_devdb.read_devdb(repo)
    rx_of = {seq: rx for seq, rx in entries}
    out = []
    for fl in flags:
        parts = tuple(fl.split("."))
        for seq, _ in entries:
            if seq[-len(parts):] == parts and all(seq[:i] in rx_of for i in range(1, len(seq) + 1)):
                try:
                    ms = synth_models([rx_of[seq[:i]] for i in range(1, len(seq) + 1)], 1)
                except (re.error, core.CheckFailure):
                    ms = []
                out += ms[:1]
                break
    return out


def respellings(m: str) -> list[str]:
    c = [m.lower(), m.upper(), m.swapcase(), m.replace(" ", "  "), m.replace(" ", "\t"), m + " ", m.title()]
    seen, out = {m}, []
    for x in c:
        if x not in seen:
            seen.add(x)
            out.append(x)
    return out


# ------------------------------------------------------------------ helpers on trees

def diff_paths(old: dict, new: dict) -> list[str]:
    """top-level rows on the path of a change (present on one side only, or with differing subtrees)"""
    out = []
    for k in list(dict.fromkeys(list(old) + list(new))):
        if k not in old or k not in new or old[k] != new[k]:
            out.append(k)
    return out


def rename_rows(tree: dict, ren: dict) -> dict:
    return {ren.get(k, k): v for k, v in tree.items()}


def acl_from_trees(trees, depth=0, max_depth=3) -> str:
    """an ACL text that covers the given configs: per row `first-word ~` (or the word itself), children rules
    from the union of the rows' children; rows with characters special to the rule language are left out"""
    merged: dict = {}
    for t in trees:
        for row, kids in t.items():
            row = row[len("inactive: "):] if row.startswith("inactive: ") else row
            if not SAFE_ROW.match(row):
                continue
            ws = row.split()
            pat = ws[0] + (" ~" if len(ws) > 1 else "")
            merged.setdefault(pat, []).append(kids or {})
    lines = []
    for pat, kids in merged.items():
        lines.append("    " * depth + pat)
        if any(kids) and depth < max_depth:
            sub = acl_from_trees(kids, depth + 1, max_depth)
            lines.append(sub if sub else "    " * (depth + 1) + "~")
        elif any(kids):
            lines.append("    " * (depth + 1) + "~")
    return "\n".join(l for l in lines if l)


def duplicate_added_rows(rng, old: dict, new: dict, p=0.6) -> dict:
    """`new` with, next to some rows that `old` lacks, a second row differing in the last word only: two added
    rows for one rule key whenever the rule's key leaves that word out (a device with a broken template)"""
    out = {}
    done = False
    for k, v in new.items():
        out[k] = duplicate_added_rows(rng, old.get(k) or {}, v, p) if v else v
        if k not in old and len(k.split()) >= 2 and (rng.random() < p or not done):
            out[k + "x"] = {}
            done = True
    return out


def halves(tree: dict) -> list:
    rows = list(tree.items())
    if not rows:
        return []
    h = max(1, len(rows) // 2)
    return [[dict(rows[:h]), dict(rows[h:] or rows[:h])]]


# ------------------------------------------------------------------ the families

def build(ctx, rng, corpus, gen_rulebook, gen_synth_job):
    """-> (sequences, info).  Jobs are plain dicts as in c20.gen_*_job; jobs with `refs` or on a re-spelt model are
    not described by the Coq store model (no "rb" key): they are judged by P_C20 only."""
    repo = Path(core.REPO)
    thorough = ctx.thorough
    br = branch_rules(repo)
    flags = sorted({f for v in br.values() for f in v["flags"]})
    fmodels = flag_models(repo, flags)
    base_models = sorted(set(fmodels) | {s["hw"] for s in corpus})
    cand = sorted({r for m in base_models for r in respellings(m)} | set(base_models))
    probe = core.run_impl("c20_runner.py", {"mode": "probe", "models": cand}, timeout=300)
    if not isinstance(probe, dict) or "vendors" not in probe:
        raise core.CheckFailure("c20 probe failed: " + str(probe)[:400])
    vend_of = probe["models"]
    canonical = probe["canonical"]
    base_models += [m for m in canonical.values() if m not in base_models]
    ids = [0]
    info = {"hw_flags_in_templates": flags, "flag_models": fmodels, "templates_with_hw_branches": sorted(br)}

    def job(hw, vendor, old, new, name, acl=None, refs=None, add_comments=False):
        ids[0] += 1
        return {"kind": "shipped", "vendor": vendor, "hw": hw, "name": name, "acl": acl, "facl": None, "old": old, "new": new,
                "old_id": f"f{ids[0]}a", "new_id": f"f{ids[0]}b", "add_comments": add_comments, "refs": refs}

    by_vendor: dict = {}
    for s in corpus:
        by_vendor.setdefault(s["vendor"], []).append(s)

    seqs = {"spelling": [], "acl": [], "refs": [], "raise": []}

    # --- spelling
    n_pairs = 0
    for m in base_models:
        v = vend_of.get(m)
        if v is None:
            continue
        cfgs = []
        if v in br:
            cfgs += [(o, n, f"branch-rules-{k}") for k, (o, n) in enumerate(branch_configs(br[v]["rows"]))]
        smp = [s for s in by_vendor.get(v, [])]
        if smp and (thorough or not cfgs):
            s = rng.choice(smp)
            cfgs.append((s["old"], s["new"], s["name"]))
        if not cfgs:
            continue
        alts = [r for r in respellings(m) if vend_of.get(r) == v]
        if not thorough:
            alts = alts[:2]
        for r in alts:
            for old, new, name in cfgs:
                n_pairs += 1
                a, b = job(m, v, old, new, name), job(r, v, old, new, name)
                seqs["spelling"].append([a, b])
                seqs["spelling"].append([dict(b), dict(a)])
    info["spelling_pairs"] = n_pairs

    # --- acl shared by vendors with one reverse prefix
    groups: dict = {}
    for v, rev in probe["vendors"].items():
        groups.setdefault(rev, []).append(v)
    info["reverse_prefix_groups"] = {k: sorted(v) for k, v in groups.items() if len(v) > 1}

    def cfg_for(v, k):
        smp = by_vendor.get(v, [])
        if smp:
            s = smp[k % len(smp)]
            return s["old"], s["new"], s["name"]
        return {"system": {"name a": {}}, "policy P": {"term 1": {}}}, {"system": {"name b": {}}, "policy P": {"term 2": {}}}, "generic"

    def deactivate(old, new):
        rows = diff_paths(old, new) or list(new)[:1]
        pick = [r for r in rows if rng.random() < 0.7] or rows[:1]
        ren = {r: "inactive: " + r for r in pick if not r.startswith("inactive: ")}
        return rename_rows(old, ren), rename_rows(new, ren)

    per_pair = 6 if thorough else 3
    for rev, vs in sorted(groups.items()):
        for v1 in sorted(vs):
            partners = [v for v in sorted(vs) if v != v1 and v in canonical]
            if not thorough and len(partners) > 2:      # quick tier: two partners per vendor, all of them in the thorough tier
                partners = sorted(rng.sample(partners, 2))
            for v2 in partners:
                if v1 not in canonical:
                    continue
                for k in range(per_pair):
                    o1, n1, name1 = cfg_for(v1, rng.randrange(1000))
                    o2, n2, name2 = cfg_for(v2, rng.randrange(1000))
                    if k != 1:                         # k == 1: the configs as shipped
                        o1, n1 = deactivate(o1, n1)
                    acl = acl_from_trees([o1, n1, o2, n2] if k % 2 == 0 else [o1, n1])
                    if not acl:
                        continue
                    hw1 = by_vendor[v1][0]["hw"] if v1 in by_vendor else canonical[v1]
                    hw2 = by_vendor[v2][0]["hw"] if v2 in by_vendor else canonical[v2]
                    a = job(hw1, v1, o1, n1, name1, acl=acl)
                    b = job(hw2, v2, o2, n2, name2, acl=acl)
                    seqs["acl"].append([a, b, dict(a)])

    # --- references, and jobs that raise half-way (shipped rulebooks)
    smp_all = list(corpus)
    rng.shuffle(smp_all)
    n_ref = len(smp_all) if thorough else min(len(smp_all), 24)
    for s in smp_all[:n_ref]:
        same = by_vendor[s["vendor"]]
        t = rng.choice(same)
        refs = halves(s["new"]) or halves(s["old"])
        a = job(s["hw"], s["vendor"], s["old"], s["new"], s["name"], refs=refs)
        b = job(t["hw"], t["vendor"], t["old"], t["new"], t["name"])
        seqs["refs"].append([a, b, dict(a), dict(b)])
        broken = duplicate_added_rows(rng, s["old"], s["new"])
        c = job(s["hw"], s["vendor"], s["old"], broken, s["name"] + "+dup", refs=halves(broken))
        seqs["raise"].append([dict(b), c, dict(b), dict(a)])

    # --- the same on synthetic rulebooks (lru-cached compile_*_text objects shared by the jobs)
    n_syn = 200 if thorough else 36
    for _ in range(n_syn):
        rb = gen_rulebook(rng)
        sids = [0]
        js = [gen_synth_job(rng, rb, sids) for _ in range(3)]
        for j in js:
            j.pop("rb", None)                      # references are not in the store model: judged by P_C20 only
            j["old_id"], j["new_id"] = "y" + j["old_id"], "y" + j["new_id"]
        k = js[0]
        k["refs"] = halves(k["new"]) or halves(k["old"])
        broken = dict(js[1], new=duplicate_added_rows(rng, js[1]["old"], js[1]["new"]), new_id=js[1]["new_id"] + "d")
        broken["refs"] = halves(broken["new"])
        seqs["refs"].append([k, js[2], dict(k)])
        seqs["raise"].append([dict(js[2]), broken, dict(js[2]), dict(k)])
    info["sequences"] = {k: len(v) for k, v in seqs.items()}
    out = []
    for fam, ss in seqs.items():
        for s in ss:
            for j in s:
                j["family"] = fam
            out.append(s)
    return out, info
