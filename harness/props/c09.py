"""C09 — the command stream sent at deploy is exactly the patch that was shown (DESIGN §3.C09)."""
from __future__ import annotations

import re

from .. import core, pipeline as P
from ..core import cstr, clist, cpair, cnat, cbool, copt

ID = "C09"
THEOREM_FILE = "Properties/C09.v"
META = {
    "text": "Proof (Coq, all inputs of the model). Formatter side: for every well-bracketed block stream the displayed "
            "(indent, row) lines equal (|path|-1, last path) of the path stack, and with no repeated path the ordered dict of "
            "cmd_paths loses nothing (C09_stream, C09_stream_raw); every formatter family yields a well-bracketed stream for "
            "every patch tree (C09_stream_any_family); distinct rows at every displayed level, exit statements included, imply "
            "distinct paths (C09_paths_nodup), hence shown == sent for every block-structured family and every patch tree of "
            "the domain (C09_shown_is_sent); with equal siblings two shown lines collapse into one sent command "
            "(C09_dup_refuted, C09_dup_exit_refuted); the displayed patch is the tree with the vendor's exit statement after "
            "each block, at most one per block (C09_exit_after_each_block, C09_exit_count); cmd_paths with contexts has the same "
            "keys (C09_paths_with_contexts). Deploy side, for any rule matcher / rulebook / apply-logic table: "
            "apply_deploy_rulebook = wrapper-before ++ one Command per path in order with level |path|-1 ++ wrapper-after when the "
            "matched rules share one apply logic, a groupby of maximal runs in general (C09_deploy_body, C09_deploy_groups, "
            "C09_deploy_group_shape); over the decision table regenerated from common.apply on every run and for every "
            "hardware-flag assignment: only session commands, enter before / commit, leave, save after, no commit-class command "
            "when do_commit is false, no save-class command when do_finalize is false (C09_wrapper, C09_no_commit, "
            "C09_wrapper_ap_env); match_deploy_rule returns the rule of the unique chain (unmatched header rows skipped) whenever "
            "every header row of the path is matched by at most one sibling rule, in particular for disjoint sibling languages, "
            "and the command carries that rule's timeout/dialogs or (30 s, none); it is refused exactly when the rule has a "
            "%send_nl=0 dialog (C09_match_rule, C09_match_rule_disjoint, C09_cmd_params, C09_cmd_refused; with overlapping "
            "siblings the code descends into the last match: C09_first_match_refuted); the predicate P_C09 is satisfied by the "
            "model's own outputs (C09_model_formatter, C09_model_stream). Correspondence (testing): Coq compares the model with "
            "formatter.patch, formatter.cmd_paths (with contexts) and annet.deploy.apply_deploy_rulebook on the shipped "
            "test_patch corpus, PatchTrees from the real _diff_and_patch on random rulebooks, synthetic ones (depth<=4, empty child "
            "trees, vendor block headers and near misses, contexts), all block-structured vendors x {0,1}^2, random and shipped "
            "deploy rulebooks, and evaluates P_C09 on the real outputs.",
    "technique": "Coq induction over block streams / patch trees / rule chains, finite vm_compute proof over the regenerated "
                 "apply() table; vm_compute differential check on real outputs",
    "note": "Theorems are about the model; the tie to the code is the regenerated Gen/Src_apply.v table and the correspondence "
            "run (testing). Open known finding: a deploy rule with a %send_nl=0 dialog (shipped cisco/nexus `no username ...`) "
            "makes apply_deploy_rulebook raise. Not modelled: RouterOS/Juniper/Nokia flattening (not block structured), the "
            "regular expressions of /.../ dialog questions, `ignore:` messages; rule patterns restricted to the plain rule "
            "language of Model/Pattern.v (5 shipped huawei rules with (a|b) groups are reported as unmodelled). Patches with "
            "equal sibling rows are outside the property's domain (11 shipped corpus samples, listed in the evidence). "
            "C09_model_stream covers the single-apply-logic case; several apply logics in one patch are covered by "
            "C09_deploy_groups and a weaker predicate clause.",
}
IMPORTS = ("From Annet Require Import Base.Str Model.Pattern Model.Order Model.Patch Model.Blocks Gen.Src_apply "
           "Model.Deploy Spec.P_C09.")
TY = "obs09"

BLOCK_VENDORS = ["huawei", "h3c", "optixtrans", "cisco", "nexus", "iosxr", "arista", "aruba", "b4com", "pc"]
COMBOS = [[0, 0], [0, 1], [1, 0], [1, 1]]
CTXS = [{}, {}, {}, {}, {"block": "ap-env"}, {"kind": "x"}, {"block": "b2", "kind": "x"}]
WORDS = P.LIT + ["undo", "no", "enable", "server"]
SPECIAL = {
    "FHuawei": ["xpl route-filter RF", "xpl ip-prefix-list PL", "if x then", "elseif y then", "else", "rsa peer-public-key k1",
                "public-key-code begin", "bgp 1", "endif", "quit",
                # near misses of the block_exit conditions
                "xplain x", "xpl", "rsa peer-public-keys", "dsa peer-public-key k", "public-key-code end", "iffy then"],
    "FCisco": ["address-family ipv4", "address-family ipv6 unicast", "router bgp 1", "exit-address-family", "exit",
               "address-familyX", "address family ipv4", "no address-family ipv4"],
    "FAsr": ["prefix-set PS", "as-path-set AS", "community-set CS", "if x then", "route-policy RP", "router bgp 1", "endif",
             "end-policy", "exit",
             "iffy then", "ifx y then", "if x thenx", "if then", "route-policyX", "prefix-sets", "extcommunity-set rt X",
             "no route-policy RP"],
    "FBlockExit": ["interface Eth1", "exit", "router bgp 1"],
    "FCommon": ["interface Eth1", "exit"],
}
QUESTIONS = ["Continue? [Y/N]:", "/.*sure\\?/", "Are you sure", "Destination filename [startup-config]?", "/Warning: .* Continue/", "/"]
ANSWERS = ["Y", "N", "yes", "startup-config"]
TIMEOUTS_MS = [1000, 5000, 60000, 120000, 2500, 600000]
APPLY_NAMES = {0: "common.apply", 1: "aruba.ap_env.apply"}


def fam_key(vendor: str) -> str:
    fam = P.VENDORS[vendor][2]
    return "FBlockExit" if "FBlockExit" in fam else fam


# ------------------------------------------------------------------ atoms of the generated table

def table_atoms() -> tuple[list[str], list[str]]:
    txt = (core.COQ / "Gen" / "Src_apply.v").read_text()
    hw = sorted(set(re.findall(r'\(BHw "([^"]*)"\)', txt)))
    opq = sorted(set(s.replace('""', '"') for s in re.findall(r'\(BOpaque "((?:[^"]|"")*)"\)', txt)))
    return hw, opq


# ------------------------------------------------------------------ deploy rulebooks

def gen_dpat(rng, used_first: set, overlap_ok: bool) -> str:
    for _ in range(30):
        first = rng.choice(WORDS)
        if first in used_first and not (overlap_ok and rng.random() < 0.5):
            continue
        toks = [first]
        for _ in range(rng.choice([0, 1, 1, 2])):
            toks.append(rng.choice(WORDS + ["*", "*", "*"]))
        if rng.random() < 0.12:
            toks.append("~")
        used_first.add(first)
        return " ".join(toks)
    return rng.choice(WORDS) + " zz" + str(len(used_first))


def gen_drules(rng, depth=0, base_pats=None, overlap=0.15) -> list[dict]:
    out, used_first, used = [], set(), set()
    n = rng.choice([0, 1, 2, 3, 4, 5]) if depth == 0 else rng.choice([1, 1, 2, 3])
    overlap_ok = rng.random() < overlap
    for _ in range(n):
        if base_pats and rng.random() < 0.6:
            pat = rng.choice(base_pats)
            if rng.random() < 0.3:
                pat = rng.choice(["undo ", "no "]) + pat
        else:
            pat = gen_dpat(rng, used_first, overlap_ok)
        if pat in used:
            continue
        used.add(pat)
        r = {"pat": pat, "timeout_ms": rng.choice(TIMEOUTS_MS) if rng.random() < 0.4 else None, "dialogs": [],
             "ifctx": [], "apply": 0, "kids": []}
        qs = rng.sample(QUESTIONS, rng.choice([0, 0, 1, 1, 2]))
        for q in qs:
            r["dialogs"].append({"q": q, "a": rng.choice(ANSWERS), "nl": rng.random() >= 0.03})
        x = rng.random()
        if x < 0.07:
            r["ifctx"] = [["block", "ap-env"]]
        elif x < 0.1:
            r["ifctx"] = [["kind", "x"], ["block", "b2"]]
        if rng.random() < 0.05:
            r["apply"] = 1
        if depth < 2 and rng.random() < (0.45 if depth == 0 else 0.3):
            r["kids"] = gen_drules(rng, depth + 1, base_pats, overlap)
        out.append(r)
    if overlap_ok and rng.random() < 0.5:
        out.insert(rng.randrange(len(out) + 1), {"pat": "~", "timeout_ms": rng.choice(TIMEOUTS_MS), "dialogs": [],
                                                 "ifctx": [], "apply": 1 if rng.random() < 0.2 else 0, "kids": []})
    return out


def fmt_timeout(ms: int) -> str:
    return str(ms // 1000) if ms % 1000 == 0 else ("%g" % (ms / 1000))


def drules_text(rules: list[dict], level=0) -> str:
    lines = []
    ind = "    " * level
    for r in rules:
        s = r["pat"]
        if r["timeout_ms"] is not None:
            s += " %timeout=" + fmt_timeout(r["timeout_ms"])
        if r["ifctx"]:
            s += " %ifcontext=" + ",".join(f"{n}:{v}" for n, v in r["ifctx"])
        if r["apply"]:
            s += " %apply_logic=" + APPLY_NAMES[r["apply"]]
        lines.append(ind + s)
        for d in r["dialogs"]:
            lines.append(ind + "    dialog: " + d["q"] + " ::: " + d["a"] + ("" if d["nl"] else " %send_nl=0"))
        if r["kids"]:
            lines.append(drules_text(r["kids"], level + 1))
    return "\n".join(lines)


def coq_drule(r: dict, default_ms: int) -> str:
    t = r["timeout_ms"] if r["timeout_ms"] is not None else default_ms
    return ("(DRule " + " ".join([
        cstr(r["pat"]), f"{t}%N",
        clist(f"(Dlg {cstr(d['q'])} {cstr(d['a'])} {cbool(d['nl'])})" for d in r["dialogs"]),
        clist(cpair(cstr(n), cstr(v)) for n, v in r["ifctx"]),
        cnat(r["apply"]), clist(coq_drule(k, default_ms) for k in r["kids"])]) + ")")


def modelled_pat(p: str) -> bool:
    toks = p.split(" ")
    for i, t in enumerate(toks):
        if t == "*" or (t == "~" and i == len(toks) - 1):
            continue
        if not re.fullmatch(r"[A-Za-z0-9_./:-]+", t):
            return False
    return bool(toks) and p == p.strip()


def pat_of_id(rid: str) -> str:
    """the rule row of a compiled rule id (syntax._parse_raw_rule: cut at the first % when it carries parameters)"""
    if "%" in rid and re.findall(r"\s%([a-zA-Z_]\w*)(?:=([^\s]*))?", rid):
        rid = rid[:rid.index("%")]
    return re.sub(r"\s+", " ", rid.strip())


def rules_of_compiled(comp: list[dict], unmodelled: list) -> list[dict]:
    out = []
    for c in comp:
        pat = pat_of_id(c["id"])
        if not modelled_pat(pat):
            unmodelled.append(pat)
            continue
        if c["apply"] not in APPLY_NAMES.values():
            raise core.CheckFailure(f"unknown apply logic {c['apply']} in a shipped deploy rulebook")
        out.append({"pat": pat, "timeout_ms": int(round(c["timeout"] * 1000)),
                    "dialogs": [{"q": q, "a": a, "nl": nl} for q, a, nl in c["dialogs"]],
                    "ifctx": [v.split(":") for v in c["ifcontext"]],
                    "apply": [k for k, v in APPLY_NAMES.items() if v == c["apply"]][0],
                    "kids": rules_of_compiled(c["kids"], unmodelled)})
    return out


# ------------------------------------------------------------------ patch trees

def inst_row(rng, pat: str) -> str:
    ws = []
    for t in pat.split():
        if t == "*":
            ws.append(rng.choice(P.VAL))
        elif t == "~":
            ws.extend(rng.sample(P.VAL, rng.randint(1, 2)))
        else:
            ws.append(t)
    if not pat.endswith("~") and rng.random() < 0.3:
        ws.append(rng.choice(P.VAL))
    return " ".join(ws)


def gen_patch(rng, vendor: str, level_rules: list[dict], all_rules: list[dict], depth=0, parent="", max_depth=4,
              avoid=()) -> list[dict]:
    fam = fam_key(vendor)
    items, seen = [], set()
    n = rng.choice([1, 2, 2, 3, 4]) if depth == 0 else rng.choice([0, 1, 1, 2, 3])
    if parent.startswith("xpl route-filter"):
        cand = ["if a then", "elseif b then", "else", "apply x", "if c then"]
        rows = rng.sample(cand, rng.randint(1, 4))
        if rng.random() < 0.6:
            rows.sort(key=cand.index)
        for row in rows:
            blk = row.endswith("then") or row == "else" or rng.random() < 0.2
            items.append({"row": row, "context": dict(rng.choice(CTXS)),
                          "child": ([{"row": "apply " + rng.choice(P.VAL), "context": {}, "child": None}]
                                    if rng.random() < 0.8 else []) if blk else None})
        return items
    for _ in range(n):
        x = rng.random()
        sub_rules = level_rules
        if x < 0.45 and level_rules:
            r = rng.choice(level_rules)
            row = inst_row(rng, r["pat"]) if r["pat"] != "~" else rng.choice(WORDS) + " " + rng.choice(P.VAL)
            sub_rules = r["kids"] if rng.random() < 0.8 else level_rules
        elif x < 0.55 and all_rules:
            row = inst_row(rng, rng.choice(all_rules)["pat"].replace("~", "x"))
        elif x < 0.75:
            row = rng.choice(SPECIAL[fam])
        else:
            row = " ".join([rng.choice(WORDS)] + rng.sample(P.VAL, rng.randint(0, 2)))
        if row in seen or any(w in row.split() for w in avoid):
            continue
        seen.add(row)
        it = {"row": row, "context": dict(rng.choice(CTXS)), "child": None}
        if depth < max_depth - 1 and rng.random() < (0.5 if depth == 0 else 0.35):
            it["child"] = [] if rng.random() < 0.15 else gen_patch(rng, vendor, sub_rules, all_rules, depth + 1, row,
                                                                   max_depth, avoid)
        items.append(it)
    return items


def add_dups(rng, items: list[dict]) -> None:
    """leave the property's domain on purpose: a repeated sibling row, or a row equal to its block's exit"""
    blocks = [i for i in items if i["child"]]
    if blocks and rng.random() < 0.5:
        b = rng.choice(blocks)
        b["child"].append({"row": rng.choice(["exit", "quit", b["child"][0]["row"]]), "context": {}, "child": None})
    elif items:
        src = rng.choice(items)
        items.insert(rng.randrange(len(items) + 1), {"row": src["row"], "context": dict(rng.choice(CTXS)), "child": None})


def flatten_rules(rules: list[dict]) -> list[dict]:
    out = []
    for r in rules:
        out.append(r)
        out.extend(flatten_rules(r["kids"]))
    return out


def patch_depth(items) -> int:
    return 0 if not items else 1 + max(patch_depth(i["child"] or []) for i in items)


def patch_size(items) -> int:
    return sum(1 + patch_size(i["child"] or []) for i in items)


def has_empty_block(items) -> bool:
    return any(i["child"] == [] or (i["child"] and has_empty_block(i["child"])) for i in items)


# ------------------------------------------------------------------ Coq printing of observations

def coq_ctx(c: dict) -> str:
    return clist(cpair(cstr(k), cstr(v)) for k, v in c.items())


def coq_ctree(items: list[dict]) -> str:
    return "(CT " + clist(
        f"({cstr(i['row'])}, {coq_ctx(i.get('context') or {})}, {copt(None if i['child'] is None else coq_ctree(i['child']))})"
        for i in items) + ")"


def coq_cpaths(ps: list) -> str:
    return clist(cpair(clist(cstr(x) for x in p), coq_ctx(c)) for p, c in ps)


def coq_wrapper(w) -> str:
    return cpair(clist(cstr(x) for x in w[0]), clist(cstr(x) for x in w[1]))


def coq_cmd(c: dict) -> str:
    # a command without timeout / level attribute: values no rule can ask for, so the predicate fails on it
    t = c["timeout_ms"] if c["timeout_ms"] >= 0 else 0
    lvl = c["level"] if 0 <= c["level"] < 4000 else 4999
    return (f"(Cmd {cstr(c['cmd'])} {cnat(lvl)} {t}%N "
            + clist(f"(Q {cstr(q)} {cstr(a)} {cbool(r)})" for q, a, r in c["questions"]) + ")")


def coq_run(r: dict) -> str:
    cmds = None if "err" in r else clist(coq_cmd(c) for c in r["cmds"])
    return (f"(Run09 {cbool(r['dc'])} {cbool(r['df'])} {copt(None if r['common'] is None else coq_wrapper(r['common']))} "
            f"{coq_wrapper(r['ap_env'])} {copt(cmds)})")


def coq_obs(case: dict, o: dict, default_ms: int, hoisted: dict | None = None) -> str:
    rules = clist(coq_drule(r, default_ms) for r in case["drules"])
    if hoisted is not None and len(rules) > 1500:
        # a long (shipped) rulebook is defined once per case file and referred to by name
        import hashlib
        name = "rb_" + hashlib.sha1(rules.encode()).hexdigest()[:12]
        hoisted[name] = rules
        rules = name
    return ("(Obs09 " + " ".join([
        P.VENDORS[case["vendor"]][2], coq_ctree(o["patch"]),
        clist(cpair(cnat(l), cstr(r)) for l, r in o["lines"]),
        coq_cpaths(o["paths"]), coq_cpaths(o["paths0"]),
        rules,
        clist(cstr(a) for a, v in sorted(o["flags"].items()) if v),
        clist(cstr(a) for a, v in sorted(o["opq"].items()) if v),
        clist(coq_run(r) for r in o["runs"])]) + ")")


# ------------------------------------------------------------------ cases

SHIPPED = ["huawei", "cisco", "nexus", "iosxr", "aruba", "arista", "b4com", "h3c"]


def leaf(row, ctx=None):
    return {"row": row, "context": ctx or {}, "child": None}


def witness_cases(shipped_rules: dict) -> list[dict]:
    """the witnesses of the *_refuted theorems and of the known finding, replayed on the real code on every run"""
    fm = [{"pat": "bgp *", "timeout_ms": 5000, "dialogs": [], "ifctx": [], "apply": 0,
           "kids": [{"pat": "peer *", "timeout_ms": 7000, "dialogs": [], "ifctx": [], "apply": 0, "kids": []}]},
          {"pat": "bgp 1", "timeout_ms": 9000, "dialogs": [], "ifctx": [], "apply": 0,
           "kids": [{"pat": "peer *", "timeout_ms": 11000, "dialogs": [], "ifctx": [], "apply": 0, "kids": []}]}]
    return [
        {"kind": "witness", "witness": "C09_dup_refuted", "vendor": "arista", "drules": [], "deploying": "",
         "patch": [leaf("ap-env a"), leaf("ap-env a")]},
        {"kind": "witness", "witness": "C09_dup_exit_refuted", "vendor": "cisco", "drules": [], "deploying": "",
         "patch": [{"row": "router bgp 1", "context": {}, "child": [
             {"row": "address-family ipv4", "context": {}, "child": [leaf("exit-address-family")]}]}]},
        {"kind": "witness", "witness": "C09_first_match_refuted", "vendor": "huawei", "drules": fm, "deploying": drules_text(fm),
         "patch": [{"row": "bgp 1", "context": {}, "child": [leaf("peer x")]}]},
        {"kind": "witness", "witness": "known:send_nl", "vendor": "cisco", "drules": shipped_rules["cisco"]["rules"],
         "deploying": None, "patch": [leaf("no username bob privilege 15 secret 5 xyz")]},
    ]


def gen_cases(ctx, shipped_rules: dict) -> list[dict]:
    rng = ctx.rng("c09")
    n_syn, n_pipe, n_ship = (8000, 2500, 1200) if ctx.thorough else (600, 220, 120)
    cases = []
    for i in range(n_syn):
        v = rng.choice(BLOCK_VENDORS)
        drules = gen_drules(rng)
        flat = flatten_rules(drules)
        patch = gen_patch(rng, v, drules, flat)
        dup = rng.random() < 0.05
        if dup:
            add_dups(rng, patch)
        cases.append({"kind": "synthetic", "vendor": v, "drules": drules, "deploying": drules_text(drules), "patch": patch,
                      "dup": dup})
    while len(cases) < n_syn + n_pipe:
        c = P.gen_case(rng, vendors=P.BLOCK_VENDORS)
        pats = [r["pat"] for r in flatten_rules(c["rules"]) if not r["ign"] and modelled_pat(r["pat"])]
        drules = gen_drules(rng, base_pats=pats or None)
        cases.append({"kind": "pipeline", "vendor": c["vendor"], "drules": drules, "deploying": drules_text(drules),
                      "pipeline": {k: c[k] for k in ("patching", "ordering", "old", "new")}})
    for i in range(n_ship):
        v = rng.choice(SHIPPED)
        rules = shipped_rules[v]["rules"]
        # wrap the shipped rules' own commands in blocks so that both the chain and the "stay" case occur
        patch = gen_patch(rng, v, rules, rules, avoid=("ftp", "FTP"))
        if v == "aruba" and rng.random() < 0.7:
            for it in patch:
                if rng.random() < 0.6:
                    it["context"] = {"block": "ap-env"}
        cases.append({"kind": "shipped", "vendor": v, "drules": rules, "deploying": None, "patch": patch})
    return cases


def payload(c: dict, atoms, opaque) -> dict:
    d = {"vendor": c["vendor"], "deploying": c["deploying"], "combos": COMBOS, "atoms": atoms, "opaque": opaque}
    if "corpus" in c:
        d["corpus"] = c["corpus"]
    elif "pipeline" in c:
        d["pipeline"] = c["pipeline"]
    else:
        d["patch"] = c["patch"]
    return d


CLAUSES = ["shown", "exits", "indent", "raised", "body", "params", "wrapper", "no_commit"]
AGREE = ["lines09", "paths09", "wrapper09", "deploy09"]
WHAT = {
    "shown": "lines of formatter.patch differ from (depth, command) of formatter.cmd_paths: what is sent is not what was shown",
    "exits": "formatter.patch is not the patch tree with the vendor's exit statement after each block",
    "indent": "cmd_paths differs between make_formatter() and make_formatter(indent='') (the deployer's call)",
    "raised": "apply_deploy_rulebook raises 'not supported false send_nl' for a command whose deploy rule has a %send_nl=0 dialog",
    "body": "the command list is not wrapper-before ++ one command per path (level = |path|-1) ++ wrapper-after",
    "params": "a command does not carry the timeout/dialogs of the unique deploy rule chain matching its path (or the defaults)",
    "wrapper": "the session wrapper of apply() holds a non-session command, a commit with do_commit=False or a save with do_finalize=False",
    "no_commit": "a commit command is sent although do_commit is False",
}


def signature(failed: list[str]) -> str:
    if failed == ["raised"]:
        return "C09/send_nl-false-dialog-raises"
    return "C09/" + "+".join(failed)


def _case_files(preds, terms, *, per_file, tag, extra_defs=""):
    """core.run_case_files; a coqc killed without any output (out-of-memory on a loaded machine) is retried
    once with 4 workers.  A genuine compile error carries compiler output and is not retried."""
    try:
        return core.run_case_files(ID, TY, IMPORTS, preds, terms, per_file=per_file, tag=tag, extra_defs=extra_defs)
    except core.CheckFailure as e:
        if not str(e).rstrip().endswith("failed to compile:"):
            raise
    saved = core.NPROC
    core.NPROC = 4
    try:
        return core.run_case_files(ID, TY, IMPORTS, preds, terms, per_file=per_file, tag=tag, extra_defs=extra_defs)
    finally:
        core.NPROC = saved


STAGE1 = {"ok": "fun o => holds_lenient_C09 o && agree_C09 o",          # everything but "a run raised"
          "raised": "fun o => negb (wf_C09 o) || c9_raised o",
          "wf": "wf_C09", "collapsed": "fun o => negb (dup_collapsed o)"}


def balanced_order(weights: list[int], per_file: int) -> list[int]:
    """order of the cases such that consecutive chunks of per_file have similar total weight (greedy LPT)"""
    n = len(weights)
    nfiles = max(1, -(-n // per_file))
    cap = [per_file] * (nfiles - 1) + [n - per_file * (nfiles - 1)]
    load = [0] * nfiles
    buckets: list[list[int]] = [[] for _ in range(nfiles)]
    for j in sorted(range(n), key=lambda j: -weights[j]):
        k = min((k for k in range(nfiles) if len(buckets[k]) < cap[k]), key=lambda k: load[k])
        buckets[k].append(j)
        load[k] += weights[j]
    return [j for b in buckets for j in b]


def evaluate(cases, outs, default_ms, tag="cases"):
    """Stage 1: one combined verdict per case (property on the real output, model == implementation), the runs that
    raised, and the domain statistics.  Stage 2, only for cases failing stage 1: which clause / which correspondence.
    Long shipped rulebooks are defined once per file; expensive cases are spread evenly over the files."""
    hoisted: dict = {}
    terms = [coq_obs(c, o, default_ms, hoisted) for c, o in zip(cases, outs)]
    defs = "\n".join(f"Definition {n} : list drule := {t}." for n, t in sorted(hoisted.items()))
    # cost ~ term size, plus (rules x commands) for the shipped rulebooks
    weights = [len(t) + (600 * len(o["paths"]) if " rb_" in t else 0) for t, o in zip(terms, outs)]
    order = balanced_order(weights, 40)
    part = _case_files(STAGE1, [terms[j] for j in order], per_file=40, tag=tag, extra_defs=defs)
    res = {k: sorted(order[j] for j in v) for k, v in part.items()}
    res["holds"] = sorted(set(res["raised"]))          # a raised run fails P_C09 (clause c9_raised)
    for k in CLAUSES:
        res[f"cl_{k}"] = list(res["raised"]) if k == "raised" else []
    for a in AGREE:
        res[f"agree_{a}"] = []
    failing = res["ok"][:40]
    if failing:
        preds = {"holds": "holds_lenient_C09"}
        preds.update({f"agree_{a}": f"agree_{a}" for a in AGREE})
        preds.update({f"cl_{k}": (f"fun o => negb (wf_C09 o) || c9_{k} o" if k not in ("body", "params") else
                                  f"fun o => negb (wf_C09 o) || streams_lenient {'cmd_fits_plain' if k == 'body' else 'cmd_fits'} o")
                      for k in CLAUSES if k != "raised"})
        det = _case_files(preds, [terms[j] for j in failing], per_file=5, tag=tag + "_detail", extra_defs=defs)
        for k, v in det.items():
            res[k] = sorted(set(res.get(k, [])) | {failing[j] for j in v})
    return res


def default_timeout_ms() -> int:
    txt = (core.COQ / "Gen" / "Src_apply.v").read_text()
    return int(re.search(r"default_timeout_s : nat := (\d+)%nat", txt).group(1)) * 1000


def run(ctx):
    core.proof_stage(ctx, THEOREM_FILE)
    atoms, opaque = table_atoms()
    default_ms = default_timeout_ms()
    rendered = core.run_impl("c09_runner.py", [{"render": v} for v in SHIPPED])
    shipped_rules, unmodelled = {}, {}
    for v, r in zip(SHIPPED, rendered):
        if "fatal" in r:
            raise core.CheckFailure("c09 runner failed to render the shipped deploy rulebook: " + r["fatal"][-600:])
        um: list = []
        shipped_rules[v] = {"rules": rules_of_compiled(r["compiled"], um)}
        if um:
            unmodelled[v] = um
    cases = gen_cases(ctx, shipped_rules)
    # the shipped before/after corpus of tests/annet/test_patch (block-structured vendors), shipped rulebooks
    names = core.run_impl("c09_runner.py", [{"corpus_names": True}])[0]
    if "names" not in names:
        raise core.CheckFailure("c09 runner failed to load the shipped corpus: " + str(names)[-600:])
    corpus = [{"kind": "corpus", "vendor": v, "corpus": n, "deploying": None, "drules": []}
              for n, v in names["names"] if v in BLOCK_VENDORS]
    cases = witness_cases(shipped_rules) + corpus + cases
    outs = core.run_impl_sharded("c09_runner.py", [payload(c, atoms, opaque) for c in cases])
    n_ftp = 0
    for c, o in zip(cases, outs):
        if c["kind"] == "corpus" and "compiled" in o:
            c["drules"] = rules_of_compiled(o["compiled"], [])
            if any(w in ("ftp", "FTP") for p, _ in o.get("paths", []) for w in p[-1].split()):
                o["skip"] = "commands of the 5 unmodelled huawei (ftp|FTP) rules"
                n_ftp += 1
    bad = [i for i, o in enumerate(outs) if "fatal" in o or any("err" in r and r["err"] != "send_nl" for r in o.get("runs", []))]
    for i in bad[:1]:
        err = outs[i].get("fatal") or [r["err"] for r in outs[i]["runs"] if "err" in r][0]
        ctx.add_violation(core.Violation(
            signature="C09/implementation-raised",
            what="formatter / apply_deploy_rulebook raised an unexpected exception: " + str(err)[-400:],
            replay={"case": cases[i], "impl": outs[i]}))
    keep = [i for i, o in enumerate(outs) if i not in set(bad) and "skip" not in o]
    kc, ko = [cases[i] for i in keep], [outs[i] for i in keep]
    res = evaluate(kc, ko, default_ms)

    def rep(j):
        return {"case": kc[j], "impl": ko[j]}

    reported = set()
    other_failures = False
    for j in res["holds"]:
        failed = [k for k in CLAUSES if j in res[f"cl_{k}"]]
        groups = []
        if "raised" in failed:
            groups.append(["raised"])
        rest = [k for k in failed if k != "raised"]
        if rest:
            groups.append(rest)
            other_failures = True
        for g in groups:
            sig = signature(g)
            if sig in reported:
                continue
            reported.add(sig)
            ctx.add_violation(core.Violation(signature=sig, what="; ".join(WHAT[k] for k in g), replay=dict(rep(j), clauses=g)))
    if not other_failures:
        for a in AGREE:
            for j in res[f"agree_{a}"][:1]:
                ctx.add_violation(core.Violation(
                    signature=f"C09/model-impl-disagree/{a}",
                    what=f"Coq model and implementation differ on '{a}' (correspondence broken); P_C09 holds on every "
                         f"implementation output explored",
                    replay=dict(rep(j), correspondence=a), no_input=True))
    # the witnesses of the refuted statements must behave on the real code as the theorems say
    for j, c in enumerate(kc):
        if c["kind"] != "witness":
            continue
        o = ko[j]
        ok = True
        if c["witness"] in ("C09_dup_refuted", "C09_dup_exit_refuted"):
            ok = j in res["wf"] and j in res["collapsed"] and len(o["paths"]) < len(o["lines"])
        elif c["witness"] == "C09_first_match_refuted":
            # the code descends into the *last* matching sibling: the peer command gets 11 s, not 7 s
            ok = [x["timeout_ms"] for x in o["runs"][0].get("cmds", []) if x["cmd"] == "peer x"] == [11000]
        elif c["witness"] == "known:send_nl":
            ok = all(r.get("err") == "send_nl" for r in o["runs"])
        if not ok:
            ctx.add_violation(core.Violation(
                signature=f"C09/witness-not-reproduced/{c['witness']}",
                what=f"the witness of {c['witness']} no longer behaves on the real code as the theorem / known finding says",
                replay=dict(rep(j), witness=c["witness"]), no_input=True))
    # ---- coverage
    seen, nt = set(), 0
    hist_kind, hist_vendor, hist_depth = {}, {}, {}
    n_raise = 0
    for c, o in zip(kc, ko):
        hist_kind[c["kind"]] = hist_kind.get(c["kind"], 0) + 1
        hist_vendor[c["vendor"]] = hist_vendor.get(c["vendor"], 0) + 1
        d = patch_depth(o["patch"])
        hist_depth[d] = hist_depth.get(d, 0) + 1
        n_raise += any("err" in r for r in o["runs"])
        h = core.canon_hash([c["vendor"], c["deploying"], o["patch"]])
        if h in seen:
            continue
        seen.add(h)
        matched = any(cmd["questions"] or cmd["timeout_ms"] != default_ms
                      for r in o["runs"][:1] for cmd in r.get("cmds", []))
        if d >= 2 and len(o["paths"]) >= 3 and (matched or c["kind"] != "synthetic" or not c["drules"]):
            nt += 1
    outside = [j for j in res["wf"]]
    collapsed = [j for j in res["collapsed"]]
    ctx.coverage.update({
        "evaluations": len(cases) * len(COMBOS),
        "cases": len(cases),
        "distinct_nontrivial": nt,
        "rule": "PatchTrees: synthetic (depth<=4, empty child trees, vendor block headers, item contexts), from the real "
                "_diff_and_patch on random rulebooks/config pairs, and around the shipped deploy rules; deploy rulebooks: random "
                "(nesting<=3, *, ~, %timeout, dialogs, %ifcontext, %apply_logic, %send_nl) via compile_deploying_text and the "
                "shipped *.deploy; every case under all four (do_commit, do_finalize); distinct by (vendor, deploy rulebook, "
                "patch); non-trivial = nesting >= 2, >= 3 commands, and (for synthetic rulebooks) some command matched a rule",
        "samples": [rep(j) for j in range(min(2, len(kc)))],
        "traces_validated_against_impl": len(keep) * len(COMBOS),
        "disagreements_checked": sum(len(res[f"agree_{a}"]) for a in AGREE),
        "kind_histogram": hist_kind, "vendor_histogram": hist_vendor, "patch_depth_histogram": hist_depth,
        "patches_with_empty_block": sum(1 for o in ko if has_empty_block(o["patch"])),
        "patch_size_max": max((patch_size(o["patch"]) for o in ko), default=0),
        "pipeline_cases_skipped_assertion_error": sum(1 for o in outs if "skip" in o),
        "outside_domain_equal_sibling_rows": len(outside),
        "outside_domain_shown_twice_sent_once": len(collapsed),
        "outside_domain_examples": [{"vendor": kc[j]["vendor"], "lines": ko[j]["lines"], "paths": [p for p, _ in ko[j]["paths"]]}
                                    for j in collapsed[:2]],
        "runs_raising_send_nl": n_raise,
        "unmodelled_shipped_rules": unmodelled,
        "refuted_witnesses_replayed_on_real_code": [c["witness"] for c in kc if c["kind"] == "witness"],
        "corpus_samples": sum(1 for c in kc if c["kind"] == "corpus"),
        "corpus_samples_skipped": {"unmodelled_ftp_rules": n_ftp,
                                   "no_patch": sum(1 for c, o in zip(cases, outs) if c["kind"] == "corpus" and "skip" in o) - n_ftp},
        "corpus_instances_outside_domain": [
            {"sample": kc[j]["corpus"], "vendor": kc[j]["vendor"], "shown_lines": len(ko[j]["lines"]),
             "sent_commands": len(ko[j]["paths"]),
             "repeated": sorted({r for lv_, r in ko[j]["lines"] if [x[1] for x in ko[j]["lines"]].count(r) > 1})[:6]}
            for j in outside if kc[j]["kind"] == "corpus"],
    })
    ctx.assumptions += [
        "rule patterns restricted to the plain rule language of Model/Pattern.v (C07); dialog question regexps are not run",
        "hardware flags of the canonical model strings are read from the real HardwareView (C18 covers the resolution)",
        "the `timeout=` given to Command() inside apply() is always overwritten by fill_cmd_params and is not modelled",
    ]


def replay(ctx, doc):
    atoms, opaque = table_atoms()
    c = doc["replay"]["case"]
    out = core.run_impl("c09_runner.py", [payload(c, atoms, opaque)])[0]
    if "fatal" in out:
        print("impl:", out["fatal"])
        return 1
    res = evaluate([c], [out], default_timeout_ms(), tag="replay")
    failed = [k for k in CLAUSES if res[f"cl_{k}"]]
    print("impl runs:", [r.get("err") or [(x["cmd"], x["level"]) for x in r["cmds"]] for r in out["runs"]])
    print("holds:", not res["holds"], "failed clauses:", failed, "model agrees:", {a: not res[f"agree_{a}"] for a in AGREE})
    return 1 if res["holds"] else 0
