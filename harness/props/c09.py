"""C09 — the command stream sent at deploy is exactly the patch that was shown (DESIGN §3.C09)."""
from __future__ import annotations

import json
import re

from .. import core, pipeline as P
from ..core import cstr, clist, cpair, cnat, cbool, copt

ID = "C09"
THEOREM_FILE = "Properties/C09.v"
META = {
    "text": "Proof (Coq, all inputs of the model). Formatter side: for every well-bracketed block stream the displayed "
            "(indent, row) lines equal (|path|-1, last path) of the path stack, and with no repeated path the ordered dict of "
            "cmd_paths loses nothing (C09_stream, C09_stream_raw); every formatter family yields a well-bracketed stream for "
            "every patch tree (C09_stream_any_family); distinct rows at every displayed level, exit statements included, imply "
            "distinct paths (C09_paths_nodup), hence shown == sent for every block-structured family and every patch tree of "
            "the domain (C09_shown_is_sent); with equal siblings two shown lines collapse into one sent command "
            "(C09_dup_refuted, C09_dup_exit_refuted); the displayed patch is the tree with the vendor's exit statement after "
            "each block, at most one per block (C09_exit_after_each_block, C09_exit_count); cmd_paths with contexts has the same "
            "keys (C09_paths_with_contexts). Deploy side, for any rule matcher / rulebook / apply-logic table: "
            "apply_deploy_rulebook = wrapper-before ++ one Command per path in order with level |path|-1 ++ wrapper-after when the "
            "matched rules share one apply logic, a groupby of maximal runs in general (C09_deploy_body, C09_deploy_groups, "
            "C09_deploy_group_shape); over the decision table regenerated from common.apply on every run and for every "
            "hardware-flag assignment: only session commands, enter before / commit, leave, save after, no commit-class command "
            "when do_commit is false, no save-class command when do_finalize is false (C09_wrapper, C09_no_commit, "
            "C09_wrapper_ap_env); match_deploy_rule returns the rule of the unique chain (unmatched header rows skipped) whenever "
            "every header row of the path is matched by at most one sibling rule, in particular for disjoint sibling languages, "
            "and the command carries that rule's timeout/dialogs or (30 s, none); it is refused exactly when the rule has a "
            "%send_nl=0 dialog (C09_match_rule, C09_match_rule_disjoint, C09_cmd_params, C09_cmd_refused; with overlapping "
            "siblings the code descends into the last match: C09_first_match_refuted); the predicate P_C09 is satisfied by the "
            "model's own outputs (C09_model_formatter, C09_model_stream). Any number of apply logics in one patch: the model's "
            "groupby is THE decomposition into maximal runs of equal (before, after) keys (exists and is unique: C09_groupby_runs); "
            "the command list is a sequence of sessions whose paths, concatenated, are the cmd_paths sequence in order, every "
            "path inside the session of its own rule's apply logic, wrapper commands at level 0 with the parameters of the rule "
            "matching them, neighbouring sessions with different wrappers; with the wrapper commands removed it is one command "
            "per path at level |path|-1 (C09_deploy_sessions, C09_deploy_body_general, C09_session_wrapper); frame property: "
            "position i of the stripped stream carries text, level and (unique chain) timeout/dialogs of the rule chain of path i, "
            "and the same path gets the same command in any two patches at any positions (C09_own_chain, C09_frame; the last "
            "element alone does not determine the parameters: C09_last_element_insufficient); the predicate clause c9_groups "
            "(expected stream for any number of apply logics) holds for the model's output (C09_model_groups). Deploy rules "
            "are read with the extended rule language of Model/PatternY.v, a conservative extension of the plain one at row, "
            "match_deploy_rule and apply_deploy_rulebook level (C09_hit_y_conservative, C09_deploy_y_conservative, C09_fast_hit_y). "
            "Dialog questions / ignore texts (MakeMessageMatcher, RulebookQuestionHandler): a plain text accepts exactly the "
            "contents holding it up to whitespace and letter case; a /re/ text accepts the contents with a prefix in the "
            "expression's language, case ignored; the answer is that of the first accepting dialog; the Question handed to the "
            "driver is a regexp exactly when the text is written between slashes (C09_dialog_plain, C09_dialog_plain_self, "
            "C09_dialog_regex, C09_dialog_first, C09_question_kind, C09_question_kind_matcher, C09_model_dialogs). "
            "`annet deploy --dont-commit` builds the PATCH with do_commit=False too (CliDeployerJob.parse_result): "
            "Model/PatchDC.v is make_patch with that flag; with do_commit=True it is the make_patch of Model/Patch.v "
            "(C09_dc_true_is_make_patch), the flag is irrelevant for a diff that meets no %force_commit rule "
            "(C09_dc_irrelevant_without_force_commit); with do_commit=False every row of the patch, at any depth, is a row the "
            "diff offers to a rule that is not %force_commit, or the undo command of such a slot: no `commit` row is added and "
            "nothing of a %force_commit rule is kept (C09_dc_no_added_row, C09_dc_no_commit_row, C09_dc_model; with "
            "do_commit=True commit rows that are no rows of the diff do appear: C09_dc_true_adds_commit); the command of every "
            "cmd_paths entry is a row of the patch tree or a block-exit word of the family (C09_cmd_paths_rows); with "
            "do_commit=False a commit-class command of the stream is the command of one of the paths, for any matcher, rulebook "
            "and number of sessions of the two shipped apply logics (C09_deploy_no_commit_beyond_paths); end to end, "
            "diff -> make_patch(False) -> cmd_paths -> apply_deploy_rulebook(False): every commit-class command sent is a row "
            "of the diff handled by a rule without %force_commit (C09_dc_stream). "
            "Correspondence (testing): Coq compares the model with "
            "formatter.patch, formatter.cmd_paths (with contexts) and annet.deploy.apply_deploy_rulebook on the shipped "
            "test_patch corpus, PatchTrees from the real _diff_and_patch on random rulebooks, synthetic ones (depth<=4, empty child "
            "trees, vendor block headers and near misses, contexts), a family with nested deploy rules and the same command text "
            "under several blocks, a family with interleaved apply logics, all block-structured vendors x {0,1}^2, random and "
            "shipped deploy rulebooks, and evaluates P_C09G (= the clauses of P_C09 + c9_groups) on the real outputs (the "
            "patches of the random-rulebook family are built by _diff_and_patch with the do_commit flag of the combination "
            "they are deployed with); a family of rulebooks with %force_commit rules at any depth (and genuine `commit` "
            "configuration rows) runs _diff_and_patch with do_commit=True and False, cmd_paths and "
            "apply_deploy_rulebook(do_commit=False), Coq compares both patches and the paths with Model/PatchDC.v and "
            "evaluates P_C09DC (rows of the do_commit=False patch, its paths, the streams) on the real outputs; and the "
            "dialog model with the real MakeMessageMatcher / RulebookQuestionHandler on every shipped rule with dialogs and "
            "synthetic ones.",
    "technique": "Coq induction over block streams / patch trees / rule chains, finite vm_compute proof over the regenerated "
                 "apply() table; vm_compute differential check on real outputs",
    "note": "Theorems are about the model; the tie to the code is the regenerated Gen/Src_apply.v table and the correspondence "
            "run (testing). Model/PatchDC.v inherits the limits of Model/Patch.v (no %multiline bodies, comments, vendor %logic "
            "functions: a logic that sets rule['force_commit'] itself, as huawei.bgp.undo_commit, is not modelled; the do_commit "
            "correspondence uses the six common logics). C09_dc_stream is stated for the block-structured families whose exit words "
            "are no commit command (all shipped ones: ex_exits_not_commit) and for the two shipped apply logics. Open known finding: a deploy rule with a %send_nl=0 dialog (shipped cisco/nexus `no username ...`) "
            "makes apply_deploy_rulebook raise. Not modelled: RouterOS/Juniper/Nokia flattening (not block structured); deploy-rule "
            "rows outside the extended rule language (2 shipped huawei rows whose group holds a blank: "
            "`undo (ftp|FTP) [ipv6] (server source|server-source)`; listed in the evidence, cases touching them are skipped); "
            "/re/ questions outside the dialog language (a group or set holding a blank, a top-level `|` beside blanks, anchors, "
            "counted repetition: none shipped; all 6 shipped /re/ forms are modelled); non-ASCII message texts. The `ignore:` "
            "list of a rule is only stored by annet, never consulted: its matchers are modelled, there is no consumer to model. "
            "Patches with equal sibling rows are outside the property's domain (shipped corpus samples listed in the evidence). "
            "c9_groups and the timeout/dialog comparison apply where the rule chain of every path is unique (otherwise the "
            "weaker subsequence clause of P_C09 applies; the code then descends into the last matching sibling: "
            "C09_first_match_refuted).",
}
IMPORTS = ("From Annet Require Import Base.Str Model.Pattern Model.Order Model.Patch Model.Blocks Gen.Src_apply "
           "Model.Deploy Model.DeployY Model.Dialog Spec.P_C09 Spec.P_C09G.")
TY = "obs09"

BLOCK_VENDORS = ["huawei", "h3c", "optixtrans", "cisco", "nexus", "iosxr", "arista", "aruba", "b4com", "pc"]
COMBOS = [[0, 0], [0, 1], [1, 0], [1, 1]]
CTXS = [{}, {}, {}, {}, {"block": "ap-env"}, {"kind": "x"}, {"block": "b2", "kind": "x"}]
WORDS = P.LIT + ["undo", "no", "enable", "server"]
SPECIAL = {
    "FHuawei": ["xpl route-filter RF", "xpl ip-prefix-list PL", "if x then", "elseif y then", "else", "rsa peer-public-key k1",
                "public-key-code begin", "bgp 1", "endif", "quit",
                # near misses of the block_exit conditions
                "xplain x", "xpl", "rsa peer-public-keys", "dsa peer-public-key k", "public-key-code end", "iffy then"],
    "FCisco": ["address-family ipv4", "address-family ipv6 unicast", "router bgp 1", "exit-address-family", "exit",
               "address-familyX", "address family ipv4", "no address-family ipv4"],
    "FAsr": ["prefix-set PS", "as-path-set AS", "community-set CS", "if x then", "route-policy RP", "router bgp 1", "endif",
             "end-policy", "exit",
             "iffy then", "ifx y then", "if x thenx", "if then", "route-policyX", "prefix-sets", "extcommunity-set rt X",
             "no route-policy RP"],
    "FBlockExit": ["interface Eth1", "exit", "router bgp 1"],
    "FCommon": ["interface Eth1", "exit"],
}
QUESTIONS = ["Continue? [Y/N]:", "/.*sure\\?/", "Are you sure", "Destination filename [startup-config]?", "/Warning: .* Continue/", "/"]
ANSWERS = ["Y", "N", "yes", "startup-config"]
TIMEOUTS_MS = [1000, 5000, 60000, 120000, 2500, 600000]
APPLY_NAMES = {0: "common.apply", 1: "aruba.ap_env.apply"}
# one-word regexps of the extended rule language (Model/PatternX.v) with words inside / just outside their language
RE_WORDS = {"(ftp|FTP)": ["ftp", "FTP", "ftpd", "Ftp"], "(?:permit|deny)": ["permit", "deny", "permits"],
            "vlans?": ["vlan", "vlans", "vlanx"], "(udp|tcp)": ["udp", "tcp", "tc"]}


def fam_key(vendor: str) -> str:
    fam = P.VENDORS[vendor][2]
    return "FBlockExit" if "FBlockExit" in fam else fam


# ------------------------------------------------------------------ atoms of the generated table

def table_atoms() -> tuple[list[str], list[str]]:
    txt = (core.COQ / "Gen" / "Src_apply.v").read_text()
    hw = sorted(set(re.findall(r'\(BHw "([^"]*)"\)', txt)))
    opq = sorted(set(s.replace('""', '"') for s in re.findall(r'\(BOpaque "((?:[^"]|"")*)"\)', txt)))
    return hw, opq


# ------------------------------------------------------------------ deploy rulebooks

def gen_dpat(rng, used_first: set, overlap_ok: bool) -> str:
    for _ in range(30):
        first = rng.choice(WORDS)
        if first in used_first and not (overlap_ok and rng.random() < 0.5):
            continue
        toks = [first]
        for _ in range(rng.choice([0, 1, 1, 2])):
            toks.append(rng.choice(WORDS + ["*", "*", "*"]))
        if rng.random() < 0.08:
            toks.insert(rng.randrange(len(toks) + 1), rng.choice(list(RE_WORDS)))
        if rng.random() < 0.12:
            toks.append("~")
        used_first.add(first)
        return " ".join(toks)
    return rng.choice(WORDS) + " zz" + str(len(used_first))


def gen_drules(rng, depth=0, base_pats=None, overlap=0.15) -> list[dict]:
    out, used_first, used = [], set(), set()
    n = rng.choice([0, 1, 2, 3, 4, 5]) if depth == 0 else rng.choice([1, 1, 2, 3])
    overlap_ok = rng.random() < overlap
    for _ in range(n):
        if base_pats and rng.random() < 0.6:
            pat = rng.choice(base_pats)
            if rng.random() < 0.3:
                pat = rng.choice(["undo ", "no "]) + pat
        else:
            pat = gen_dpat(rng, used_first, overlap_ok)
        if pat in used:
            continue
        used.add(pat)
        r = {"pat": pat, "timeout_ms": rng.choice(TIMEOUTS_MS) if rng.random() < 0.4 else None, "dialogs": [],
             "ifctx": [], "apply": 0, "kids": []}
        qs = rng.sample(QUESTIONS, rng.choice([0, 0, 1, 1, 2]))
        for q in qs:
            r["dialogs"].append({"q": q, "a": rng.choice(ANSWERS), "nl": rng.random() >= 0.03})
        x = rng.random()
        if x < 0.07:
            r["ifctx"] = [["block", "ap-env"]]
        elif x < 0.1:
            r["ifctx"] = [["kind", "x"], ["block", "b2"]]
        if rng.random() < 0.05:
            r["apply"] = 1
        if depth < 2 and rng.random() < (0.45 if depth == 0 else 0.3):
            r["kids"] = gen_drules(rng, depth + 1, base_pats, overlap)
        out.append(r)
    if overlap_ok and rng.random() < 0.5:
        out.insert(rng.randrange(len(out) + 1), {"pat": "~", "timeout_ms": rng.choice(TIMEOUTS_MS), "dialogs": [],
                                                 "ifctx": [], "apply": 1 if rng.random() < 0.2 else 0, "kids": []})
    return out


def fmt_timeout(ms: int) -> str:
    return str(ms // 1000) if ms % 1000 == 0 else ("%g" % (ms / 1000))


def drules_text(rules: list[dict], level=0) -> str:
    lines = []
    ind = "    " * level
    for r in rules:
        s = r["pat"]
        if r["timeout_ms"] is not None:
            s += " %timeout=" + fmt_timeout(r["timeout_ms"])
        if r["ifctx"]:
            s += " %ifcontext=" + ",".join(f"{n}:{v}" for n, v in r["ifctx"])
        if r["apply"]:
            s += " %apply_logic=" + APPLY_NAMES[r["apply"]]
        lines.append(ind + s)
        for d in r["dialogs"]:
            lines.append(ind + "    dialog: " + d["q"] + " ::: " + d["a"] + ("" if d["nl"] else " %send_nl=0"))
        if r["kids"]:
            lines.append(drules_text(r["kids"], level + 1))
    return "\n".join(lines)


def coq_drule(r: dict, default_ms: int) -> str:
    t = r["timeout_ms"] if r["timeout_ms"] is not None else default_ms
    return ("(DRule " + " ".join([
        cstr(r["pat"]), f"{t}%N",
        clist(f"(Dlg {cstr(d['q'])} {cstr(d['a'])} {cbool(d['nl'])})" for d in r["dialogs"]),
        clist(cpair(cstr(n), cstr(v)) for n, v in r["ifctx"]),
        cnat(r["apply"]), clist(coq_drule(k, default_ms) for k in r["kids"])]) + ")")


MODELLED: dict[str, bool] = {}


def ensure_modelled(pats) -> None:
    """row_modelled (Model/DeployY.v: the rule row is inside the extended rule language) decided by Coq, cached"""
    todo = sorted({p for p in pats if p not in MODELLED})
    for k in range(0, len(todo), 400):
        chunk = todo[k:k + 400]
        out = core.coq_eval(ID, IMPORTS, ["map row_modelled " + clist(cstr(p) for p in chunk)], tag=f"modelled_{k}")[0]
        vals = re.findall(r"true|false", out)
        if len(vals) != len(chunk):
            raise core.CheckFailure("unexpected output of row_modelled: " + out[:300])
        for p, v in zip(chunk, vals):
            MODELLED[p] = v == "true"


def modelled_pat(p: str) -> bool:
    if p not in MODELLED:
        ensure_modelled([p])
    return MODELLED[p]


def compiled_pats(comp: list[dict]) -> list[str]:
    return [x for c in comp for x in [pat_of_id(c["id"])] + compiled_pats(c["kids"])]


def plain_pat(p: str) -> bool:
    toks = p.split(" ")
    for i, t in enumerate(toks):
        if t == "*" or (t == "~" and i == len(toks) - 1):
            continue
        if not re.fullmatch(r"[A-Za-z0-9_./:-]+", t):
            return False
    return bool(toks) and p == p.strip()


def pat_of_id(rid: str) -> str:
    """the rule row of a compiled rule id (syntax._parse_raw_rule: cut at the first % when it carries parameters)"""
    if "%" in rid and re.findall(r"\s%([a-zA-Z_]\w*)(?:=([^\s]*))?", rid):
        rid = rid[:rid.index("%")]
    return re.sub(r"\s+", " ", rid.strip())


def rules_of_compiled(comp: list[dict], unmodelled: list) -> list[dict]:
    out = []
    for c in comp:
        pat = pat_of_id(c["id"])
        if not modelled_pat(pat):
            unmodelled.append(pat)
            continue
        if c["apply"] not in APPLY_NAMES.values():
            raise core.CheckFailure(f"unknown apply logic {c['apply']} in a shipped deploy rulebook")
        out.append({"pat": pat, "timeout_ms": int(round(c["timeout"] * 1000)),
                    "dialogs": [{"q": q, "a": a, "nl": nl} for q, a, nl in c["dialogs"]],
                    "ifctx": [v.split(":") for v in c["ifcontext"]],
                    "apply": [k for k, v in APPLY_NAMES.items() if v == c["apply"]][0],
                    "kids": rules_of_compiled(c["kids"], unmodelled)})
    return out


# ------------------------------------------------------------------ patch trees

def inst_row(rng, pat: str) -> str:
    ws = []
    for t in pat.split():
        if t == "*":
            ws.append(rng.choice(P.VAL))
        elif t == "~":
            ws.extend(rng.sample(P.VAL, rng.randint(1, 2)))
        elif t in RE_WORDS:
            ws.append(rng.choice(RE_WORDS[t]))
        elif re.fullmatch(r"\((?:\?:)?[^()]*\)", t):
            alts = t[1:-1].removeprefix("?:").split("|")
            ws.append(rng.choice(alts + [alts[0] + "x"]))
        else:
            ws.append(t)
    if not pat.endswith("~") and rng.random() < 0.3:
        ws.append(rng.choice(P.VAL))
    return " ".join(ws)


def gen_patch(rng, vendor: str, level_rules: list[dict], all_rules: list[dict], depth=0, parent="", max_depth=4,
              avoid=()) -> list[dict]:
    fam = fam_key(vendor)
    items, seen = [], set()
    n = rng.choice([1, 2, 2, 3, 4]) if depth == 0 else rng.choice([0, 1, 1, 2, 3])
    if parent.startswith("xpl route-filter"):
        cand = ["if a then", "elseif b then", "else", "apply x", "if c then"]
        rows = rng.sample(cand, rng.randint(1, 4))
        if rng.random() < 0.6:
            rows.sort(key=cand.index)
        for row in rows:
            blk = row.endswith("then") or row == "else" or rng.random() < 0.2
            items.append({"row": row, "context": dict(rng.choice(CTXS)),
                          "child": ([{"row": "apply " + rng.choice(P.VAL), "context": {}, "child": None}]
                                    if rng.random() < 0.8 else []) if blk else None})
        return items
    for _ in range(n):
        x = rng.random()
        sub_rules = level_rules
        if x < 0.45 and level_rules:
            r = rng.choice(level_rules)
            row = inst_row(rng, r["pat"]) if r["pat"] != "~" else rng.choice(WORDS) + " " + rng.choice(P.VAL)
            sub_rules = r["kids"] if rng.random() < 0.8 else level_rules
        elif x < 0.55 and all_rules:
            row = inst_row(rng, rng.choice(all_rules)["pat"].replace("~", "x"))
        elif x < 0.75:
            row = rng.choice(SPECIAL[fam])
        else:
            row = " ".join([rng.choice(WORDS)] + rng.sample(P.VAL, rng.randint(0, 2)))
        if row in seen or any(w in row.split() for w in avoid):
            continue
        seen.add(row)
        it = {"row": row, "context": dict(rng.choice(CTXS)), "child": None}
        if depth < max_depth - 1 and rng.random() < (0.5 if depth == 0 else 0.35):
            it["child"] = [] if rng.random() < 0.15 else gen_patch(rng, vendor, sub_rules, all_rules, depth + 1, row,
                                                                   max_depth, avoid)
        items.append(it)
    return items


def add_dups(rng, items: list[dict]) -> None:
    """leave the property's domain on purpose: a repeated sibling row, or a row equal to its block's exit"""
    blocks = [i for i in items if i["child"]]
    if blocks and rng.random() < 0.5:
        b = rng.choice(blocks)
        b["child"].append({"row": rng.choice(["exit", "quit", b["child"][0]["row"]]), "context": {}, "child": None})
    elif items:
        src = rng.choice(items)
        items.insert(rng.randrange(len(items) + 1), {"row": src["row"], "context": dict(rng.choice(CTXS)), "child": None})


def flatten_rules(rules: list[dict]) -> list[dict]:
    out = []
    for r in rules:
        out.append(r)
        out.extend(flatten_rules(r["kids"]))
    return out


def patch_depth(items) -> int:
    return 0 if not items else 1 + max(patch_depth(i["child"] or []) for i in items)


def patch_size(items) -> int:
    return sum(1 + patch_size(i["child"] or []) for i in items)


def has_empty_block(items) -> bool:
    return any(i["child"] == [] or (i["child"] and has_empty_block(i["child"])) for i in items)


# ------------------------------------------------------------------ Coq printing of observations

def coq_ctx(c: dict) -> str:
    return clist(cpair(cstr(k), cstr(v)) for k, v in c.items())


def coq_ctree(items: list[dict]) -> str:
    return "(CT " + clist(
        f"({cstr(i['row'])}, {coq_ctx(i.get('context') or {})}, {copt(None if i['child'] is None else coq_ctree(i['child']))})"
        for i in items) + ")"


def coq_cpaths(ps: list) -> str:
    return clist(cpair(clist(cstr(x) for x in p), coq_ctx(c)) for p, c in ps)


def coq_wrapper(w) -> str:
    return cpair(clist(cstr(x) for x in w[0]), clist(cstr(x) for x in w[1]))


def coq_cmd(c: dict) -> str:
    # a command without timeout / level attribute: values no rule can ask for, so the predicate fails on it
    t = c["timeout_ms"] if c["timeout_ms"] >= 0 else 0
    lvl = c["level"] if 0 <= c["level"] < 4000 else 4999
    return (f"(Cmd {cstr(c['cmd'])} {cnat(lvl)} {t}%N "
            + clist(f"(Q {cstr(q)} {cstr(a)} {cbool(r)})" for q, a, r in c["questions"]) + ")")


def coq_run(r: dict) -> str:
    cmds = None if "err" in r else clist(coq_cmd(c) for c in r["cmds"])
    return (f"(Run09 {cbool(r['dc'])} {cbool(r['df'])} {copt(None if r['common'] is None else coq_wrapper(r['common']))} "
            f"{coq_wrapper(r['ap_env'])} {copt(cmds)})")


def coq_obs(case: dict, o: dict, default_ms: int, hoisted: dict | None = None) -> str:
    rules = clist(coq_drule(r, default_ms) for r in case["drules"])
    if hoisted is not None and len(rules) > 1500:
        # a long (shipped) rulebook is defined once per case file and referred to by name
        import hashlib
        name = "rb_" + hashlib.sha1(rules.encode()).hexdigest()[:12]
        hoisted[name] = rules
        rules = name
    return ("(Obs09 " + " ".join([
        P.VENDORS[case["vendor"]][2], coq_ctree(o["patch"]),
        clist(cpair(cnat(l), cstr(r)) for l, r in o["lines"]),
        coq_cpaths(o["paths"]), coq_cpaths(o["paths0"]),
        rules,
        clist(cstr(a) for a, v in sorted(o["flags"].items()) if v),
        clist(cstr(a) for a, v in sorted(o["opq"].items()) if v),
        clist(coq_run(r) for r in o["runs"])]) + ")")


# ------------------------------------------------------------------ cases

SHIPPED = ["huawei", "cisco", "nexus", "iosxr", "aruba", "arista", "b4com", "h3c"]


def leaf(row, ctx=None):
    return {"row": row, "context": ctx or {}, "child": None}


TWIN_RULES = [
    {"pat": "bgp *", "timeout_ms": None, "dialogs": [], "ifctx": [], "apply": 0, "kids": [
        {"pat": "shutdown", "timeout_ms": 120000, "ifctx": [], "apply": 0, "kids": [],
         "dialogs": [{"q": "Warning: All BGP sessions will be closed. Continue? [Y/N]:", "a": "Y", "nl": True}]}]},
    {"pat": "interface *", "timeout_ms": None, "dialogs": [], "ifctx": [], "apply": 0, "kids": [
        {"pat": "undo portswitch", "timeout_ms": 90000, "dialogs": [], "ifctx": [], "apply": 0, "kids": []}]}]
EX2_RULES = [{"pat": "~", "timeout_ms": None, "dialogs": [], "ifctx": [["block", "ap-env"]], "apply": 1, "kids": []},
             {"pat": "write memory", "timeout_ms": 45000, "dialogs": [], "ifctx": [], "apply": 0, "kids": []}]
EX2_STREAM = ["name:a", "write memory", "conf t", "usb-port-disable", "end", "commit apply", "write memory", "iap-master",
              "write memory"]


def witness_cases(shipped_rules: dict) -> list[dict]:
    """the witnesses of the *_refuted theorems and of the known finding, replayed on the real code on every run"""
    fm = [{"pat": "bgp *", "timeout_ms": 5000, "dialogs": [], "ifctx": [], "apply": 0,
           "kids": [{"pat": "peer *", "timeout_ms": 7000, "dialogs": [], "ifctx": [], "apply": 0, "kids": []}]},
          {"pat": "bgp 1", "timeout_ms": 9000, "dialogs": [], "ifctx": [], "apply": 0,
           "kids": [{"pat": "peer *", "timeout_ms": 11000, "dialogs": [], "ifctx": [], "apply": 0, "kids": []}]}]
    return [
        {"kind": "witness", "witness": "C09_dup_refuted", "vendor": "arista", "drules": [], "deploying": "",
         "patch": [leaf("ap-env a"), leaf("ap-env a")]},
        {"kind": "witness", "witness": "C09_dup_exit_refuted", "vendor": "cisco", "drules": [], "deploying": "",
         "patch": [{"row": "router bgp 1", "context": {}, "child": [
             {"row": "address-family ipv4", "context": {}, "child": [leaf("exit-address-family")]}]}]},
        {"kind": "witness", "witness": "C09_first_match_refuted", "vendor": "huawei", "drules": fm, "deploying": drules_text(fm),
         "patch": [{"row": "bgp 1", "context": {}, "child": [leaf("peer x")]}]},
        {"kind": "witness", "witness": "known:send_nl", "vendor": "cisco", "drules": shipped_rules["cisco"]["rules"],
         "deploying": None, "patch": [leaf("no username bob privilege 15 secret 5 xyz")]},
        # Properties/C09.v twin_rules: the same command text under two blocks, two rule chains
        {"kind": "witness", "witness": "C09_last_element_insufficient", "vendor": "huawei", "drules": TWIN_RULES,
         "deploying": drules_text(TWIN_RULES),
         "patch": [{"row": "interface 100GE1/0/1", "context": {}, "child": [leaf("shutdown")]},
                   {"row": "bgp 65000", "context": {}, "child": [leaf("shutdown")]}]},
        # Properties/C09.v ex2_deploy: two apply logics interleaved, three sessions
        {"kind": "witness", "witness": "ex2_deploy", "vendor": "aruba", "drules": EX2_RULES, "deploying": drules_text(EX2_RULES),
         "patch": [leaf("name:a", {"block": "ap-env"}), leaf("usb-port-disable"), leaf("iap-master", {"block": "ap-env"})]},
    ]


def gen_cases(ctx, shipped_rules: dict) -> list[dict]:
    rng = ctx.rng("c09")
    n_syn, n_pipe, n_ship = (8000, 1800, 1200) if ctx.thorough else (600, 160, 120)      # n_pipe inputs, two observations each
    n_twin, n_sess = (800, 800) if ctx.thorough else (110, 110)
    cases = [gen_twin(rng) for _ in range(n_twin)] + [gen_sessions(rng) for _ in range(n_sess)]
    n_syn += len(cases)
    n_new = len(cases)
    for i in range(n_syn - n_new):
        v = rng.choice(BLOCK_VENDORS)
        drules = gen_drules(rng)
        flat = flatten_rules(drules)
        patch = gen_patch(rng, v, drules, flat)
        dup = rng.random() < 0.05
        if dup:
            add_dups(rng, patch)
        cases.append({"kind": "synthetic", "vendor": v, "drules": drules, "deploying": drules_text(drules), "patch": patch,
                      "dup": dup})
    n_pipe_in = 0
    while n_pipe_in < n_pipe:
        # as CliDeployerJob.parse_result: the PATCH is built with the do_commit flag the stream is built with
        c = P.gen_case(rng, vendors=P.BLOCK_VENDORS)
        if rng.random() < 0.4:
            raise_force_commit(rng, c)
        pats = [r["pat"] for r in flatten_rules(c["rules"]) if not r["ign"] and plain_pat(r["pat"])]
        drules = gen_drules(rng, base_pats=pats or None)
        for kind, dc in (("pipeline", 1), ("pipeline_dc0", 0)):
            cases.append({"kind": kind, "vendor": c["vendor"], "drules": drules, "deploying": drules_text(drules),
                          "pipeline": {k: c[k] for k in ("patching", "ordering", "old", "new")},
                          "patch_dc": bool(dc), "combos": [[dc, 0], [dc, 1]]})
        n_pipe_in += 1
    for i in range(n_ship):
        v = rng.choice(SHIPPED)
        rules = shipped_rules[v]["rules"]
        # wrap the shipped rules' own commands in blocks so that both the chain and the "stay" case occur
        patch = gen_patch(rng, v, rules, rules)
        if v == "aruba" and rng.random() < 0.7:
            for it in patch:
                if rng.random() < 0.6:
                    it["context"] = {"block": "ap-env"}
        cases.append({"kind": "shipped", "vendor": v, "drules": rules, "deploying": None, "patch": patch})
    # generated rule rows with one-word regexps must be inside the modelled language (they are, by construction)
    # (rows of the plain language are modelled: C09_hit_y_conservative; were one not, the correspondence would alarm)
    gen_rules = [r for c in cases if c["deploying"] is not None for r in flatten_rules(c["drules"]) if not plain_pat(r["pat"])]
    ensure_modelled(r["pat"] for r in gen_rules)
    for r in gen_rules:
        if not MODELLED[r["pat"]]:
            raise core.CheckFailure(f"the generator produced a deploy rule row outside the modelled language: {r['pat']!r}")
    return cases


def mk_rule(pat, timeout_ms=None, dialogs=(), ifctx=(), apply=0, kids=()):
    return {"pat": pat, "timeout_ms": timeout_ms, "dialogs": [dict(d) for d in dialogs], "ifctx": [list(x) for x in ifctx],
            "apply": apply, "kids": list(kids)}


def gen_twin(rng) -> dict:
    """nested deploy rules and the SAME command text under several blocks (and at top level): every occurrence must get
    the parameters of the rule chain of its own path (match_deploy_rule walks the whole path)"""
    v = rng.choice(BLOCK_VENDORS)
    heads = rng.sample(["bgp", "interface", "ospf", "vlan", "aaa", "isis"], 4)
    cmd_pat = rng.choice(["shutdown", "undo enable", "reset *", "mode *", "peer * enable", "undo (ftp|FTP) server"])
    cmd = inst_row(rng, cmd_pat) if rng.random() < 0.5 else " ".join(
        {"*": "x"}.get(t, RE_WORDS.get(t, [t])[0]) for t in cmd_pat.split())

    def params():
        return {"timeout_ms": rng.choice(TIMEOUTS_MS + [None]),
                "dialogs": [{"q": q, "a": rng.choice(ANSWERS), "nl": True} for q in rng.sample(QUESTIONS, rng.choice([0, 1, 1, 2]))]}
    rules = []
    for k, h in enumerate(heads[:3]):
        x = rng.random()
        if k == 0 or x < 0.5:
            kids = [mk_rule(cmd_pat, **params())]
            if rng.random() < 0.3:
                kids.insert(rng.randrange(2), mk_rule(rng.choice(WORDS) + " *", **params()))
        elif x < 0.75:
            kids = [mk_rule(rng.choice(WORDS) + " *", **params())]      # the command falls to the defaults inside this block
        else:
            kids = []                                                   # childless header rule: defaults inside
        rules.append(mk_rule(h + " *", kids=kids, **(params() if rng.random() < 0.3 else {})))
    if rng.random() < 0.5:
        rules.insert(rng.randrange(len(rules) + 1), mk_rule(cmd_pat, **params()))      # and a top-level rule for the text
    rng.shuffle(rules)
    blocks = []
    for h in heads:                                                     # heads[3] has no rule at all
        for _ in range(rng.choice([1, 1, 2])):
            kids = [leaf(cmd)]
            if rng.random() < 0.5:
                kids.insert(rng.randrange(2), leaf(rng.choice(WORDS) + " " + rng.choice(P.VAL)))
            if rng.random() < 0.2:
                kids.append({"row": "sub " + rng.choice(P.VAL), "context": {}, "child": [leaf(cmd)]})
            blocks.append({"row": h + " " + rng.choice(P.VAL) + str(len(blocks)), "context": {}, "child": kids})
    if rng.random() < 0.5:
        blocks.append(leaf(cmd))
    rng.shuffle(blocks)
    return {"kind": "twin", "vendor": v, "drules": rules, "deploying": drules_text(rules), "patch": blocks, "dup": False}


def gen_sessions(rng) -> dict:
    """several apply logics in one patch, interleaved: the stream is one session per maximal run of commands asking for
    the same wrapper, the patch commands stay in patch order"""
    v = rng.choice(BLOCK_VENDORS)
    heads = rng.sample(WORDS, rng.choice([2, 3, 4]))
    rules = []
    for k, h in enumerate(heads):
        ap = k % 2 if k < 2 else rng.choice([0, 1])
        kids = []
        if rng.random() < 0.3:
            kids = [mk_rule(rng.choice(WORDS) + " *", timeout_ms=rng.choice(TIMEOUTS_MS), apply=rng.choice([0, 1]))]
        rules.append(mk_rule(h + rng.choice([" *", " ~", ""]), timeout_ms=rng.choice(TIMEOUTS_MS + [None]), apply=ap, kids=kids))
    by_ctx = rng.random() < 0.3
    if by_ctx:      # the shipped aruba form: the apply logic chosen by the row context
        rules.insert(0, mk_rule("~", ifctx=[["block", "ap-env"]], apply=1))
    if rng.random() < 0.3:      # a rule for a wrapper command
        rules.append(mk_rule(rng.choice(["write memory", "conf t", "commit", "system-view", "q", "end"]),
                             timeout_ms=rng.choice(TIMEOUTS_MS)))
    rng.shuffle(rules)
    items, seen = [], set()
    for _ in range(rng.randint(3, 8)):
        r = rng.choice([x for x in rules if x["pat"] != "~" and not x["pat"].startswith(("write", "conf", "commit", "system", "q", "end"))])
        row = inst_row(rng, r["pat"])
        if rng.random() < 0.15:
            row = rng.choice(["zzz", "yyy"]) + " " + rng.choice(P.VAL)
        if row in seen:
            continue
        seen.add(row)
        it = {"row": row, "context": {"block": "ap-env"} if by_ctx and rng.random() < 0.5 else {}, "child": None}
        if rng.random() < 0.25:
            it["child"] = [leaf(inst_row(rng, k["pat"])) for k in r["kids"]] + [leaf("sub " + rng.choice(P.VAL))]
        items.append(it)
    return {"kind": "sessions", "vendor": v, "drules": rules, "deploying": drules_text(rules), "patch": items, "dup": False}


def payload(c: dict, atoms, opaque) -> dict:
    d = {"vendor": c["vendor"], "deploying": c["deploying"], "combos": c.get("combos", COMBOS), "atoms": atoms,
         "opaque": opaque}
    if "patch_dc" in c:
        d["patch_dc"] = c["patch_dc"]
    if c["deploying"] is None and UNMODELLED.get(c["vendor"]):
        d["unmodelled"] = UNMODELLED[c["vendor"]]
    if "corpus" in c:
        d["corpus"] = c["corpus"]
    elif "pipeline" in c:
        d["pipeline"] = c["pipeline"]
    else:
        d["patch"] = c["patch"]
    return d


UNMODELLED: dict[str, list] = {}      # vendor -> rule rows of the shipped deploy rulebook outside the modelled language

CLAUSES = ["shown", "exits", "indent", "raised", "body", "params", "groups", "wrapper", "no_commit"]
AGREE = ["lines09", "paths09", "wrapper09", "deploy09"]
WHAT = {
    "shown": "lines of formatter.patch differ from (depth, command) of formatter.cmd_paths: what is sent is not what was shown",
    "exits": "formatter.patch is not the patch tree with the vendor's exit statement after each block",
    "indent": "cmd_paths differs between make_formatter() and make_formatter(indent='') (the deployer's call)",
    "raised": "apply_deploy_rulebook raises 'not supported false send_nl' for a command whose deploy rule has a %send_nl=0 dialog",
    "body": "the command list is not wrapper-before ++ one command per path (level = |path|-1) ++ wrapper-after",
    "params": "a command does not carry the timeout/dialogs of the unique deploy rule chain matching its path (or the defaults)",
    "groups": "the command list is not: for each maximal run of adjacent commands whose deploy rules ask for the same session "
              "wrapper, that wrapper's before commands, the run's commands in patch order, its after commands (commands moved "
              "across sessions, merged or split sessions, or the wrapper of another apply logic)",
    "wrapper": "the session wrapper of apply() holds a non-session command, a commit with do_commit=False or a save with do_finalize=False",
    "no_commit": "a commit command is sent although do_commit is False",
}


def signature(failed: list[str]) -> str:
    if failed == ["raised"]:
        return "C09/send_nl-false-dialog-raises"
    return "C09/" + "+".join(failed)


def _case_files(preds, terms, *, per_file, tag, extra_defs=""):
    """core.run_case_files; a coqc killed without any output (out-of-memory on a loaded machine) is retried
    once with 4 workers.  A genuine compile error carries compiler output and is not retried."""
    try:
        return core.run_case_files(ID, TY, IMPORTS, preds, terms, per_file=per_file, tag=tag, extra_defs=extra_defs)
    except core.CheckFailure as e:
        if not str(e).rstrip().endswith("failed to compile:"):
            raise
    saved = core.NPROC
    core.NPROC = 4
    try:
        return core.run_case_files(ID, TY, IMPORTS, preds, terms, per_file=per_file, tag=tag, extra_defs=extra_defs)
    finally:
        core.NPROC = saved


STAGE1 = {"ok": "fun o => holds_lenient_C09G o && agree_C09G o",          # everything but "a run raised"
          "raised": "fun o => negb (wf_C09 o) || c9_raised o",
          "wf": "wf_C09", "collapsed": "fun o => negb (dup_collapsed o)"}


def balanced_order(weights: list[int], per_file: int) -> list[int]:
    """order of the cases such that consecutive chunks of per_file have similar total weight (greedy LPT)"""
    n = len(weights)
    nfiles = max(1, -(-n // per_file))
    cap = [per_file] * (nfiles - 1) + [n - per_file * (nfiles - 1)]
    load = [0] * nfiles
    buckets: list[list[int]] = [[] for _ in range(nfiles)]
    for j in sorted(range(n), key=lambda j: -weights[j]):
        k = min((k for k in range(nfiles) if len(buckets[k]) < cap[k]), key=lambda k: load[k])
        buckets[k].append(j)
        load[k] += weights[j]
    return [j for b in buckets for j in b]


def evaluate(cases, outs, default_ms, tag="cases"):
    """Stage 1: one combined verdict per case (property on the real output, model == implementation), the runs that
    raised, and the domain statistics.  Stage 2, only for cases failing stage 1: which clause / which correspondence.
    Long shipped rulebooks are defined once per file; expensive cases are spread evenly over the files."""
    hoisted: dict = {}
    terms = [coq_obs(c, o, default_ms, hoisted) for c, o in zip(cases, outs)]
    defs = "\n".join(f"Definition {n} : list drule := {t}." for n, t in sorted(hoisted.items()))
    # cost ~ term size, plus (rules x commands) for the shipped rulebooks
    weights = [len(t) + (600 * len(o["paths"]) if " rb_" in t else 0) for t, o in zip(terms, outs)]
    order = balanced_order(weights, 40)
    part = _case_files(STAGE1, [terms[j] for j in order], per_file=40, tag=tag, extra_defs=defs)
    res = {k: sorted(order[j] for j in v) for k, v in part.items()}
    res["holds"] = sorted(set(res["raised"]))          # a raised run fails P_C09 (clause c9_raised)
    for k in CLAUSES:
        res[f"cl_{k}"] = list(res["raised"]) if k == "raised" else []
    for a in AGREE:
        res[f"agree_{a}"] = []
    failing = res["ok"][:40]
    if failing:
        preds = {"holds": "holds_lenient_C09G"}
        preds.update({f"agree_{a}": ("agree_deploy09_y" if a == "deploy09" else f"agree_{a}") for a in AGREE})
        # diagnosis: `groups` = the session structure (texts and levels), `params` = timeout/dialogs anywhere
        detail = {"body": "c9g_body o", "params": "c9g_params o && (negb (c9g_sessions o) || c9g_groups o)", "groups": "c9g_sessions o"}
        preds.update({f"cl_{k}": f"fun o => negb (wf_C09 o) || ({detail.get(k, f'c9_{k} o')})"
                      for k in CLAUSES if k != "raised"})
        det = _case_files(preds, [terms[j] for j in failing], per_file=5, tag=tag + "_detail", extra_defs=defs)
        for k, v in det.items():
            res[k] = sorted(set(res.get(k, [])) | {failing[j] for j in v})
    return res


# ------------------------------------------------------------------ dialog questions / ignore texts

DLG_EXTRA = ["/.*sure\\?/", "/Warning: .* Continue/", "/", "/Overwrite file \\[.*\\]\\?/", "/a b|c d/", "/x{2,3}y/", "/(yes|no) please/",
             "/^anchored/", "/Tab\\there/", "Are you sure", "are  you SURE ?", "Destination filename [startup-config]?",
             "/[Cc]onfirm/", "/.+\\[confirm\\]/", "/Delete \\S+ \\?/"]


def unescape_re(src: str, rng) -> str:
    """a text the /re/ source is meant to accept (best effort: the check compares model and code on whatever comes out)"""
    out, i = [], 0
    filler = ["", "x", "GE1/0/1 and GE1/0/2", "the old  one", "Y"]
    while i < len(src):
        ch = src[i]
        nxt = src[i + 1] if i + 1 < len(src) else ""
        if ch == "\\" and nxt:
            out.append({"S": "k1", "s": " ", "d": "7", "w": "w"}.get(nxt, nxt) if nxt in "SsdwDW" else nxt)
            i += 2
            if i < len(src) and src[i] in "+*":
                i += 1
            continue
        if ch == "." and nxt in ("*", "+"):
            out.append(rng.choice(filler) or ("" if nxt == "*" else "z"))
            i += 2
            continue
        if nxt == "?" and ch not in "\\)":
            if rng.random() < 0.5:
                out.append(ch)
            i += 2
            continue
        if ch == "[" and "]" in src[i:]:
            j = src.index("]", i)
            out.append(src[i + 1] if src[i + 1] != "^" else "q")
            i = j + 1
            continue
        if ch == "(" and ")" in src[i:]:
            j = src.index(")", i)
            out.append(rng.choice(src[i + 1:j].removeprefix("?:").split("|")))
            i = j + 1
            continue
        out.append(ch)
        i += 1
    return "".join(out)


def perturb(rng, t: str) -> str:
    x = rng.random()
    if x < 0.2:
        return t
    if x < 0.35:
        return t.swapcase()
    if x < 0.5:
        return t.replace(" ", rng.choice(["", "  ", "\n", " \t "]))
    if x < 0.6 and len(t) > 2:
        k = rng.randrange(len(t))
        return t[:k] + t[k + 1:]                                       # near miss: one character dropped
    if x < 0.75:
        return rng.choice(["", "Info: ", "\n", "%% "]) + t + rng.choice(["", " ", " [Y/N]:", "\nmore"])
    if x < 0.85:
        return rng.choice(["  ", "\r\n", "\x1c"]) + t + rng.choice(["  \n", "\x1f", ""])
    return t.upper() if rng.random() < 0.5 else t.lower()


def dlg_contents(rng, questions: list[str], pool: list[str]) -> list[str]:
    out = []
    for q in questions:
        base = unescape_re(q[1:-1].strip(), rng) if (q.startswith("/") and q.endswith("/")) else q
        for _ in range(3):
            out.append(perturb(rng, base))
    out += [perturb(rng, unescape_re(x[1:-1], rng) if x.startswith("/") and x.endswith("/") else x) for x in rng.sample(pool, min(3, len(pool)))]
    out.append(rng.choice(["", " ", "Error: unrecognized command", "y"]))
    seen, res = set(), []
    for c in out:
        if c not in seen and all(ord(ch) < 127 for ch in c):
            seen.add(c)
            res.append(c)
    return res


def cstr_any(t: str) -> str:
    """Coq string term for an ASCII text that may hold control characters"""
    parts, cur = [], ""
    for ch in t:
        o = ord(ch)
        if o > 126:
            raise core.CheckFailure(f"non-ASCII character in a dialog content: {t!r}")
        if o < 32 and ch not in "\n\t":
            if cur:
                parts.append(cstr(cur))
                cur = ""
            parts.append(f"(String (Ascii.ascii_of_nat {o}) EmptyString)")
        else:
            cur += ch
    if cur or not parts:
        parts.append(cstr(cur))
    return parts[0] if len(parts) == 1 else "(" + " ++ ".join(parts) + ")%string"


def coq_obsdlg(o: dict) -> str:
    runs = clist(f"(RunDlg {cstr_any(r['content'])} {copt(None if r['answer'] is None else cstr(r['answer']))} "
                 f"{clist(cbool(b) for b in r['hits'])} {clist(cbool(b) for b in r['ign'])})" for r in o["runs"])
    dl = clist(f"(Dlg {cstr(q)} {cstr(a)} {cbool(nl)})" for q, a, nl in o["dialogs"])
    return f"(ObsDlg {dl} {clist(cstr(t) for t in o['ignore'])} {runs})"


def run_dialogs(ctx, rendered: dict) -> dict:
    """MakeMessageMatcher / RulebookQuestionHandler of the real code against Model/Dialog.v: every rule of the shipped
    deploy rulebooks that has dialogs, and synthetic rules (plain and /re/ questions, ignore: texts, near misses)"""
    rng = ctx.rng("c09-dialogs")

    def with_dialogs(comp):
        for c in comp:
            if c["dialogs"]:
                yield c
            yield from with_dialogs(c["kids"])
    shipped = [(v, c) for v, r in rendered.items() for c in with_dialogs(r["compiled"])]
    pool = sorted({q for _, c in shipped for q, _, _ in c["dialogs"]} | set(QUESTIONS) | set(DLG_EXTRA))
    cases = []
    for v, c in shipped:
        qs = [q for q, _, _ in c["dialogs"]]
        text = "cmd\n" + "\n".join(f"    dialog: {q} ::: {a}" + ("" if nl else " %send_nl=0") for q, a, nl in c["dialogs"])
        cases.append({"dlg": text, "vendor": v, "contents": dlg_contents(rng, qs, pool), "kind": "shipped", "rule": c["id"]})
    for _ in range(600 if ctx.thorough else 90):
        qs = rng.sample(pool, rng.choice([1, 1, 2, 3]))
        igs = rng.sample(pool, rng.choice([0, 0, 1, 2]))
        text = "cmd\n" + "\n".join([f"    dialog: {q} ::: {rng.choice(ANSWERS)}" for q in qs] + [f"    ignore: {t}" for t in igs])
        cases.append({"dlg": text, "vendor": "huawei", "contents": dlg_contents(rng, qs + igs, pool), "kind": "synthetic"})
    outs = core.run_impl_sharded("c09_runner.py", [{k: c[k] for k in ("dlg", "vendor", "contents")} for c in cases])
    for c, o in zip(cases, outs):
        if "fatal" in o:
            raise core.CheckFailure("c09 runner failed on a dialog case: " + o["fatal"][-600:])
    terms = [coq_obsdlg(o) for o in outs]
    res = core.run_case_files(ID, "obsdlg", IMPORTS, {"holds": "holds_dlg", "modelled": "modelled_dlg",
                                                      "agree": "fun o => negb (modelled_dlg o) || agree_dlg o"},
                              terms, per_file=60, tag="dialogs")
    for j in res["holds"][:1]:
        ctx.add_violation(core.Violation(
            signature="C09/dialog-answer-not-first-match",
            what="RulebookQuestionHandler does not answer with the first dialog whose question accepts the content",
            replay={"case": cases[j], "impl": outs[j], "dialog_case": True}))
    if not res["holds"]:
        for j in res["agree"][:1]:
            ctx.add_violation(core.Violation(
                signature="C09/model-impl-disagree/dialogs",
                what="Coq model (Model/Dialog.v) and MakeMessageMatcher / RulebookQuestionHandler differ",
                replay={"case": cases[j], "impl": outs[j], "dialog_case": True}, no_input=True))
    unm_sh = sorted({q for j in res["modelled"] if cases[j]["kind"] == "shipped" for q, _, _ in outs[j]["dialogs"]
                     if q.startswith("/")})
    return {
        "cases": len(cases), "contents": sum(len(o["runs"]) for o in outs),
        "shipped_rules_with_dialogs": len(shipped),
        "shipped_regex_questions": sorted({q for _, c in shipped for q, _, _ in c["dialogs"] if q.startswith("/") and q.endswith("/")}),
        "shipped_cases_with_unmodelled_question": sum(1 for j in res["modelled"] if cases[j]["kind"] == "shipped"),
        "shipped_regex_questions_in_unmodelled_cases": unm_sh,
        "synthetic_cases_with_unmodelled_text": sum(1 for j in res["modelled"] if cases[j]["kind"] == "synthetic"),
        "contents_answered": sum(1 for o in outs for r in o["runs"] if r["answer"] is not None),
        "contents_unanswered": sum(1 for o in outs for r in o["runs"] if r["answer"] is None),
        "disagreements": len(res["agree"]),
    }


# ------------------------------------------------------------------ patches built with do_commit=False

DC_IMPORTS = ("From Annet Require Import Base.Str Base.Tree Model.Pattern Model.Rulebook Model.Diff Model.Order Model.Patch "
              "Model.Blocks Model.Pipeline Model.PatchDC Gen.Src_apply Model.Deploy Spec.P_C09 Spec.P_C09DC.")
DC_CLAUSES = {
    "dc_rows": ("c9_dc_rows", "the patch built with do_commit=False holds a row that is not a row the diff offers to a rule "
                              "without %force_commit (a `commit` row added after a %force_commit row, or the row of a "
                              "%force_commit rule itself, at some depth)"),
    "dc_paths": ("c9_dc_paths", "cmd_paths of the do_commit=False patch hold a commit-class command that is not a row of the diff"),
    "dc_stream": ("c9_dc_stream", "a commit-class command that is not a row of the diff is sent although do_commit is False"),
}
DC_AGREE = {"dc_patch_true": "agree_dc_true", "dc_patch_false": "agree_dc_false", "dc_paths": "agree_dc_paths"}


def raise_force_commit(rng, c: dict, p=None) -> int:
    """%force_commit on rules of a pipeline case at ANY depth (harness/pipeline.py sets it with probability 0.03 per rule);
    at least one nested rule when the rulebook has one.  Returns the number of %force_commit rules."""
    p = rng.choice([0.15, 0.3, 0.5]) if p is None else p
    nested = []

    def walk(rs, depth):
        for r in rs:
            if r["ign"]:
                continue
            if rng.random() < p:
                r["force_commit"] = True
            if depth > 0:
                nested.append(r)
            if not r["glob"]:
                walk(r["kids"], depth + 1)
    walk(c["rules"], 0)
    if nested:
        rng.choice(nested)["force_commit"] = True
    c["patching"] = P.rules_text(c["rules"])
    return sum(1 for r in flatten_rules(c["rules"]) if r["force_commit"] and not r["ign"])


def add_commit_rows(rng, c: dict) -> None:
    """a configuration row that IS `commit` (its own rule, no %force_commit), at top level and inside blocks: the one
    way a commit row may appear in a patch built with do_commit=False"""
    rule = {"pat": "commit", "ign": False, "glob": False, "logic": "default", "mode": "", "parent": False,
            "force_commit": False, "kids": []}
    if rng.random() < 0.6:
        c["rules"].append(dict(rule))
        tgt = rng.choice(["new", "old", "new"])
        c[tgt] = dict(c[tgt], commit={})
    blocks = [r for r in c["rules"] if r["kids"] and not r["ign"] and not r["glob"]]
    if blocks:
        r = rng.choice(blocks)
        if all(k["pat"] != "commit" for k in r["kids"]):
            r["kids"].append(dict(rule))
        new = {}
        for row, kids in c["new"].items():
            if P.rule_for(row, c["rules"]) is r and rng.random() < 0.7:
                kids = dict(kids, commit={})
            new[row] = kids
        c["new"] = new
    c["patching"] = P.rules_text(c["rules"])


def gen_dcpipe(rng) -> dict:
    c = P.gen_case(rng, vendors=P.BLOCK_VENDORS)
    x = rng.random()
    nfc = raise_force_commit(rng, c) if x < 0.9 else sum(1 for r in flatten_rules(c["rules"]) if r["force_commit"])
    if rng.random() < 0.2:
        add_commit_rows(rng, c)
    pats = [r["pat"] for r in flatten_rules(c["rules"]) if not r["ign"] and plain_pat(r["pat"])]
    drules = gen_drules(rng, base_pats=pats or None) if rng.random() < 0.6 else []
    return {"kind": "dcpipe", "vendor": c["vendor"], "rules": c["rules"], "orules": c["orules"], "old": c["old"], "new": c["new"],
            "patching": c["patching"], "ordering": c["ordering"], "deploying": drules_text(drules), "force_commit_rules": nfc}


def dc_payload(c: dict) -> dict:
    return {"vendor": c["vendor"], "deploying": c["deploying"],
            "dcpipe": {k: c[k] for k in ("patching", "ordering", "old", "new")}}


def coq_obsdc(c: dict, o: dict) -> str:
    def patch(x):
        return copt(None if x is None else P.coq_ptree(x))
    runs = clist(cpair(cbool(r["df"]), copt(None if "err" in r else clist(cstr(x) for x in r["cmds"]))) for r in o["runs"])
    return ("(ObsDC " + " ".join([
        P.coq_vendor(c["vendor"]), P.coq_rset(c["rules"]), P.coq_ordering(c["orules"]),
        core.cforest(c["old"]), core.cforest(c["new"]), patch(o["patch_t"]), patch(o["patch_f"]),
        P.coq_paths(o["paths_f"]), runs]) + ")")


def patch_rows(items) -> list:
    return [r for i in items for r in [i["row"]] + patch_rows(i["child"] or [])]


def eval_dcpipe(cases, outs, tag="dcpipe"):
    terms = [coq_obsdc(c, o) for c, o in zip(cases, outs)]
    res = core.run_case_files(ID, "obsdc", DC_IMPORTS, {"ok": "fun o => P_C09DC o && agree_C09DC o"}, terms, per_file=25, tag=tag)
    out = {"ok": res["ok"]}
    for k in list(DC_CLAUSES) + ["agree_" + a for a in DC_AGREE]:
        out[k] = []
    failing = res["ok"][:30]
    if failing:
        preds = {k: v[0] for k, v in DC_CLAUSES.items()}
        preds.update({"agree_" + a: f for a, f in DC_AGREE.items()})
        det = core.run_case_files(ID, "obsdc", DC_IMPORTS, preds, [terms[j] for j in failing], per_file=5, tag=tag + "_detail")
        for k, v in det.items():
            out[k] = sorted(failing[j] for j in v)
    return out


def run_dcpipe(ctx) -> dict:
    """`annet deploy --dont-commit`: _diff_and_patch(do_commit=False) -> cmd_paths -> apply_deploy_rulebook(do_commit=False)
    on rulebooks with %force_commit rules at any depth, against Model/PatchDC.v; clauses of Spec/P_C09DC.v on the real outputs"""
    rng = ctx.rng("c09-dcpipe")
    n = 1500 if ctx.thorough else 170
    cases = [gen_dcpipe(rng) for _ in range(n)]
    outs = core.run_impl_sharded("c09_runner.py", [dc_payload(c) for c in cases])
    bad = [i for i, o in enumerate(outs) if "fatal" in o or any("err" in r and r["err"] != "send_nl" for r in o.get("runs", []))]
    for i in bad[:1]:
        err = outs[i].get("fatal") or [r["err"] for r in outs[i]["runs"] if "err" in r][0]
        ctx.add_violation(core.Violation(
            signature="C09/implementation-raised",
            what="_diff_and_patch / apply_deploy_rulebook with do_commit=False raised an unexpected exception: " + str(err)[-400:],
            replay={"case": cases[i], "impl": outs[i], "dc_case": True}))
    keep = [i for i in range(len(cases)) if i not in set(bad)]
    kc, ko = [cases[i] for i in keep], [outs[i] for i in keep]
    res = eval_dcpipe(kc, ko)
    reported = set()
    for j in res["ok"]:
        failed = [k for k in DC_CLAUSES if j in res[k]]
        if failed and signature(failed) not in reported:
            reported.add(signature(failed))
            ctx.add_violation(core.Violation(signature=signature(failed), what="; ".join(DC_CLAUSES[k][1] for k in failed),
                                             replay={"case": kc[j], "impl": ko[j], "dc_case": True, "clauses": failed}))
    if not reported:
        for a in DC_AGREE:
            for j in res["agree_" + a][:1]:
                ctx.add_violation(core.Violation(
                    signature=f"C09/model-impl-disagree/{a}",
                    what=f"Coq model (Model/PatchDC.v) and implementation differ on '{a}' (correspondence broken); the "
                         f"do_commit=False clauses hold on every implementation output explored",
                    replay={"case": kc[j], "impl": ko[j], "dc_case": True, "correspondence": a}, no_input=True))
    # measured: how often the flag matters, and where
    differs = nested = genuine = asserted = 0
    depth_hist: dict = {}
    for c, o in zip(kc, ko):
        if o["patch_t"] is None or o["patch_f"] is None:
            asserted += 1
            continue
        rt, rf = patch_rows(o["patch_t"]), patch_rows(o["patch_f"])
        differs += rt != rf
        genuine += "commit" in rf

        def commit_depths(items, d=0):
            for i in items:
                if i["row"] == "commit":
                    yield d
                yield from commit_depths(i["child"] or [], d + 1)
        ds = set(commit_depths(o["patch_t"]))
        nested += any(d > 0 for d in ds)
        for d in ds:
            depth_hist[d] = depth_hist.get(d, 0) + 1
    return {"cases": len(cases), "kept": len(keep), "assertion_error_cases": asserted,
            "cases_where_do_commit_changes_the_patch": differs,
            "cases_with_a_commit_row_below_top_level_when_committing": nested,
            "depths_of_commit_rows_when_committing": depth_hist,
            "cases_with_a_genuine_commit_row_under_dont_commit": genuine,
            "force_commit_rules_histogram": {str(k): sum(1 for c in cases if min(c["force_commit_rules"], 6) == k) for k in range(7)},
            "disagreements": sum(len(res["agree_" + a]) for a in DC_AGREE)}


def default_timeout_ms() -> int:
    txt = (core.COQ / "Gen" / "Src_apply.v").read_text()
    return int(re.search(r"default_timeout_s : nat := (\d+)%nat", txt).group(1)) * 1000


def run(ctx):
    core.proof_stage(ctx, THEOREM_FILE)
    atoms, opaque = table_atoms()
    default_ms = default_timeout_ms()
    all_vendors = SHIPPED + [v for v in BLOCK_VENDORS if v not in SHIPPED]
    rendered = core.run_impl("c09_runner.py", [{"render": v} for v in all_vendors])
    shipped_rules, unmodelled = {}, {}
    for v, r in zip(all_vendors, rendered):
        if "fatal" in r:
            raise core.CheckFailure("c09 runner failed to render the shipped deploy rulebook: " + r["fatal"][-600:])
    ensure_modelled(p for r in rendered for p in compiled_pats(r["compiled"]))
    UNMODELLED.clear()
    for v, r in zip(all_vendors, rendered):
        um: list = []
        shipped_rules[v] = {"rules": rules_of_compiled(r["compiled"], um)}
        if um:
            unmodelled[v] = um
            UNMODELLED[v] = um
    dlg = run_dialogs(ctx, dict(zip(all_vendors, rendered)))
    dcp = run_dcpipe(ctx)
    cases = gen_cases(ctx, shipped_rules)
    # the shipped before/after corpus of tests/annet/test_patch (block-structured vendors), shipped rulebooks
    names = core.run_impl("c09_runner.py", [{"corpus_names": True}])[0]
    if "names" not in names:
        raise core.CheckFailure("c09 runner failed to load the shipped corpus: " + str(names)[-600:])
    corpus = [{"kind": "corpus", "vendor": v, "corpus": n, "deploying": None, "drules": []}
              for n, v in names["names"] if v in BLOCK_VENDORS]
    cases = witness_cases(shipped_rules) + corpus + cases
    outs = core.run_impl_sharded("c09_runner.py", [payload(c, atoms, opaque) for c in cases])
    n_ftp = 0
    for c, o in zip(cases, outs):
        if c["kind"] == "corpus" and "compiled" in o:
            ensure_modelled(compiled_pats(o["compiled"]))
            c["drules"] = rules_of_compiled(o["compiled"], [])
        if o.get("touches_unmodelled"):
            o["skip"] = "a command row is matched by a shipped deploy rule outside the modelled rule language"
            n_ftp += 1
    bad = [i for i, o in enumerate(outs) if "fatal" in o or any("err" in r and r["err"] != "send_nl" for r in o.get("runs", []))]
    for i in bad[:1]:
        err = outs[i].get("fatal") or [r["err"] for r in outs[i]["runs"] if "err" in r][0]
        ctx.add_violation(core.Violation(
            signature="C09/implementation-raised",
            what="formatter / apply_deploy_rulebook raised an unexpected exception: " + str(err)[-400:],
            replay={"case": cases[i], "impl": outs[i]}))
    keep = [i for i, o in enumerate(outs) if i not in set(bad) and "skip" not in o]
    kc, ko = [cases[i] for i in keep], [outs[i] for i in keep]
    res = evaluate(kc, ko, default_ms)

    def rep(j):
        return {"case": kc[j], "impl": ko[j]}

    reported = set()
    other_failures = False
    for j in res["holds"]:
        failed = [k for k in CLAUSES if j in res[f"cl_{k}"]]
        groups = []
        if "raised" in failed:
            groups.append(["raised"])
        rest = [k for k in failed if k != "raised"]
        if rest:
            groups.append(rest)
            other_failures = True
        for g in groups:
            sig = signature(g)
            if sig in reported:
                continue
            reported.add(sig)
            ctx.add_violation(core.Violation(signature=sig, what="; ".join(WHAT[k] for k in g), replay=dict(rep(j), clauses=g)))
    if not other_failures:
        for a in AGREE:
            for j in res[f"agree_{a}"][:1]:
                ctx.add_violation(core.Violation(
                    signature=f"C09/model-impl-disagree/{a}",
                    what=f"Coq model and implementation differ on '{a}' (correspondence broken); P_C09 holds on every "
                         f"implementation output explored",
                    replay=dict(rep(j), correspondence=a), no_input=True))
    # the witnesses of the refuted statements / examples must behave on the real code as the theorems say
    default_ms = default_timeout_ms()
    for j, c in enumerate(kc):
        if c["kind"] != "witness":
            continue
        o = ko[j]
        ok = True
        if c["witness"] in ("C09_dup_refuted", "C09_dup_exit_refuted"):
            ok = j in res["wf"] and j in res["collapsed"] and len(o["paths"]) < len(o["lines"])
        elif c["witness"] == "C09_first_match_refuted":
            # the code descends into the *last* matching sibling: the peer command gets 11 s, not 7 s
            ok = [x["timeout_ms"] for x in o["runs"][0].get("cmds", []) if x["cmd"] == "peer x"] == [11000]
        elif c["witness"] == "known:send_nl":
            ok = all(r.get("err") == "send_nl" for r in o["runs"])
        elif c["witness"] == "C09_last_element_insufficient":
            # the two `shutdown` commands: defaults under the interface, the nested rule's 120 s + dialog under bgp
            ok = [(x["timeout_ms"], len(x["questions"])) for x in o["runs"][0].get("cmds", []) if x["cmd"] == "shutdown"] \
                == [(default_ms, 0), (120000, 1)]
        elif c["witness"] == "ex2_deploy":
            r11 = [r for r in o["runs"] if r["dc"] and r["df"]][0]
            ok = [x["cmd"] for x in r11.get("cmds", [])] == EX2_STREAM and \
                [x["timeout_ms"] for x in r11.get("cmds", []) if x["cmd"] == "write memory"] == [45000] * 3
        if not ok:
            ctx.add_violation(core.Violation(
                signature=f"C09/witness-not-reproduced/{c['witness']}",
                what=f"the witness of {c['witness']} no longer behaves on the real code as the theorem / known finding says",
                replay=dict(rep(j), witness=c["witness"]), no_input=True))
    # ---- coverage
    seen, nt = set(), 0
    hist_kind, hist_vendor, hist_depth = {}, {}, {}
    n_raise = 0
    for c, o in zip(kc, ko):
        hist_kind[c["kind"]] = hist_kind.get(c["kind"], 0) + 1
        hist_vendor[c["vendor"]] = hist_vendor.get(c["vendor"], 0) + 1
        d = patch_depth(o["patch"])
        hist_depth[d] = hist_depth.get(d, 0) + 1
        n_raise += any("err" in r for r in o["runs"])
        h = core.canon_hash([c["vendor"], c["deploying"], o["patch"]])
        if h in seen:
            continue
        seen.add(h)
        matched = any(cmd["questions"] or cmd["timeout_ms"] != default_ms
                      for r in o["runs"][:1] for cmd in r.get("cmds", []))
        if d >= 2 and len(o["paths"]) >= 3 and (matched or c["kind"] != "synthetic" or not c["drules"]):
            nt += 1
    # number of sessions (maximal runs of one wrapper) per command stream, and twin cases where one command text got
    # different parameters under different paths
    sess_hist: dict = {}
    n_twin_diff = 0
    for c, o in zip(kc, ko):
        r0 = next((r for r in o["runs"] if "cmds" in r and r["dc"] and r["df"]), None)
        if r0 is None or not r0["cmds"] or r0["common"] is None:
            continue
        # wrapper commands in the stream; more than the longer of the two wrappers => at least two sessions
        extra = len(r0["cmds"]) - len(o["paths0"])
        several = extra > max(len(w[0]) + len(w[1]) for w in (r0["common"], r0["ap_env"]))
        if c["kind"] in ("sessions", "shipped", "synthetic"):
            key = c["kind"] + (":several_sessions" if several else ":one_session")
            sess_hist[key] = sess_hist.get(key, 0) + 1
        if c["kind"] == "twin":
            seen_p: dict = {}
            for x in r0["cmds"]:
                seen_p.setdefault(x["cmd"], set()).add((x["timeout_ms"], json.dumps(x["questions"])))
            n_twin_diff += any(len(v_) > 1 for v_ in seen_p.values())
    outside = [j for j in res["wf"]]
    collapsed = [j for j in res["collapsed"]]
    ctx.coverage.update({
        "evaluations": sum(len(c.get("combos", COMBOS)) for c in cases) + dcp["cases"] * 2,
        "cases": len(cases),
        "distinct_nontrivial": nt,
        "rule": "PatchTrees: synthetic (depth<=4, empty child trees, vendor block headers, item contexts), from the real "
                "_diff_and_patch on random rulebooks/config pairs, and around the shipped deploy rules; deploy rulebooks: random "
                "(nesting<=3, *, ~, %timeout, dialogs, %ifcontext, %apply_logic, %send_nl) via compile_deploying_text and the "
                "shipped *.deploy; every case under all four (do_commit, do_finalize), the _diff_and_patch family as two "
                "observations (patch built with do_commit=True / False, deployed with the same flag); distinct by (vendor, deploy "
                "rulebook, patch); non-trivial = nesting >= 2, >= 3 commands, and (for synthetic rulebooks) some command matched a "
                "rule; plus the --dont-commit family (coverage.dont_commit_patches: %force_commit at any depth, measured how often "
                "the flag changes the patch and at which depths the commit rows sit)",
        "samples": [rep(j) for j in range(min(2, len(kc)))],
        "traces_validated_against_impl": sum(len(cases[i].get("combos", COMBOS)) for i in keep) + dcp["cases"] * 2,
        "disagreements_checked": sum(len(res[f"agree_{a}"]) for a in AGREE),
        "kind_histogram": hist_kind, "vendor_histogram": hist_vendor, "patch_depth_histogram": hist_depth,
        "patches_with_empty_block": sum(1 for o in ko if has_empty_block(o["patch"])),
        "patch_size_max": max((patch_size(o["patch"]) for o in ko), default=0),
        "pipeline_cases_skipped_assertion_error": sum(1 for o in outs if "skip" in o),
        "outside_domain_equal_sibling_rows": len(outside),
        "outside_domain_shown_twice_sent_once": len(collapsed),
        "outside_domain_examples": [{"vendor": kc[j]["vendor"], "lines": ko[j]["lines"], "paths": [p for p, _ in ko[j]["paths"]]}
                                    for j in collapsed[:2]],
        "runs_raising_send_nl": n_raise,
        "unmodelled_shipped_rules": unmodelled,
        "refuted_witnesses_replayed_on_real_code": [c["witness"] for c in kc if c["kind"] == "witness"],
        "corpus_samples": sum(1 for c in kc if c["kind"] == "corpus"),
        "cases_skipped_touching_unmodelled_rules": n_ftp,
        "corpus_samples_skipped": {"no_patch": sum(1 for c, o in zip(cases, outs) if c["kind"] == "corpus" and "skip" in o
                                                   and not o.get("touches_unmodelled"))},
        "sessions_histogram": sess_hist,
        "twin_cases_same_text_different_params": n_twin_diff,
        "dialogs": dlg,
        "dont_commit_patches": dcp,
        "corpus_instances_outside_domain": [
            {"sample": kc[j]["corpus"], "vendor": kc[j]["vendor"], "shown_lines": len(ko[j]["lines"]),
             "sent_commands": len(ko[j]["paths"]),
             "repeated": sorted({r for lv_, r in ko[j]["lines"] if [x[1] for x in ko[j]["lines"]].count(r) > 1})[:6]}
            for j in outside if kc[j]["kind"] == "corpus"],
    })
    ctx.assumptions += [
        "deploy-rule rows are read with the extended rule language of Model/PatternY.v (C07); rows outside it are listed in "
        "coverage.unmodelled_shipped_rules and cases touching them are skipped",
        "dialog questions written as /re/ are modelled when every blank-separated word is a one-word regexp of Model/Pattern.v; "
        "ASCII texts only",
        "hardware flags of the canonical model strings are read from the real HardwareView (C18 covers the resolution)",
        "the `timeout=` given to Command() inside apply() is always overwritten by fill_cmd_params and is not modelled",
        "do_commit=False patches: the six common logics of Model/Patch.v; a vendor logic that sets rule['force_commit'] itself "
        "(huawei.bgp.undo_commit) is not modelled",
    ]


def replay(ctx, doc):
    atoms, opaque = table_atoms()
    c = doc["replay"]["case"]
    if doc["replay"].get("dialog_case"):
        out = core.run_impl("c09_runner.py", [{k: c[k] for k in ("dlg", "vendor", "contents")}])[0]
        if "fatal" in out:
            print("impl:", out["fatal"])
            return 1
        res = core.run_case_files(ID, "obsdlg", IMPORTS, {"holds": "holds_dlg", "agree": "fun o => negb (modelled_dlg o) || agree_dlg o"},
                                  [coq_obsdlg(out)], tag="replay_dlg")
        print("impl runs:", [(r["content"], r["answer"], r["hits"]) for r in out["runs"]])
        print("holds:", not res["holds"], "model agrees:", not res["agree"])
        return 1 if res["holds"] or res["agree"] else 0
    if doc["replay"].get("dc_case"):
        out = core.run_impl("c09_runner.py", [dc_payload(c)])[0]
        if "fatal" in out:
            print("impl:", out["fatal"])
            return 1
        res = eval_dcpipe([c], [out], tag="replay_dc")
        failed = [k for k in DC_CLAUSES if res[k]]
        print("patch (do_commit=True): ", out["patch_t"] and patch_rows(out["patch_t"]))
        print("patch (do_commit=False):", out["patch_f"] and patch_rows(out["patch_f"]))
        print("streams (do_commit=False):", [r.get("err") or r["cmds"] for r in out["runs"]])
        print("holds:", not failed, "failed clauses:", failed, "model agrees:", {a: not res["agree_" + a] for a in DC_AGREE})
        return 1 if failed else 0
    if c.get("deploying") is None:
        rr = core.run_impl("c09_runner.py", [{"render": c["vendor"]}])[0]
        ensure_modelled(compiled_pats(rr.get("compiled", [])))
        um: list = []
        rules_of_compiled(rr.get("compiled", []), um)
        UNMODELLED[c["vendor"]] = um
    out = core.run_impl("c09_runner.py", [payload(c, atoms, opaque)])[0]
    if "fatal" in out:
        print("impl:", out["fatal"])
        return 1
    res = evaluate([c], [out], default_timeout_ms(), tag="replay")
    failed = [k for k in CLAUSES if res[f"cl_{k}"]]
    print("impl runs:", [r.get("err") or [(x["cmd"], x["level"]) for x in r["cmds"]] for r in out["runs"]])
    print("holds:", not res["holds"], "failed clauses:", failed, "model agrees:", {a: not res[f"agree_{a}"] for a in AGREE})
    return 1 if res["holds"] else 0
