"""C04 — vendor text and config trees round-trip for every supported vendor (DESIGN §3.C04)."""
from __future__ import annotations

import json

import collections

from .. import core
from ..core import cstr, clist, cpair, cnat

ID = "C04"
THEOREM_FILE = "Properties/C04.v"
IMPORTS = "From Annet Require Import Base.Str Base.Tree Model.Offside Gen.Src_vendors Model.Join Spec.P_C04."
TY = "(string * string * forest) * outcome"
META = {
    "text": "Proof (Coq, unbounded depth/width, any indent string of >=1 blanks, any tree with unique sibling rows): "
            "parse_to_tree(split_v(join_v(t))) = t and the fixed point join(parse(join t)) = join t for all three "
            "formatter families - plain indentation (pc, optixtrans, huawei, h3c, nexus, iosxr, arista, aruba, b4com, "
            "cisco), braces (juniper, ribbon, nokia) and RouterOS (section words, then leaf rows; for the formatter "
            "that takes the section path from context.row) - on rows satisfying the per-vendor boolean wf_row (no "
            "delimiter the vendor's split strips: policy-end words, braces/semicolons, comment openers, the configure "
            "wrapper, double blanks where split collapses them). The proofs rest on the C05 theorem (stack parser = "
            "declarative offside reference) and the rebuild lemma. The vendor table (14 vendors: formatter class, which "
            "class defines join/split/_blocks/blocks_and_context/_formatted_blocks, delimiters, policy-end words, "
            "regex sources, RouterOS context level) is re-read from the repository on every run; a theorem states it "
            "equals the table the property is written over, and C04_holds instantiates the round trip for every one of "
            "the 14 vendors. Correspondence: Coq compares model and real make_formatter(indent).join / "
            "parse_to_tree(text, fmt.split) / re-join outcomes and evaluates the round-trip predicate on the real "
            "outcomes for all 14 vendors (random trees to depth 6 over a vendor-aware alphabet with near-delimiter "
            "words, exhaustive small trees per vendor; a 'source-words' stream: every string constant of the tree's "
            "annet/annlib/tabparser.py and annet/vendors/library/*.py - whatever words the formatters treat specially in "
            "this version of the source - used as a row and as the first words of a block header, for every vendor; and "
            "HISTORIES: for every vendor a fresh interpreter in which that vendor's formatter is the first one used, "
            "followed by all the others (thorough: also reversed and random orders); a case that fails only after other "
            "formatters were used is re-run alone and with the shortest history tried that reproduces it, and reported as "
            "round-trip-depends-on-formatters-used-before with that history).",
    "technique": "Coq induction over forests on top of the C05 offside theorem and the rebuild lemma; generated vendor "
                 "table; vm_compute differential check against the real formatters",
    "note": "Guards (each with a refutation witness replayed on the real code): Cisco rows starting with "
            "address-family (non-default block exit) - join emits no exit-address-family and split shifts every later "
            "line (C04_cisco_af_refuted; open finding, no small repair); RouterOS sub-sections while the source takes "
            "the section path from context.parent (C04_ros_parent_ctx_refuted; open finding with repair "
            "fixes/C04-routeros-join-section-path.patch - C04_ros proves the repaired variant, the model follows "
            "whichever variant the source has, sections holding only rows are proved for both). The join/split "
            "algorithms are tied to the code by the correspondence run only (testing); Juniper comment rows "
            "(/* json */), RouterOS /file and /user ssh-keys post-processing and is_patch=True paths are not modelled. "
            "Side observation (not C04): Cisco/Nexus/ASR/Arista/Aruba/B4com formatters pass `indent` positionally into "
            "no_block_exit, so their join always indents by two blanks whatever indent is requested.",
}

SIG_CISCO = "C04/cisco/address-family-block-not-closed-by-exit-address-family"
SIG_ROS = "C04/routeros/nested-section-rendered-without-parent-path"

VENDORS = ["huawei", "h3c", "optixtrans", "cisco", "nexus", "iosxr", "arista", "aruba", "b4com",
           "juniper", "ribbon", "nokia", "routeros", "pc"]

SAFE = ["a", "b", "c", "d", "x y", "int Eth1", "int Eth2", "ip 10.0.0.1/24", "descr x y z",
        "mtu 9000", "vlan 10", "peer 1.1.1.1", "set k=v", "no shut", "undo stp", "router bgp 1",
        "nei 10.0.0.2", "policy", "term t1", "from bgp", "then accept", "q-w_e.r:t"]
NEAR_COMMON = ["exit", "quit", "end", "#tag", "# c", "!", "!x", "a  b", "a   b c", "x #y", "x !y", "a\tb", "return"]
NEAR = {
    "huawei": ["end-list", "endif", "end-filter", "end-filterx", "xpl route-filter F", "if x then", "else", "x endif"],
    "h3c": ["end-list", "endif", "end-filter", "xpl ip-prefix-list L", "x end-list"],
    "iosxr": ["end-set", "endif", "end-policy", "x end-policy", "route-policy P", "prefix-set S", "if a then", "endif x",
              "a endif"],
    "cisco": ["address-family ipv4", "address-family ipv6 unicast", "exit-address-family", "address-familyX",
              "xaddress-family", "address-family"],
    "juniper": ["}", "{", ";", "a;", "a {", "a }", "a { }", "x; ## c", "x ##", "a */", "/* c */", "a {\t# c",
                "[ a b ]", "b;;", "x } y", "inactive: a", "x; # SECRET-DATA", "a{b}"],
    "routeros": ["/sec", "file", "user", "ssh-keys", "add name=x", "print file=f", "a/b", "sec-1"],
}
NEAR["ribbon"] = NEAR["juniper"]
NEAR["nokia"] = NEAR["juniper"] + ["configure", "configure x"]
for _v in ("nexus", "arista", "aruba", "b4com"):
    NEAR[_v] = ["address-family ipv4", "exit-address-family", "end-policy"]
NEAR["optixtrans"] = ["end-list", "a {", "}"]
NEAR["pc"] = ["}", ";", "address-family ipv4", "end-policy"]
MALFORMED = [" lead", "trail ", "  two", "t\t"]

INDENTS = ["  ", "  ", "  ", " ", "    ", "\t", " \t", "   "]

ROS_WORDS = ["interface", "bridge", "port", "ip", "address", "route", "system", "identity", "user", "group", "aaa",
             "x-y", "snmp", "community"]
ROS_LEAVES = ["add name=x", "add name=y disabled=no", "set a=b", "set [ find default=yes ] k=v", "add address=10.0.0.1/24",
              "remove 1", "x", "add comment=a\\", "set note=x\\y \\"]      # rows ending in a backslash are rows, not wrapped lines


# --------------------------------------------------------------------------------------
# generators (trees are lists of [row, kids])


def rand_tree(rng, pool, near, p_near, max_depth, depth=0, budget=None):
    budget = budget if budget is not None else [rng.randint(1, 12)]
    out, used = [], set()
    n = rng.randint(1, 4) if depth == 0 else rng.randint(1, 3)
    for _ in range(n):
        if budget[0] <= 0:
            break
        row = rng.choice(near) if (near and rng.random() < p_near) else rng.choice(pool)
        if row in used:
            continue
        used.add(row)
        budget[0] -= 1
        kids = []
        if depth + 1 < max_depth and rng.random() < (0.55 if depth < 3 else 0.4):
            kids = rand_tree(rng, pool, near, p_near, max_depth, depth + 1, budget)
        out.append([row, kids])
    return out


def chain_tree(rng, pool, depth):
    rows = rng.sample(pool, min(depth, len(pool)))
    t = []
    for r in reversed(rows):
        t = [[r, t]] + ([[rng.choice(pool) + " s", []]] if rng.random() < 0.5 else [])
    return t


def ros_tree(rng, depth=0, line=()):
    out, used = [], set()
    for _ in range(rng.randint(1, 3)):
        w = rng.choice(ROS_WORDS)
        if w in used:
            continue
        used.add(w)
        out.append([w, ros_body(rng, 1)])
        twin(rng, out, used)
    return out


def twin(rng, out, used):
    """neighbouring sections with EQUAL contents (RosFormatter groups adjacent rows whose children compare equal)"""
    if rng.random() < 0.3:
        w2 = rng.choice(ROS_WORDS)
        if w2 not in used:
            used.add(w2)
            out.append([w2, json.loads(json.dumps(out[-1][1]))])


def ros_body(rng, depth):
    out, used = [], set()
    for _ in range(rng.randint(1, 4)):
        if depth < 4 and rng.random() < 0.35:
            w = rng.choice(ROS_WORDS)
            if w in used:
                continue
            used.add(w)
            out.append([w, ros_body(rng, depth + 1)])
            twin(rng, out, used)
        else:
            r = rng.choice(ROS_LEAVES)
            if r in used:
                continue
            used.add(r)
            out.append([r, []])
    return out or [["set a=b", []]]


def cisco_balanced(rng):
    """the shape device configs have: every address-family block ends with exit-address-family"""
    def af(i):
        kids = [[r, []] for r in rng.sample(["nei 10.0.0.2 activate", "network 10.0.0.0", "redist static", "x"], rng.randint(0, 3))]
        return [f"address-family ipv{i}", kids + [["exit-address-family", []]]]
    body = [[r, []] for r in rng.sample(SAFE, rng.randint(0, 3))]
    body += [af(i) for i in rng.sample([4, 6], rng.randint(1, 2))]
    if rng.random() < 0.5:
        body.append(["nei 10.9.9.9 shut", []])
    top = [["router bgp 1", body]]
    if rng.random() < 0.6:
        top.append([rng.choice(SAFE[:6]), []])
    if rng.random() < 0.3:
        top.insert(0, ["int Eth9", [["mtu 1500", []]]])
    return top


def forests(n, rows, avail=None):
    """all forests with exactly n nodes, sibling rows distinct, rows from `rows`"""
    avail = rows if avail is None else avail
    if n == 0:
        yield []
        return
    for r in avail:
        rest_avail = [x for x in avail if x != r]
        for k in range(n):
            for sub in forests(k, rows):
                for rest in forests(n - 1 - k, rows, rest_avail):
                    yield [[r, sub]] + rest


EXH_ROWS = {
    "cisco": ["a", "address-family ipv4", "exit-address-family"],
    "iosxr": ["a", "end-policy", "x endif"],
    "huawei": ["a", "endif", "quit"],
    "h3c": ["a", "end-list x", "b"],
    "juniper": ["a", "b;", "}"],
    "ribbon": ["a", "b {", "c */"],
    "nokia": ["a", "configure", "b;"],
    "routeros": ["ip", "address", "add a=1"],
}


def source_words() -> list[str]:
    """The string constants (docstrings excluded) of the formatter module and of the vendor modules of the tree
    under test, stripped: the words the formatters themselves treat specially - block-exit dispatch prefixes,
    policy-end words, wrappers, delimiters - whatever they are in this version of the source.  Used as ROWS (alone
    and as the first words of a longer row), so that a word the code starts to treat specially is exercised
    without the harness knowing it."""
    import ast
    files = [core.REPO / "annet" / "annlib" / "tabparser.py"] + sorted((core.REPO / "annet" / "vendors" / "library").glob("*.py"))
    words: set[str] = set()
    for f in files:
        try:
            mod = ast.parse(f.read_text())
        except (OSError, SyntaxError):
            continue
        docs = set()
        for n in ast.walk(mod):
            if isinstance(n, (ast.FunctionDef, ast.AsyncFunctionDef, ast.ClassDef, ast.Module)) and n.body and \
                    isinstance(n.body[0], ast.Expr) and isinstance(n.body[0].value, ast.Constant):
                docs.add(id(n.body[0].value))
        for n in ast.walk(mod):
            if isinstance(n, ast.Constant) and isinstance(n.value, str) and id(n) not in docs:
                w = n.value.strip()
                if w and len(w) <= 40 and all(32 <= ord(ch) <= 126 for ch in w):
                    words.add(w)
    return sorted(words)


def dictionary_cases(rng, words):
    """per vendor and source word w, one tree: `w X1` as a block header with a child, a following sibling and a
    shallower row after it; and, in the next block, w alone as a leaf followed by a sibling"""
    for v in VENDORS:
        for w in words:
            a, b, c, d, e, f = rng.sample(SAFE, 6)
            yield v, [[a, [[w + " X1", [[b, []]]], [c, []]]], [d, [[w, []], [e, []]]], [f, []]]


def sessions(ctx) -> list[list[dict]]:
    """History: every list is run by ONE fresh interpreter, in order.  For every vendor a session in which that
    vendor's formatter is the first one used, followed by all the others (state a formatter leaves on a class or
    a module - caches, compiled tables - would be built from the first user's attributes); thorough: also the
    reversed orders and random permutations."""
    rng = ctx.rng("sessions")
    orders = [VENDORS[k:] + VENDORS[:k] for k in range(len(VENDORS))]
    if ctx.thorough:
        orders += [list(reversed(o)) for o in orders]
        for _ in range(30):
            o = list(VENDORS)
            rng.shuffle(o)
            orders.append(o)
    out = []
    for o in orders:
        ses = []
        for v in o + o[:2]:
            t = ros_tree(rng) if v == "routeros" else rand_tree(rng, SAFE, [], 0.0, 4)
            ses.append({"vendor": v, "indent": rng.choice(INDENTS[:5]), "tree": t, "src": "session"})
        out.append(ses)
    return out


def depth(t):
    return 0 if not t else 1 + max(depth(k) for _, k in t)


def nodes(t):
    return sum(1 + nodes(k) for _, k in t)


def gen_cases(ctx) -> list[dict]:
    rng = ctx.rng("gen")
    cases = []

    def add(v, ind, tree, src):
        cases.append({"vendor": v, "indent": ind, "tree": tree, "src": src})

    n_struct = 200 if ctx.thorough else 30
    n_near = 160 if ctx.thorough else 25
    for v in VENDORS:
        near = NEAR.get(v, []) + NEAR_COMMON
        for _ in range(n_struct):
            add(v, rng.choice(INDENTS), rand_tree(rng, SAFE, near, 0.04, 6), "structured")
        for _ in range(n_near):
            add(v, rng.choice(INDENTS), rand_tree(rng, SAFE[:8], near + MALFORMED[:2], 0.4, 5), "near-delimiter")
        for _ in range(12 if ctx.thorough else 4):
            add(v, rng.choice(INDENTS), chain_tree(rng, SAFE, rng.randint(4, 6)), "deep-chain")
        for ind in ("", "--"):
            add(v, ind, rand_tree(rng, SAFE, [], 0.0, 4), "odd-indent")
    for _ in range(400 if ctx.thorough else 60):
        add("routeros", rng.choice(INDENTS), ros_tree(rng), "routeros-sections")
    for _ in range(200 if ctx.thorough else 40):
        add("cisco", rng.choice(INDENTS), cisco_balanced(rng), "cisco-closed-address-family")
    words = source_words()
    for v, t in dictionary_cases(rng, words):
        add(v, "  ", t, "source-words")
    ctx.coverage["source_words"] = {"count": len(words), "first": words[:12]}
    # exhaustive small scope
    n_exh = 0
    reps = ("pc", "huawei", "cisco", "juniper", "routeros")      # one vendor per formatter family / split kind
    for v in VENDORS:
        scopes = []                                              # (rows, max nodes)
        if ctx.thorough:
            scopes.append((["a", "b", "c"], 5 if v == "pc" else 4))
            if v in reps:
                scopes.append((["a", "b"], 6))
            if v in EXH_ROWS:
                scopes.append((EXH_ROWS[v], 5 if v in ("cisco", "juniper", "routeros", "huawei", "iosxr") else 4))
        else:
            scopes.append((["a", "b", "c"], 3 if v in reps else 2))
            if v in EXH_ROWS:
                scopes.append((EXH_ROWS[v], 4 if v in ("cisco", "routeros") else 3))
        for rows, limit in scopes:
            for n in range(1, limit + 1):
                for t in forests(n, rows):
                    add(v, "  ", t, "exhaustive")
                    n_exh += 1
    max_nodes = ("4 (5 for pc and for the cisco/juniper/routeros/huawei/iosxr delimiter alphabets; 6 over 2 rows for one "
                 "vendor per family)") if ctx.thorough else "3 (4 for the cisco and routeros delimiter alphabets)"
    ctx.coverage["input_distribution"] = {
        "streams": dict(collections.Counter(c["src"] for c in cases)),
        "exhaustive_scope": f"all forests with <= {max_nodes} nodes over 3 rows (a safe and a near-delimiter alphabet) per vendor, "
                            f"sibling rows distinct: {n_exh} cases",
    }
    return cases


# --------------------------------------------------------------------------------------
# Coq printing


def cforest_pairs(t) -> str:
    return clist(cpair(cstr(r), "(T " + cforest_pairs(k) + ")") for r, k in t)


def coq_input(c) -> str:
    return cpair(cstr(c["vendor"]), cstr(c["indent"]), cforest_pairs(c["tree"]))


def coq_outcome(o, tree_var=None, tree=None) -> str | None:
    """Coq term for an implementation outcome; shares the join text (and the input tree, when the parsed tree equals
    it) through let-bindings: type-checking the string literals dominates the cost of a case file"""
    if "join_exc" in o:
        return "OJoinRaises"
    p = o["parse"]
    if "ok" in p:
        parsed = tree_var if (tree_var and p["ok"] == tree) else cforest_pairs(p["ok"])
        if o.get("rejoin") is None:
            rj = "None"
        elif o["rejoin"] == o["join"]:
            rj = "(Some t)"
        else:
            rj = f"(Some {cstr(o['rejoin'])})"
        return f"(let t := {cstr(o['join'])} in ORound t (Ok {parsed}) {rj})"
    if "err" in p:
        return f"(ORound {cstr(o['join'])} (Err {cnat(p['err'][0])} {cstr(p['err'][1])}) None)"
    return None


def coq_case(c, o) -> str | None:
    y = coq_outcome(o, "f", c["tree"])
    if y is None:
        return None
    return f"(let f := {cforest_pairs(c['tree'])} in ({cpair(cstr(c['vendor']), cstr(c['indent']), 'f')}, {y}))"


PREDS = {
    "agree": "fun c => match run_vendor (fst (fst (fst c))) (snd (fst (fst c))) (snd (fst c)) with "
             "OUnmodelled => true | m => outcome_eqb m (snd c) end",
    "modelled": "fun c => match run_vendor (fst (fst (fst c))) (snd (fst (fst c))) (snd (fst c)) with "
                "OUnmodelled => false | _ => true end",
    "holds": "fun c => P_C04 (fst c) (snd c)",
    "guarded": "fun c => guard_C04 (fst c)",
    "inwf": "fun c => wf_C04 (fst c)",
}


CHUNK = 4000      # case indices are printed by Coq as unary nat: keep them small


def evaluate(cases, outs, tag="cases"):
    """-> (label -> indices into `cases` where the predicate is false, indices whose outcome Coq cannot express)"""
    idx, terms, odd = [], [], []
    for i, (c, o) in enumerate(zip(cases, outs)):
        term = coq_case(c, o)
        if term is None:
            odd.append(i)
            continue
        idx.append(i)
        terms.append(term)
    out = {k: [] for k in PREDS}
    for k in range(0, len(terms), CHUNK):
        res = core.run_case_files(ID, TY, IMPORTS, PREDS, terms[k:k + CHUNK], per_file=250, tag=f"{tag}{k // CHUNK}")
        for lab, v in res.items():
            out[lab].extend(idx[k + j] for j in v)
    return out, odd


def strip_case(c):
    return {"vendor": c["vendor"], "indent": c["indent"], "tree": c["tree"]}


def signature(c, guarded: bool) -> str:
    if not guarded and c["vendor"] == "cisco":
        return SIG_CISCO
    if not guarded and c["vendor"] == "routeros":
        return SIG_ROS
    return f"C04/{c['vendor']}/round-trip-fails-on-a-well-formed-tree"


def removals(t):
    """every tree obtained by deleting one node (with its subtree) or replacing a node by its children"""
    for i, (r, k) in enumerate(t):
        yield t[:i] + t[i + 1:]
        if k:
            rows = {x for x, _ in t[:i] + t[i + 1:]}
            if not any(x in rows for x, _ in k):
                yield t[:i] + k + t[i + 1:]
        for k2 in removals(k):
            yield t[:i] + [[r, k2]] + t[i + 1:]


def shrink(case, sig_guarded: bool, rounds=8):
    """greedy delta debugging: the implementation and the Coq predicate are re-run on every candidate"""
    cur = case
    for n in range(rounds):
        cands = [dict(cur, tree=t) for t in removals(cur["tree"]) if t]
        if not cands:
            break
        outs = core.run_impl("c04_runner.py", [strip_case(c) for c in cands])
        res, odd = evaluate(cands, outs, tag=f"shrink{n}")
        bad_guard = set(res["guarded"])
        nxt = next((i for i in res["holds"] if (i not in bad_guard) == sig_guarded), None)
        if nxt is None:
            break
        cur = cands[nxt]
    return cur


def _fails(case, out, tag) -> bool:
    res, odd = evaluate([case], [out], tag=tag)
    return bool(res["holds"] or odd)


def history_dependent(case, history):
    """None when the case fails in a fresh interpreter too; else (shortest history tried that reproduces the
    failure, outcome after it, outcome alone).  The real formatters and the Coq predicate are re-run."""
    alone = core.run_impl("c04_runner.py", [case])[0]
    if _fails(case, alone, "hist_alone"):
        return None
    tried = []
    last_of = {}
    for x in history:
        if x["vendor"] != case["vendor"]:
            last_of[x["vendor"]] = x
    for h in [history[:1]] + [[x] for x in last_of.values()] + [history]:
        if not h:
            continue
        if h in tried:
            continue
        tried.append(h)
        out = core.run_impl("c04_runner.py", h + [case])[-1]
        if _fails(case, out, "hist_with"):
            return h, out, alone
    return None


def run(ctx):
    rep = core.proof_stage(ctx, THEOREM_FILE)
    gen = ctx.coverage["gen_tables"]
    if "Src_vendors.v" not in gen:
        # fail closed: the formatter classes / vendor modules no longer have a shape the translator can read.
        # proof_stage has registered the broken obligation and put the reference table in place, so the
        # correspondence below still runs and looks for a concrete tree that no longer round-trips.
        if not (core.COQ / "Gen" / "Src_vendors.v").exists():
            raise core.CheckFailure("vendor table could not be re-read from the repository: "
                                    + str(gen.get("tr_vendors", "tr_vendors produced nothing")))
    reg = core.run_impl("c04_runner.py", {"op": "vendors"})
    if sorted(reg) != sorted(VENDORS):
        ctx.add_violation(core.Violation(
            signature="C04/vendor-registry-changed",
            what=f"registered vendors {sorted(reg)} differ from the 14 the property names",
            replay={"registered": reg}, no_input=True))
    cases = gen_cases(ctx)
    outs = core.run_impl_sharded("c04_runner.py", [strip_case(c) for c in cases])
    # histories: each session is run by one fresh interpreter in the given order; every outcome is judged like
    # any other case (the model and the property know no history)
    from concurrent.futures import ThreadPoolExecutor
    ses = sessions(ctx)
    with ThreadPoolExecutor(max_workers=core.NPROC) as ex:
        ses_outs = list(ex.map(lambda s_: core.run_impl("c04_runner.py", [strip_case(c) for c in s_]), ses))
    # (the sharded run above is a history too: case i ran after the cases i - k*shards of its shard)
    n_sh = min(core.NPROC, max(1, len(cases) // 50))
    n_plain = len(cases)
    hist: dict[int, list] = {}

    def history_of(i):
        if i in hist:
            return hist[i]
        return [strip_case(cases[j]) for j in range(i % n_sh, i, n_sh)]

    for s_, o_ in zip(ses, ses_outs):
        for k, (c, o) in enumerate(zip(s_, o_)):
            hist[len(cases)] = [strip_case(x) for x in s_[:k]]
            cases.append(c)
            outs.append(o)
    ctx.coverage["sessions"] = {"count": len(ses), "cases": len(cases) - n_plain,
                                "first_vendor_of_each": sorted({s_[0]["vendor"] for s_ in ses})}
    res, odd = evaluate(cases, outs)
    unguarded = set(res["guarded"])
    outside = set(res["inwf"])
    unmodelled = set(res["modelled"])

    for i in odd:
        ctx.add_violation(core.Violation(
            signature=f"C04/{cases[i]['vendor']}/parse-raises-unexpected-exception",
            what="parse_to_tree(join(tree), split) raised something other than ParserError",
            replay={"case": strip_case(cases[i]), "impl": outs[i]}))
    reported = set()
    known_open = {k["signature"] for k in core.load_known() if k.get("property") == ID and k.get("status") == "open"}
    for i in res["holds"]:
        sig = signature(cases[i], i not in unguarded)
        if sig in reported:
            continue
        if history_of(i):
            hsig = f"C04/{cases[i]['vendor']}/round-trip-depends-on-formatters-used-before"
            if hsig in reported:
                continue
            dep = history_dependent(strip_case(cases[i]), history_of(i))
            if dep is not None:
                sig = hsig
                reported.add(sig)
                ctx.add_violation(core.Violation(
                    signature=sig,
                    what="a tree of the property's domain round-trips when its vendor's formatter is the first one used "
                         "by the interpreter, and does not (join -> split -> parse_to_tree gives another tree, or "
                         "re-rendering is not a fixed point) after the listed cases of other vendors were run in the "
                         "same process",
                    replay={"case": strip_case(cases[i]), "history": dep[0], "impl": dep[1],
                            "impl_alone": dep[2]}))
                continue
        reported.add(sig)
        # listed findings carry their own minimal example; new ones are shrunk (implementation + Coq predicate re-run)
        small = strip_case(cases[i]) if (sig in known_open or len(reported) > 4) else shrink(strip_case(cases[i]), i not in unguarded)
        out = core.run_impl("c04_runner.py", [strip_case(small)])[0]
        ctx.add_violation(core.Violation(
            signature=sig,
            what="join -> split -> parse_to_tree does not give the tree back (or re-rendering is not a fixed point) "
                 "for a tree of the property's domain",
            replay={"case": strip_case(small), "impl": out, "found_as": strip_case(cases[i])}))
    if not res["holds"] and not odd:
        for i in res["agree"][:1]:
            ctx.add_violation(core.Violation(
                signature="C04/model-impl-disagree",
                what="Coq model (Model/Join.v + Offside) and the real formatter differ on join text, parse outcome or "
                     "re-rendered text; the round-trip predicate holds on all implementation outputs explored",
                replay={"correspondence": "Model.Join.run_vendor vs make_formatter(indent).join / parse_to_tree(text, fmt.split)",
                        "case": strip_case(cases[i]), "impl": outs[i]}, no_input=True))

    seen, nontrivial = set(), 0
    per_vendor = collections.Counter()
    in_domain = collections.Counter()
    dh, nh, ih = collections.Counter(), collections.Counter(), collections.Counter()
    outcomes = collections.Counter()
    for i, (c, o) in enumerate(zip(cases, outs)):
        per_vendor[c["vendor"]] += 1
        dh[depth(c["tree"])] += 1
        nh[min(nodes(c["tree"]), 15)] += 1
        ih[repr(c["indent"])] += 1
        outcomes["join_exc" if "join_exc" in o else next(iter(o["parse"]))] += 1
        if i not in outside:
            in_domain[c["vendor"]] += 1
        h = core.canon_hash(strip_case(c))
        if h in seen:
            continue
        seen.add(h)
        if (i not in outside and depth(c["tree"]) >= 2) or ("parse" in o and "ok" not in o["parse"]):
            nontrivial += 1
    ctx.coverage.update({
        "evaluations": len(cases),
        "distinct_nontrivial": nontrivial,
        "rule": "distinct by (vendor, indent, tree); non-trivial = the tree is in the property's domain (Coq wf_C04) and "
                "has nesting depth >= 2, or the real parse_to_tree raised",
        "samples": [{"input": strip_case(c), "impl": o} for c, o in list(zip(cases, outs))[:3]],
        "traces_validated_against_impl": len(cases) - len(unmodelled) - len(odd),
        "unmodelled_inputs": len(unmodelled),
        "disagreements_checked": len(res["agree"]),
        "per_vendor": dict(per_vendor),
        "in_domain_per_vendor": dict(in_domain),
        "outside_guard": len(unguarded),
        "depth_histogram": dict(sorted(dh.items())),
        "nodes_histogram": dict(sorted(nh.items())),
        "indent_histogram": dict(ih),
        "impl_outcome_histogram": dict(outcomes),
        "exhaustive": False,
    })
    ctx.assumptions += [
        "printable ASCII rows (Python str.strip/split and regex \\s modelled for space, \\t..\\r)",
        "join/split algorithms are tied to the source by the correspondence run (testing); the vendor table, delimiters, "
        "policy-end words and regex sources by the regenerated coq/Gen/Src_vendors.v",
        "not modelled: Juniper comment rows (/* json */), RouterOS _splitter_file/_splitter_user_ssh_keys, is_patch=True paths",
    ]


def replay(ctx, doc):
    c = doc["replay"]["case"]
    history = doc["replay"].get("history") or []
    if history:
        print("history (same interpreter, in this order):", [h["vendor"] for h in history])
    out = core.run_impl("c04_runner.py", [strip_case(h) for h in history] + [strip_case(c)])[-1]
    res, odd = evaluate([c], [out], tag="replay")
    print("impl:", out)
    print("holds:", not res["holds"] and not odd, "agree:", not res["agree"], "in-domain:", not res["inwf"],
          "inside-guard:", not res["guarded"])
    return 1 if (res["holds"] or odd) else 0
