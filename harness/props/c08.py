"""C08 — ordering follows the ordering rulebook and only permutes lines (DESIGN §3.C08)."""
from __future__ import annotations

from .. import core, pipeline as P
from ..core import cforest, copt

ID = "C08"
THEOREM_FILE = "Properties/C08.v"
META = {
    "text": "Proof: a stable-sort library (permutation, sortedness, stability, idempotence, uniqueness, commutation with "
            "filter) instantiated on PatchTree.sort and order_config, and rank theorems for get_order (see "
            "coq/Properties/C08.v). Correspondence: the model's make_patch order and order_config equal the "
            "implementation's; Coq checks on the real outputs that the returned patch is the stable sort of the "
            "unsorted patch by its sort keys at every level, multiset of paths preserved, rank = rule index for "
            "unambiguous matches, order_config permutes/idempotent/keeps unmentioned rows, and that removing an "
            "unrelated top-level row keeps the relative order of the remaining commands.",
    "technique": "Coq proofs about stable insertion sort and get_order; vm_compute checks on real make_patch/order_config outputs",
}
IMPORTS = P.PIPE_IMPORTS + "\nFrom Annet Require Import Spec.P_C03 Spec.P_C08."


def tweak(rng, c, i):
    c = dict(c)
    c["meta_pick"] = rng.randrange(1000) if rng.random() < 0.7 else None
    if not c["orules"]:
        c["orules"] = P.gen_ordering(rng, c["rules"], P.VENDORS[c["vendor"]][0])
        c["ordering"] = P.ordering_text(c["orules"])
    return c


def coq_obs(c, o) -> str:
    s = None if o.get("err") else P.coq_ptree(o["patch"])
    u = None if o.get("patch_unsorted_err") or "patch_unsorted" not in o else P.coq_ptree(o["patch_unsorted"])
    meta = None if "meta_patch" not in o else P.coq_ptree(o["meta_patch"])
    return ("(Obs08 " + " ".join([
        P.coq_vendor(c["vendor"]), P.coq_ordering(c["orules"]), copt(s), copt(u), cforest(c["new"]),
        cforest(o["order_new"]), cforest(o["order_twice"]), P.coq_paths(o.get("cmd_paths", [])), copt(meta)]) + ")")


def run(ctx):
    core.proof_stage(ctx, THEOREM_FILE)
    rng = ctx.rng("c08")
    n = 8000 if ctx.thorough else 900
    cases = [tweak(rng, P.gen_case(rng), i) for i in range(n)]
    outs = core.run_impl_sharded("pipeline_runner.py",
                                 [P.impl_payload(c, c08=True, meta_pick=c["meta_pick"]) for c in cases])
    keep = [i for i, o in enumerate(outs) if "fatal" not in o and "order_new" in o]
    if len(keep) < len(cases):
        i = next(i for i in range(len(cases)) if i not in set(keep))
        raise core.CheckFailure("pipeline runner failed: " + str(outs[i])[:800])
    terms = [f"({P.coq_pcase(cases[i], outs[i])}, {coq_obs(cases[i], outs[i])})" for i in keep]
    CL = ["sorted", "stable_sort_of", "multiset", "rank", "cfg_perm", "cfg_idem", "cfg_unmentioned", "meta"]
    preds = {"holds": "fun x => P_C08 (snd x)",
             "agree_patch": "fun x => agree_patch (fst x)",
             "agree_order_config": "fun x => agree_order_config (snd x)"}
    preds.update({f"cl_{k}": f"fun x => c8_{k} (snd x)" for k in CL})
    res = core.run_case_files(ID, "pcase * obs08", IMPORTS, preds, terms, per_file=40)

    def rep(i):
        return {"case": {k: cases[i][k] for k in ("vendor", "patching", "ordering", "old", "new", "meta_pick")}, "impl": outs[i]}

    for j in res["holds"][:3]:
        failed = [k for k in CL if j in res[f"cl_{k}"]]
        ctx.add_violation(core.Violation(
            signature="C08/" + "+".join(failed),
            what="the real patch / order_config output violates ordering clause(s) " + ", ".join(failed) + " of P_C08",
            replay=dict(rep(keep[j]), clauses=failed)))
    if not res["holds"]:
        for lab in ("agree_patch", "agree_order_config"):
            for j in res[lab][:1]:
                ctx.add_violation(core.Violation(
                    signature=f"C08/model-impl-disagree/{lab}",
                    what=f"Coq model and implementation differ ({lab}); P_C08 holds on all outputs explored",
                    replay=dict(rep(keep[j]), correspondence=lab), no_input=True))
    seen, nt = set(), 0
    for i in keep:
        h = core.canon_hash([cases[i][k] for k in ("vendor", "patching", "ordering", "old", "new")])
        if h in seen:
            continue
        seen.add(h)
        if len(outs[i].get("patch") or []) >= 3 and cases[i]["orules"]:
            nt += 1
    ctx.coverage.update({
        "evaluations": len(cases), "distinct_nontrivial": nt,
        "rule": "random patching + ordering rulebooks (depth<=3, %order_reverse, %global, %scope, reverse-form rules, '~'), "
                "config pairs; distinct by inputs; non-trivial = ordering rulebook non-empty and >= 3 top-level patch items",
        "samples": [rep(i) for i in keep[:2]],
        "traces_validated_against_impl": len(keep),
        "disagreements_checked": len(res["agree_patch"]) + len(res["agree_order_config"]),
        "metamorphic_runs": sum(1 for o in outs if "meta_patch" in o),
    })
    ctx.assumptions += ["list.sort/sorted are stable sorts (CPython guarantee); the model uses stable insertion sort"]


def replay(ctx, doc):
    print(doc["replay"]["case"])
    return 1
