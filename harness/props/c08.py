"""C08 — ordering follows the ordering rulebook and only permutes lines (DESIGN §3.C08)."""
from __future__ import annotations

from .. import core, pipeline as P
from ..core import cforest, copt

ID = "C08"
THEOREM_FILE = "Properties/C08.v"
META = {
    "text": (
        "PROVED for all inputs (Coq, closed under the global context; stated for an arbitrary row matcher, so "
        "independent of the pattern language): "
        "(sort) the tuple comparisons of both sort keys are total preorders; the model's insertion sort permutes, sorts, is "
        "stable, idempotent, commutes with filter, preserves sublists, and is the unique sorted stable permutation, so "
        "modelling list.sort/sorted by it assumes only that they are stable [C08_keys_total_preorder, "
        "C08_stable_sort_unique, Proofs/SortProofs.v]. "
        "(patch) make_patch = recursive stable sort of the patch built without PatchTree.sort (make_patch_u): at every "
        "level a permutation of the unsorted items with children sorted in place under their own parent, multiset of "
        "root-to-command paths unchanged, both fail together, every level sorted, keys are get_order's "
        "[C08_patch_perm, C08_patch_error_iff, C08_patch_sorted, C08_patch_clauses, C08_patch_keys]; no command of "
        "smaller rank stands behind one of larger rank [C08_no_inversion]; deleting items from a level deletes exactly "
        "them from the sorted level [C08_unrelated_items_irrelevant]. "
        "(rank) sibling rules with pairwise disjoint languages (hypothesis over the abstract matcher): get_order "
        "returns the index of the one rule mentioning the row, direction kept, an %order_reverse rule pins a removal it "
        "matches directly at +index and ignores everything else; no rule => 0; exit word => +inf; signed keys: earlier "
        "rule first, removals mirrored and (from the second rule on) before every command, exit last; removal <= "
        "re-creation for one rule; children get the level's %global rules and the matching rule's children "
        "[C08_rank, C08_rank_unmentioned, C08_rank_exit, C08_key_order, C08_undo_before_redo, "
        "C08_children_rules_handed_down]; the reference functions of P_C08 (ref_rank, ref_children) agree with get_order "
        "wherever they are defined and the rank clause of P_C08 holds at every depth of every model patch, children "
        "being ranked under the rules handed down [C08_ref_rank, C08_ref_children, C08_rank_ok]; sort_rec (the "
        "specification of PatchTree.sort) sorts every level stably [C08_resort_clause]. "
        "(order_config) multiset of paths preserved at every depth, every level sorted, idempotent at every depth, "
        "commutes with any filter on row text, and at every depth the rows whose key the reference determines stand in "
        "reference order (earlier rule first, negated rows mirrored and first, exit word last, children under the rules "
        "handed down) [C08_order_config_perm(_level), C08_order_config_sorted, C08_order_config_idem, "
        "C08_unrelated_rows_irrelevant, C08_order_config_rank, C08_cfg_clauses]. "
        "REFUTED (1): 'rows no rule mentions keep their relative order' is false as stated -- an unmentioned row starting "
        "with the negation word sorts before unmentioned commands [C08_unmentioned_stable_refuted, witness replayed on "
        "the real Orderer.order_config, open finding in known/C08.json]; proved instead, for all inputs and without a "
        "guard, what order_config does: the unmentioned rows of the result are the unmentioned negated rows in input "
        "order followed by the other unmentioned rows in input order [C08_unmentioned_exact, "
        "C08_unmentioned_exact_clause -- also evaluated on the real outputs]; hence per kind of row "
        "[C08_unmentioned_stable_partial] and the sentence itself when no unmentioned row is negated "
        "[C08_unmentioned_stable]. Top level of the tree handed to order_config only (deeper levels are covered by "
        "the rank clause, not by this one). "
        "REFUTED (2) and PROVED under the exact guard: 'the relative order of two commands does not depend on unrelated "
        "lines' is false across whole configurations for commands whose keys tie: they keep the diff's order, and "
        "base_diff indexes removed rows by their position in old and the others by their position in new "
        "[C08_unrelated_row_refuted, witness replayed on the real _diff_and_patch, open finding]. PROVED for all "
        "rulebooks, ordering rulebooks, vendors and trees of any depth (model pipeline, Model/Pipeline.v): if the row r "
        "is unrelated in the computable sense meta_guard (Spec/P_C08meta.v: the rules do not know r; or r stands in old "
        "and in new at the same position within its %diff_logic class, is not under rewrite_diff, shares its raw_rule "
        "with no other top-level row, and its removal keeps the first-seen order of the diff logics; r's own subtree "
        "may differ arbitrarily), then make_diff(old-r,new-r) = make_diff(old,new) minus r's entry "
        "[C08_diff_minus_row, C08_base_diff_minus_row], make_pre loses exactly r's group [C08_pre_minus_group], the "
        "unsorted and the sorted patch lose exactly the items of that group with everything else in place "
        "[C08_unsorted_minus_group, C08_patch_minus_group, C08_unrelated_row_patch], hence every two remaining "
        "commands keep their relative order at every depth [C08_unrelated_row, C08_drop_rule_sublist, non-vacuity "
        "C08_unrelated_row_nonvacuous; the finding's witness fails the guard]; the same guard and relation are "
        "evaluated by Coq on the real outputs [clause meta2 = c8_meta_guarded, C08_unrelated_row_clause]. The guard is "
        "sufficient, not necessary: rows present on one side only, or at different positions, or sharing their rule, "
        "are outside it (that class contains the open finding). "
        "NOT proved, only tested: the rank of rows matched by several overlapping rules (best-match by character "
        "weight: outside the property's quantifier); meta_weak outside the guard. "
        "CORRESPONDENCE (testing): on generated patching+ordering rulebooks (depth<=3, %order_reverse, %global, %scope, "
        "negated-form rules) and config pairs, Coq compares the model's sorted patch, unsorted patch and order_config "
        "with the real make_patch (with and without PatchTree.sort) and Orderer.order_config (trees with negated "
        "rows and the exit word), and evaluates P_C08 on the real outputs (sorted, stable sort of the unsorted patch, "
        "path multiset, rank at every depth, the real PatchTree.sort applied to the fully unsorted tree, order_config "
        "permutes / idempotent / reference rank order at every depth / unmentioned rows incl. the exact negated-first "
        "form, metamorphic row removal: the runner's own pick (weak form + known finding) and a second run "
        "(harness/impl/c08_runner.py) whose row is steered towards the guard and whose guard is evaluated by Coq)."),
    "technique": "Coq proofs (induction over lists, patch trees, pre trees, config trees) about stable insertion sort, "
                 "get_order, make_patch, order_config; vm_compute evaluation of P_C08 and of model/implementation "
                 "agreement on real make_patch/order_config outputs",
    "note": "Two open findings (order_config moves unmentioned negated rows first; tied commands follow the diff's "
            "positional order). The theorems are about the model; "
            "the tie to the code is differential testing bounded by the generator. Rules matched ambiguously are not "
            "ranked by the reference. %multiline, comments and vendor %logic functions are not modelled. Shipped *.order "
            "texts: parsed by Coq from the raw lines (Gen/Src_rules.v) and compared with the real compiled ordering rulebook on "
            "every run; C08_rank's guard (pairwise disjoint sibling languages) is NOT established for them: a conservative "
            "literal-word test lists the sibling pairs it cannot separate (evidence: shipped_rules.order_sibling_overlaps; the "
            "list is complete, C08_shipped_overlaps_complete); that the test itself is conservative for the pattern model "
            "(two rules it separates are matched, directly or in reverse form, by no common row) is PROVED of the model "
            "matcher ym for all rules, prefixes and rows (C08_overlap_test_sound; hence unlisted top-level siblings with "
            "meeting scopes share no row, C08_shipped_unlisted_disjoint) - about the pattern model, whose tie to "
            "compile_row_regexp is C07's differential testing. Shipped runs (testing, harness/shipped_run.py): real patches "
            "computed with get_rulebook(hw) over rows instantiated from the shipped *.order rule lines - every "
            "%order_reverse rule of every *.order file: its row without the negation word removed, beside removed and added "
            "rows of other top-level rules - are judged by Coq against the ordering rulebook Coq parses from the RAW lines "
            "(not the one the code compiled): sorted, rank (one rule mentions the row) and the pin clause (Spec/P_C08s.v: "
            "exactly one %order_reverse rule matches the removal directly and no ordinary rule mentions it with a greater "
            "weight => key (+k, direct); PROVED of the model for any matcher: C08_rank_pinned). Weights use the regexp "
            "sources of the pattern model (ysrc); a patch item is read as a removal when its row starts with the negation "
            "word and old/new hold no such row; levels with a rule outside the modelled language are skipped unless a "
            "literal first-word test excludes it; vendor %logic functions emitting negated direct commands are not modelled.",
}
IMPORTS = P.PIPE_IMPORTS + "\nFrom Annet Require Import Spec.P_C03 Spec.P_C08 Spec.P_C08meta."

KNOWN_NEG = "C08/cfg_unmentioned/negated-row-no-rule-mentions"
KNOWN_TIE = "C08/meta/tied-commands-follow-diff-position"
KNOWN = (KNOWN_NEG, KNOWN_TIE)
CL = ["sorted", "stable_sort_of", "multiset", "rank", "cfg_perm", "cfg_idem", "cfg_unmentioned",
      "cfg_unmentioned_kind", "cfg_rank", "resort", "meta", "meta_weak"]
# the guarded metamorphic clause (Spec/P_C08meta.v, c8_meta2): the guard of theorem C08_unrelated_row, evaluated
# by Coq on the case, implies that the real patch of (old - r, new - r) is the real patch of (old, new) without
# the items of r's rule
# ... and what order_config does with unmentioned rows, exactly (C08_unmentioned_exact_clause)
CL2 = {"meta2": "c8_meta2 {C} {M}", "cfg_unmentioned_exact": "c8_cfg_unmentioned_exact {O}"}
TY = "pcase * obs08 * meta_obs"
CASE_KEYS = ("vendor", "rules", "orules", "patching", "ordering", "old", "new", "meta_pick", "order_cfg", "cfg_mode",
             "diff_mode", "meta_row2", "meta2_mode")


def gen_order_cfg(rng, c) -> tuple[dict, str]:
    """The tree handed to order_config.  'plain': the new config; 'neg': plus negations of existing rows
    (mentioned through the reverse form iff the row is mentioned); 'mixed': plus negated rows no rule
    mentions and the vendor's exit word, at any depth."""
    mode = rng.choice(["plain", "plain", "neg", "neg", "mixed"])
    if mode == "plain":
        return c["new"], mode
    rev, ex = P.VENDORS[c["vendor"]][0], P.VENDORS[c["vendor"]][1]

    def crude(row: str, orules: list):
        """first ordering rule whose literal words/holes fit the row (steers generation only)"""
        ws = row.split()
        for o in orules or []:
            ps = [p for p in o["pat"].split() if p != "~"]
            if ps and ps[0] == rev:
                continue
            if len(ws) >= len(ps) and all(p == w or p.startswith("*") for p, w in zip(ps, ws)):
                return o
        return None

    def walk(t: dict, orules: list) -> dict:
        items = []
        extra = []
        for k, v in t.items():
            o = crude(k, orules)
            items.append((k, walk(v, o["kids"] if o else [])))
            # negation of a row: mentioned through the reverse form iff the row is mentioned
            if rng.random() < (0.45 if o is not None else (0.1 if mode == "mixed" else 0.0)):
                extra.append((f"{rev} {k}", {}))
        if mode == "mixed":
            if rng.random() < 0.25:
                extra.append((f"{rev} unknown {rng.choice(P.VAL)}", {}))
            if rng.random() < 0.3:
                extra.append((f"unlisted {rng.choice(P.VAL)}", {}))
            if ex and rng.random() < 0.3:
                extra.append((ex, {}))
        allrows = items + extra
        if extra:
            rng.shuffle(allrows)
        out: dict = {}
        for k, v in allrows:
            out.setdefault(k, v)
        return out

    return walk(c["new"], c["orules"]), mode


def tweak(rng, c, i):
    c = dict(c)
    # ordering only shows on patches with several sibling commands: bias towards big diffs
    x = rng.random()
    if x < 0.35:
        c["new"] = P.gen_config(rng, c["rules"], density=0.8)          # independent of old: many adds + removals
        c["diff_mode"] = "independent"
    elif x < 0.65:
        c["new"] = P.mutate_config(rng, c["old"], c["rules"], rate=0.9)
        c["diff_mode"] = "heavy"
    else:
        c["diff_mode"] = "light"
    c["meta_pick"] = rng.randrange(1000) if rng.random() < 0.7 else None
    if not c["orules"]:
        c["orules"] = P.gen_ordering(rng, c["rules"], P.VENDORS[c["vendor"]][0])
        c["ordering"] = P.ordering_text(c["orules"])
    pick_meta_row2(rng, c)
    c["order_cfg"], c["cfg_mode"] = gen_order_cfg(rng, c)
    return c


def pick_meta_row2(rng, c) -> None:
    """The row taken out of old and new in the guarded metamorphic run.  Python only steers towards rows for
    which the guard of C08_unrelated_row is likely to hold; whether it holds is decided by Coq (meta_guard).
    'planted': a row of a rule no other top-level row uses, put at the head of old and of new with
    independently generated subtrees; 'same-slot': an existing common row of a rule no other top-level row
    uses, standing at the same position among the rows the rules know; 'unknown': a row no rule knows;
    'any': any top-level row (mostly outside the guard)."""
    rules = c["rules"]

    def rule_of(row):
        return P.rule_for(row, rules)

    def users(rule):
        return [k for k in list(c["old"]) + list(c["new"]) if rule_of(k) is rule]

    x = rng.random()
    mode, row = "none", None
    if x < 0.30:
        free = [r for r in rules if not users(r) and not r["ign"]]
        if free:
            r = rng.choice(free)
            row = P.inst(rng, r["pat"])
            if row not in c["old"] and row not in c["new"] and rule_of(row) is r:
                ko = P.gen_config(rng, r["kids"], 1, 0.7) if r["kids"] else {}
                kn = P.mutate_config(rng, ko, r["kids"], rate=0.6) if (r["kids"] and rng.random() < 0.8) else ko
                c["old"] = dict([(row, ko)] + list(c["old"].items()))
                c["new"] = dict([(row, kn)] + list(c["new"].items()))
                mode = "planted"
            else:
                row = None
    if row is None and x < 0.70:
        known_o = [k for k in c["old"] if rule_of(k) is not None]
        known_n = [k for k in c["new"] if rule_of(k) is not None]
        cand = [k for k in known_o if k in c["new"] and known_o.index(k) == known_n.index(k)
                and len(set(users(rule_of(k)))) == 1]
        if cand:
            row, mode = rng.choice(cand), "same-slot"
    if row is None and x < 0.80:
        unk = [k for k in c["old"] if k in c["new"] and rule_of(k) is None]
        if unk:
            row, mode = rng.choice(unk), "unknown"
    if row is None and x < 0.95:
        allrows = sorted(set(c["old"]) | set(c["new"]))
        if allrows:
            row, mode = rng.choice(allrows), "any"
    c["meta_row2"], c["meta2_mode"] = row, mode


def payload(c) -> dict:
    return P.impl_payload(c, c08=True, meta_pick=c["meta_pick"], order_cfg=c["order_cfg"],
                          meta_row2=c.get("meta_row2"))


def coq_meta2(c, o) -> str:
    """meta_obs: Some (row, Some patch | None) when the second metamorphic run was made"""
    if "meta2_row" not in o:
        return "None"
    m = None if "meta2_patch" not in o else P.coq_ptree(o["meta2_patch"])
    return f"(Some ({core.cstr(o['meta2_row'])}, {copt(m)}))"


def coq_obs(c, o) -> str:
    s = None if o.get("err") else P.coq_ptree(o["patch"])
    u = None if o.get("patch_unsorted_err") or "patch_unsorted" not in o else P.coq_ptree(o["patch_unsorted"])
    meta = None if "meta_patch" not in o else P.coq_ptree(o["meta_patch"])
    rs = None if "patch_resorted" not in o else P.coq_ptree(o["patch_resorted"])
    return ("(Obs08 " + " ".join([
        P.coq_vendor(c["vendor"]), P.coq_ordering(c["orules"]), copt(s), copt(u), cforest(c["order_cfg"]),
        cforest(o["order_new"]), cforest(o["order_twice"]), P.coq_paths(o.get("cmd_paths", [])), copt(meta), copt(rs)]) + ")")


def evaluate(cases, outs, keep):
    """Stage 1: one predicate per case, P_C08 && agree_all (diff and pre computed once).  Stage 2 (only
    the cases where it is false): P_C08, the three agreements, every clause, and whether the input is in
    the class of a listed finding.  Indices in the result refer to positions in `keep`."""
    # parsing the case terms dominates the cost: leave out the observables C08 does not look at
    def slim(o):
        return dict(o, diff_full=[], diff=[], cmd_paths=[], patch_lines=[])
    terms = [f"({P.coq_pcase(cases[i], slim(outs[i]))}, {coq_obs(cases[i], slim(outs[i]))}, {coq_meta2(cases[i], outs[i])})"
             for i in keep]
    per = min(25, max(10, -(-len(terms) // core.NPROC)))      # ~10 KB of Coq term and ~10 MB of coqc memory per case
    C, O, M = "(fst (fst x))", "(snd (fst x))", "(snd x)"
    res1 = core.run_case_files(ID, TY, IMPORTS,
                               {"ok": f"fun x => P_C08 {O} && agree_all {C} {O} && c8_meta2 {C} {M} && c8_cfg_unmentioned_exact {O}",
                                # for the evidence (indices where the predicate is false = the guard holds)
                                "meta2_guard": f"fun x => negb (c8_meta2_guard {C} {M})",
                                "meta2_known": f"fun x => negb (c8_meta2_known {C} {M})"}, terms, per_file=per)
    bad = res1["ok"]
    preds2 = {"holds": f"fun x => P_C08 {O} && c8_meta2 {C} {M} && c8_cfg_unmentioned_exact {O}",
              "agree_patch": f"fun x => agree_patch {C}",
              "agree_unsorted": f"fun x => agree_unsorted {C} {O}",
              "agree_order_config": f"fun x => agree_order_config {O}",
              # indices where the input is in the class of the open finding
              "neg_unmentioned": f"fun x => negb (c8_neg_unmentioned {O})"}
    preds2.update({f"cl_{k}": f"fun x => c8_{k} {O}" for k in CL})
    preds2.update({f"cl_{k}": "fun x => " + e.format(C=C, O=O, M=M) for k, e in CL2.items()})
    res = {k: [] for k in preds2}
    if bad:
        per2 = min(25, max(5, -(-len(bad) // core.NPROC)))
        res2 = core.run_case_files(ID, TY, IMPORTS, preds2, [terms[j] for j in bad], per_file=per2,
                                   tag="clauses")
        for k, v in res2.items():
            res[k] = [bad[j] for j in v]
    res["meta2_guard"] = res1["meta2_guard"]
    res["meta2_known"] = res1["meta2_known"]
    return res


def classify(res, j) -> list[tuple[str, list[str]]]:
    """-> [(signature, failed clauses)].  The two listed classes are recognised by Coq-evaluated predicates:
    cfg_unmentioned false while cfg_unmentioned_kind holds and the tree has a negated unmentioned row;
    meta false while meta_weak holds.  Anything else failing in the same case is reported separately."""
    failed = [k for k in CL + list(CL2) if j in res[f"cl_{k}"]]
    out, rest = [], list(failed)
    if "cfg_unmentioned" in rest and "cfg_unmentioned_kind" not in rest and j in res["neg_unmentioned"]:
        out.append((KNOWN_NEG, ["cfg_unmentioned"]))
        rest.remove("cfg_unmentioned")
    if "meta" in rest and "meta_weak" not in rest:
        out.append((KNOWN_TIE, ["meta"]))
        rest.remove("meta")
    if rest:
        out.append(("C08/" + "+".join(rest), rest))
    return out


def tree_rows(t: dict) -> int:
    return sum(1 + tree_rows(v) for v in t.values())


def run(ctx):
    core.proof_stage(ctx, THEOREM_FILE)
    rng = ctx.rng("c08")
    n = 4800 if ctx.thorough else 640
    cases = [tweak(rng, P.gen_case(rng), i) for i in range(n)]
    outs = core.run_impl_sharded("c08_runner.py", [payload(c) for c in cases])
    keep = [i for i, o in enumerate(outs) if "fatal" not in o and "order_new" in o]
    if len(keep) < len(cases):
        bad = set(range(len(cases))) - set(keep)
        i = min(bad)
        ctx.add_violation(core.Violation(
            signature="C08/implementation-raised",
            what="the real make_patch / order_config raised an unexpected exception: " + str(outs[i])[:600],
            replay={"case": {k: cases[i][k] for k in CASE_KEYS}, "impl": outs[i]}))
    res = evaluate(cases, outs, keep)

    def rep(i):
        return {"case": {k: cases[i][k] for k in CASE_KEYS}, "impl": outs[i]}

    per_sig: dict[str, int] = {}
    unknown = 0
    for j in res["holds"]:
        for sig, failed in classify(res, j):
            per_sig[sig] = per_sig.get(sig, 0) + 1
            if sig not in KNOWN:
                unknown += 1
            if per_sig[sig] > (1 if sig in KNOWN else 3):
                continue
            ctx.add_violation(core.Violation(
                signature=sig,
                what="the real patch / order_config output violates ordering clause(s) " + ", ".join(failed) + " of P_C08",
                replay=dict(rep(keep[j]), clauses=failed)))
    if not unknown:
        for lab in ("agree_patch", "agree_unsorted", "agree_order_config"):
            for j in res[lab][:1]:
                ctx.add_violation(core.Violation(
                    signature=f"C08/model-impl-disagree/{lab}",
                    what=f"Coq model and implementation differ ({lab}); P_C08 holds on all outputs explored "
                         f"(apart from listed known findings)",
                    replay=dict(rep(keep[j]), correspondence=lab), no_input=True))
    seen, nt = set(), 0
    modes: dict[str, int] = {}
    dmodes: dict[str, int] = {}
    vend: dict[str, int] = {}
    n_items: dict[str, int] = {"0": 0, "1-2": 0, "3-5": 0, "6+": 0}
    n_orules: dict[str, int] = {"0": 0, "1-2": 0, "3+": 0}
    removal_items = neg_rows = exit_rows = 0
    for i in keep:
        c, o = cases[i], outs[i]
        modes[c["cfg_mode"]] = modes.get(c["cfg_mode"], 0) + 1
        dmodes[c["diff_mode"]] = dmodes.get(c["diff_mode"], 0) + 1
        vend[c["vendor"]] = vend.get(c["vendor"], 0) + 1
        k = len(o.get("patch") or [])
        n_items["0" if k == 0 else "1-2" if k <= 2 else "3-5" if k <= 5 else "6+"] += 1
        r = len(c["orules"])
        n_orules["0" if r == 0 else "1-2" if r <= 2 else "3+"] += 1
        removal_items += sum(1 for it in (o.get("patch") or []) if not it["sk"][2])
        rev, ex = P.VENDORS[c["vendor"]][0], P.VENDORS[c["vendor"]][1]
        neg_rows += sum(1 for row in c["order_cfg"] if row.startswith(rev + " "))
        exit_rows += sum(1 for row in c["order_cfg"] if ex and row == ex)
        h = core.canon_hash([c[k2] for k2 in ("vendor", "patching", "ordering", "old", "new", "order_cfg")])
        if h in seen:
            continue
        seen.add(h)
        if k >= 3 and c["orules"]:
            nt += 1
    m2modes: dict[str, int] = {}
    m2all: dict[str, int] = {}
    for i in keep:
        m2all[cases[i]["meta2_mode"]] = m2all.get(cases[i]["meta2_mode"], 0) + 1
    for j in res["meta2_guard"]:
        md = cases[keep[j]]["meta2_mode"]
        m2modes[md] = m2modes.get(md, 0) + 1
    ctx.coverage.update({
        "evaluations": len(cases), "distinct_nontrivial": nt,
        "rule": "random patching + ordering rulebooks (depth<=3, %order_reverse, %global, %scope, reverse-form rules, '~'), "
                "config pairs, and a tree for order_config (plain / with negated rows / with unmentioned negated rows "
                "and the exit word); distinct by inputs; non-trivial = ordering rulebook non-empty and >= 3 top-level "
                "patch items",
        "samples": [rep(i) for i in keep[:2]],
        "traces_validated_against_impl": len(keep),
        "disagreements_checked": len(res["agree_patch"]) + len(res["agree_unsorted"]) + len(res["agree_order_config"]),
        "metamorphic_runs": sum(1 for o in outs if "meta_patch" in o),
        "guarded_metamorphic_runs": sum(1 for o in outs if "meta2_row" in o),
        "guarded_metamorphic_guard_holds": len(res["meta2_guard"]),
        "guarded_metamorphic_guard_holds_row_known_to_rules": len(res["meta2_known"]),
        "guarded_metamorphic_guard_holds_by_mode": m2modes,
        "guarded_metamorphic_mode_histogram": m2all,
        "order_cfg_mode_histogram": modes,
        "diff_mode_histogram": dmodes,
        "vendor_histogram": vend,
        "top_level_patch_items_histogram": n_items,
        "top_level_ordering_rules_histogram": n_orules,
        "top_level_removal_items": removal_items,
        "order_cfg_top_level_negated_rows": neg_rows,
        "order_cfg_top_level_exit_rows": exit_rows,
        "order_cfg_rows_total": sum(tree_rows(cases[i]["order_cfg"]) for i in keep),
        "violations_by_signature": per_sig,
    })
    # shipped *.order texts (Gen/Src_rules.v): Coq-parsed vs real compiled ordering rulebook, and the sibling pairs
    # the conservative literal-word test cannot separate (C08_rank asks for pairwise disjoint sibling languages)
    from .. import shipped
    ctx.coverage["shipped_rules"] = {"correspondence": shipped.correspondence(ctx, ID),
                                     "order_sibling_overlaps": shipped.overlap_tables(ID)}
    # real patches computed with get_rulebook(hw) over rows instantiated from the shipped *.order rule lines (every
    # %order_reverse rule: its row removed beside rows of other rules), judged by Coq against the ordering rulebook
    # Coq parses from the RAW lines: sorted, rank, and the pin clause (Spec/P_C08s.v, C08_rank_pinned)
    from .. import shipped_run
    ctx.coverage["shipped_rules"]["runs"] = shipped_run.c08_stage(ctx, ID)
    ctx.assumptions += [
        "list.sort/sorted are stable sorts (CPython guarantee); the model uses stable insertion sort, which "
        "C08_stable_sort_unique shows is the only sorted stable permutation",
        "rule patterns restricted to the plain rule language of Model/Pattern.v (C07); theorems hold for any matcher",
        "not modelled: %multiline, %comment/add_comments, vendor %logic functions, do_commit=False",
    ]


def replay(ctx, doc):
    """Re-run the real implementation on the stored case and let Coq re-evaluate P_C08 and the agreements."""
    c = doc["replay"]["case"]
    if "rules" not in c and "hw" in c:
        from .. import shipped_run
        return shipped_run.c08_replay(ctx, doc, ID)
    if "rules" not in c:
        print(c)
        return 1
    outs = core.run_impl_sharded("c08_runner.py", [payload(c)])
    o = outs[0]
    if "fatal" in o or "order_new" not in o:
        print("implementation raised:", str(o)[:800])
        return 1
    res = evaluate([c], outs, [0])
    failed = {k: v for k, v in res.items() if v and k not in ("neg_unmentioned", "meta2_guard", "meta2_known")}
    print("case:", {k: c[k] for k in ("vendor", "patching", "ordering", "old", "new", "order_cfg")})
    print("order_config ->", o["order_new"])
    print("false predicates:", sorted(failed) or "none")
    if res["holds"]:
        print("signatures:", [sg for sg, _ in classify(res, 0)])
    return 1 if failed else 0
