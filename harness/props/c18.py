"""C18 — every known hardware model resolves to one vendor and a loadable rulebook (DESIGN §3.C18)."""
from __future__ import annotations

import itertools
import json
import re
from concurrent.futures import ThreadPoolExecutor

from .. import core
from ..core import cstr, clist, cbool
from ..translators import tr_devdb

try:                                    # Python >= 3.11
    from re import _parser as sre_parse, _constants as sre_c
except ImportError:                     # pragma: no cover
    import sre_parse
    import sre_constants as sre_c

ID = "C18"
THEOREM_FILE = "Properties/C18.v"
LEVEL = "proof"
IMPORTS = "From Annet Require Import Base.Str Model.HwDb Spec.P_C18 Gen.Src_devdb Proofs.HwDbTables."
TY = "list nat * obs"
META = {
    "text": "Proof (partial): a Gallina model of devdb's regex tree (get_db/_build_tree/_make_allowed_by_seq/"
            "find_true_sequences), of HardwareView.match and of Registry.match, with regex search abstracted as an "
            "arbitrary function hit : regex_id -> model -> bool.  Theorems: for EVERY database that loads and "
            "satisfies the computable condition db_ok, every hit and every model string, a database entry is "
            "reported true exactly when every step of its chain is found (model = declarative chain reference), hence "
            "every true family has all its ancestors true; db_ok holds of the regenerated devdb.json table "
            "(vm_compute); Registry.match returns a vendor with the maximal number of dots and is invariant under "
            "every permutation of the registration order whenever the maximal-dot matches belong to one vendor; "
            "that guard is necessary (C18_tie_refuted: huawei/optixtrans).  Correspondence, exhaustive over the "
            "finite space: for every devdb sequence a model string synthesised from its regex chain (x software "
            "version shapes), for every vendor's canonical hardware: the real parse_hw_model / HardwareView.vendor / "
            "get_rulebook are run; Coq recomputes true sequences and vendor from the observed regex hits (agree) and "
            "evaluates P_C18_full on the real outputs (holds) = P_C18 and the clause chain_ok: a database entry is "
            "reported true EXACTLY when its whole regex chain is found in the model string (C18_chain_exact proves this "
            "of the model for every database with db_ok, every regex semantics and every string; C18_chain_unique: the "
            "clause determines the reported entries).  Input families beyond one model per key: cross-branch strings "
            "and, for every pair of sibling families whose regexes can be found in one string (CE6865/CE6865E, "
            "CS4100/CS4132U, EI/CE ...), such a string (hierarchy and chain clauses only: these strings may stand for "
            "no device).  Determinism of loading is observed across real work: between the loads of a model the "
            "runner builds patches for that hardware in the same process (api._diff_and_patch, api.patch_from_pre, "
            "Orderer.ref_insert/order_config on shipped before/after samples of the vendor, with a non-empty "
            "RefTracker as a generator run with references fills it) and loads the rulebook again through the public "
            "get_rulebook and through a brand new provider; all digests must be equal.  SHORT NAMES: the hierarchy "
            "clause hier_short_ok is also evaluated against the attribute set of the RUNNING code (true | false "
            "sequences of parse_hw_model, HwDbTables.part_short_on): no prefix of a true attribute path, full or "
            "shortened (hw.SN of hw.SN.SN5400), evaluates to False; that set is compared with the model's "
            "all_sequences (agree), and the runner reports as a flag (plain equality of two real outputs) that it is the "
            "same set for every model string.",
    "technique": "Coq induction over the insertion-built regex tree (finite-map view of nested dicts), Permutation "
                 "lemmas for the vendor choice, vm_compute on the regenerated table; exhaustive differential run",
    "note": "PARTIAL. Proved: hierarchy and vendor choice (static part of P_C18); the short-name hierarchy clause "
            "(hier_short_ok) is evaluated on real outputs, not proved of the model.  Tested only (Python runtime "
            "facts, cannot be theorems here): Mako rendering of *.rul/*.order/*.deploy, importlib resolution of "
            "%logic/%diff_logic/%apply_logic names, compilation of row regexes, structural equality of rulebooks from "
            "fresh providers and of the rulebook loaded before/after patch operations with references in the same "
            "process - checked by running the real get_rulebook for all synthesised models (exhaustive over "
            "devdb sequences, not over all strings).  Regex semantics itself is abstract in the theorems (they hold "
            "for every `hit`), and observed per model in the run.",
}

SOFT_QUICK = ["", "V200R019C10SPC800"]
SOFT_THOROUGH = ["", "V200R019C10SPC800", "7.0(3)I7(9)", "Cumulus Linux 4.2", "SwitchDev 1.0", "20.4R3-S2", "4.27.0F",
                 "6.48.6"]
# DESIGN §9: canonical model strings used by tests/__init__.py:make_hw_stub
CANONICAL_DESIGN = {
    "huawei": "Huawei CE6870", "h3c": "H3C", "optixtrans": "Huawei OptiXtrans DC908", "cisco": "Cisco Catalyst",
    "nexus": "Cisco Nexus", "iosxr": "Cisco ASR", "arista": "Arista", "aruba": "Aruba", "b4com": "B4com",
    "juniper": "Juniper", "ribbon": "Ribbon", "nokia": "Nokia", "routeros": "RouterOS", "pc": "PC",
}
EXTRA_CANONICAL = ["Cisco XR", "Huawei OptiXtrans DC908", "Huawei OptiXtrans"]
ALL_ATTR: dict = {}            # tables["all"] of the last implementation run (used for violation messages only)
UNCOVERED = ["", "Unknown device", " CE6870", "xHuawei CE6870", " Nexus 9316", "OptiXtrans", "huawei"]


# --------------------------------------------------------------------------------------
# model strings from regex chains


def _in_options(items) -> list[str]:
    neg = any(op is sre_c.NEGATE for op, _ in items)
    if neg:
        banned = set()
        for op, av in items:
            if op is sre_c.LITERAL:
                banned.add(chr(av))
        return [c for c in "x0-" if c not in banned][:1]
    out = []
    for op, av in items:
        if op is sre_c.LITERAL:
            out.append(chr(av))
        elif op is sre_c.RANGE:
            out.append(chr(av[0]))
        elif op is sre_c.CATEGORY:
            out += _category(av)
    return out[:2]


def _category(av) -> list[str]:
    name = str(av)
    if "NOT_DIGIT" in name or "NOT_SPACE" in name:
        return ["x"]
    if "DIGIT" in name:
        return ["1"]
    if "NOT_WORD" in name:
        return ["-"]
    if "WORD" in name:
        return ["a"]
    if "SPACE" in name:
        return [" "]
    raise core.CheckFailure(f"C18 sampler: regex category {name} not supported")


def _samples(parsed, cap=24) -> list[str]:
    """Strings matching the parsed pattern (a few per alternative), shortest choices for repeats."""
    outs = [""]
    for op, av in parsed:
        if op is sre_c.LITERAL:
            opts = [chr(av)]
        elif op is sre_c.NOT_LITERAL:
            opts = ["x" if chr(av) != "x" else "y"]
        elif op is sre_c.ANY:
            opts = ["x"]
        elif op is sre_c.IN:
            opts = _in_options(av)
        elif op is sre_c.CATEGORY:
            opts = _category(av)
        elif op is sre_c.BRANCH:
            opts = []
            for alt in av[1]:
                opts += _samples(alt, cap)
        elif op is sre_c.SUBPATTERN:
            opts = _samples(av[3], cap)
        elif op in (sre_c.MAX_REPEAT, sre_c.MIN_REPEAT):
            lo, hi, sub = av
            subs = _samples(sub, cap)
            opts = []
            if lo == 0:
                opts.append("")
                opts += [s for s in subs[:2]] if hi >= 1 else []
            else:
                opts += ["".join(c) for c in itertools.islice(itertools.product(subs[:2], repeat=lo), 2)]
        elif op is sre_c.AT:
            opts = [""]                 # anchors are validated by the real regex afterwards
        else:
            raise core.CheckFailure(f"C18 sampler: regex construct {op} not supported")
        if not opts:
            raise core.CheckFailure("C18 sampler: empty alternative")
        seen, dedup = set(), []
        for o in opts:
            if o not in seen:
                seen.add(o)
                dedup.append(o)
        outs = [a + b for a in outs for b in dedup][:cap]
    return outs


def synth_models(chain: list[str], want: int) -> list[str]:
    """Model strings in which every regex of `chain` (root first) is found.  Most specific
    regex first, each further regex either already found or its sample prepended/appended."""
    rxs = [re.compile(r) for r in chain]
    beam = [""]
    done: list = []
    for rx in reversed(rxs):
        done.append(rx)
        samples = [s for s in _samples(sre_parse.parse(rx.pattern)) if rx.search(s)] or _samples(sre_parse.parse(rx.pattern))
        cand = []
        for s in beam:
            if rx.search(s) and s:
                cand.append(s)
            for w in samples:
                cand += [w + s, s + w, w]
        seen, nxt = set(), []
        for c in cand:
            if c not in seen and all(r.search(c) for r in done):
                seen.add(c)
                nxt.append(c)
        if not nxt:
            return []
        nxt.sort(key=lambda c: (len(c), c))
        beam = nxt[:40]
    beam = [b for b in beam if all(r.search(b) for r in rxs) and all(32 <= ord(ch) < 127 for ch in b)]
    picked = beam[:1]
    for b in beam[1:]:                   # prefer variants that differ by more than a suffix
        if len(picked) >= want:
            break
        if all(b.lower() != p.lower() or b != p for p in picked):
            picked.append(b)
    return picked


# --------------------------------------------------------------------------------------
# Coq printing


def cvres(v: dict) -> str:
    if "name" in v:
        return f"(VName {cstr(v['name'])})"
    if "none" in v:
        return "VNone"
    return "VErr"


def cseqs(l) -> str:
    return clist(clist(cstr(n) for n in s) for s in l)


def case_term(r: dict, extra_digests: list[str]) -> str:
    tr = "None" if r["true"] is None else f"(Some {cseqs(r['true'])})"
    rb = r["rb"]
    obs = (f"(Obs {tr} {cvres(r['vendor'])} {clist(cvres(v) for v in r['perm'])} "
           f"{cbool(rb['loaded'])} {cbool(rb['logic_ok'])} {cbool(rb['regex_ok'])} "
           f"{clist(cstr(d) for d in rb['digests'] + extra_digests)})")
    return f"({clist(str(h) for h in r['hits'])}, {obs})"


# --------------------------------------------------------------------------------------


def run_runner(cases: list[dict], perms: list, *, extra_env=None) -> tuple[list[dict], dict]:
    shards = max(1, min(core.NPROC, len(cases) // 8))
    chunks = [cases[i::shards] for i in range(shards)]

    def one(i):
        if not chunks[i]:
            return {"results": []}
        return core.run_impl("c18_runner.py", {"cases": chunks[i], "perms": perms, "tables": i == 0},
                             timeout=900, extra_env=extra_env)

    with ThreadPoolExecutor(max_workers=shards) as ex:
        outs = list(ex.map(one, range(shards)))
    res = [None] * len(cases)
    for s, o in enumerate(outs):
        if len(o["results"]) != len(chunks[s]):
            raise core.CheckFailure("c18_runner returned a wrong number of results")
        for j, r in enumerate(o["results"]):
            res[s + j * shards] = r
    return res, outs[0].get("tables", {})


def gen_cases(ctx):
    entries, rid_of = tr_devdb.read_devdb(core.REPO)
    vendors = tr_devdb.read_vendors(core.REPO)
    rx_of = {seq: rx for seq, rx in entries}
    softs = SOFT_THOROUGH if ctx.thorough else SOFT_QUICK
    want = 6 if ctx.thorough else 2
    cases, unsynth = [], []
    seen = set()

    def add(model, soft, src, seq=None):
        k = (model, soft)
        if k in seen:
            return
        seen.add(k)
        cases.append({"model": model, "soft": soft, "src": src, "seq": ".".join(seq) if seq else None})

    for seq, _ in entries:
        chain = []
        for i in range(1, len(seq) + 1):
            if seq[:i] not in rx_of:
                chain = None            # missing parent: the database cannot load; any model shows it
                break
            chain.append(rx_of[seq[:i]])
        try:
            models = synth_models(chain, want) if chain else []
        except re.error:                # a regex of the database does not compile: the code cannot load it either
            models = []
        if not models:
            unsynth.append(".".join(seq))
            models = [" ".join(seq)]
        for m in models:
            for s in softs:
                add(m, s, "devdb", seq)
    # cross-branch models: the regex chain of one node followed by the regex of ANOTHER node's child.  No database
    # key stands for such a model, but a hierarchy built wrongly (children filed under a node that merely has the
    # same regex, e.g. " SN" under Mellanox and under NVIDIA) shows only on them: a leaf true without its parents.
    def chain_of(seq):
        return [rx_of[seq[:i]] for i in range(1, len(seq) + 1)] if all(seq[:i] in rx_of for i in range(1, len(seq) + 1)) else None
    kids_of: dict = {}
    for seq, _ in entries:
        kids_of.setdefault(seq[:-1], []).append(seq)
    by_rx: dict = {}
    for seq, rx in entries:
        by_rx.setdefault(rx, []).append(seq)
    cross = []
    for rx, seqs in by_rx.items():          # nodes sharing one regex source: every child of one under each other
        for a in seqs:
            for b in seqs:
                if a != b:
                    cross += [(b, c) for c in kids_of.get(a, [])]
    rng = ctx.rng("cross")
    inner = [seq for seq, _ in entries if len(seq) >= 2]
    for _ in range(1500 if ctx.thorough else 150):
        b, c = rng.choice(inner), rng.choice(inner)
        if c[:-1] != b and c != b:
            cross.append((b, c))
    n_cross = 0
    for b, c in cross:
        ch = chain_of(b)
        if ch is None:
            continue
        try:
            models = synth_models(ch + [rx_of[c]], 1)
        except re.error:
            models = []
        for m in models:
            n_cross += 1
            add(m, "", "cross")
    # sibling families are not exclusive (CE6865 / CE6865E, B4com CS4100 / CS4132U, the flags EI/HI/SI next to
    # CE/Quidway/NE ...): for EVERY pair of children of one node a model string in which the parent chain and
    # both children's regexes are found, if there is one.  Such a string may stand for no device (two vendor
    # families at once), so only the clauses proved for every string are claimed for it: hierarchy and chain_ok
    # (both siblings are true).  These cases are parsed only (no rulebook load).
    n_pairs = n_sib = 0
    for par, ks in kids_of.items():
        ch = chain_of(par) if par else []
        if ch is None:
            continue
        for i, a in enumerate(ks):
            for b in ks[i + 1:]:
                n_pairs += 1
                try:
                    models = synth_models(ch + [rx_of[a], rx_of[b]], 1)
                except (re.error, core.CheckFailure):
                    models = []
                for m in models:
                    if (m, "") not in seen:
                        n_sib += 1
                        add(m, "", "sibling", None)
                        cases[-1]["pair"] = [".".join(a), ".".join(b)]
    for v, m in CANONICAL_DESIGN.items():
        for s in softs[:2]:
            add(m, s, "canonical")
    for m in EXTRA_CANONICAL:
        for s in softs[:2]:
            add(m, s, "canonical")
    for m in UNCOVERED:
        add(m, "", "uncovered")
    perms = ["reverse", ["seed", ctx.seed + 1]]
    if ctx.thorough:
        perms += [["front", n] for n, _ in vendors] + [["seed", ctx.seed + k] for k in range(2, 8)]
    ctx.coverage["input_distribution"] = {
        "devdb_sequences": len(entries), "models_per_sequence": want, "soft_shapes": softs,
        "cases_devdb": sum(c["src"] == "devdb" for c in cases),
        "cases_canonical": sum(c["src"] == "canonical" for c in cases),
        "cases_cross_branch": sum(c["src"] == "cross" for c in cases),
        "cases_uncovered": sum(c["src"] == "uncovered" for c in cases),
        "sibling_pairs": n_pairs, "cases_sibling_pairs_matching_together": n_sib,
        "registration_permutations": len(perms),
        "sequences_without_synthesised_model": unsynth,
    }
    return cases, perms, entries, vendors, unsynth


def signature(case: dict, r: dict, parts: dict) -> tuple[str, str]:
    """Specific signature of a failing case, from the failing part and the implementation data."""
    if r["true"] is None:
        return (f"C18/hardware-view-raises/{(r.get('exc') or '?').split(':')[0]}",
                f"HardwareView({case['model']!r}) raises {r.get('exc')}")
    if parts["hier"] and not parts.get("short", True):
        # which attribute path (for the message only; the verdict is Coq's part_short_on on the real outputs)
        allk = {tuple(s) for s in (ALL_ATTR.get("all") or [])}
        tr = {tuple(s) for s in r["true"]}
        bad = sorted((s[:k], s) for s in tr for k in range(1, len(s)) if s[:k] in allk and s[:k] not in tr)
        ex = bad[0] if bad else ((), ())
        return (f"C18/short-name-hierarchy-broken/{'.'.join(ex[0]) or '?'}",
                f"HardwareView({case['model']!r}): hw.{'.'.join(ex[1])} is True while its ancestor attribute "
                f"hw.{'.'.join(ex[0])} is False (a shortened family name given to one of the families that share it): "
                f"the short-name hierarchy is not prefix-closed ({len(bad)} such attribute paths)")
    if not parts["hier"]:
        return (f"C18/hierarchy-broken/{(case.get('seq') or case['model']).split('.')[0]}",
                f"true sequences of {case['model']!r} are not prefix-closed")
    if not parts.get("chain", True):
        fam = case.get("seq") or "+".join(case.get("pair") or []) or case["model"]
        want = case.get("seq")
        if want and want.split(".") not in r["true"]:
            what = (f"family {want} is not reported true for {case['model']!r} although every regex of its chain is found "
                    f"in the model string (true sequences reported: {len(r['true'])})")
        else:
            what = (f"the families reported true for {case['model']!r} are not exactly the database entries whose regex "
                    f"chain is found in it (regex ids found: {r['hits']}; reported: {['.'.join(x) for x in r['true']][:12]})")
        return (f"C18/true-families-not-exact/{fam.split('.')[0].split('+')[0].split()[0] if fam.strip() else '-'}", what)
    if not parts["vendor"]:
        outs = [r["vendor"]] + r["perm"]
        names = sorted({o.get("name") or ("None" if "none" in o else "exc:" + o["exc"].split(":")[0]) for o in outs})
        if len(names) > 1:
            return (f"C18/vendor-depends-on-registration-order/{'+'.join(names)}",
                    f"HardwareView({case['model']!r}).vendor is {names} depending on the registration order "
                    f"(matches with the same number of dots from different vendors)")
        return (f"C18/vendor-choice/{names[0]}",
                f"HardwareView({case['model']!r}).vendor = {r['vendor']} is not the unique most specific registered vendor")
    rb = r["rb"]
    vname = r["vendor"].get("name", "?")
    if rb["exc"]:
        cls = rb["exc"].split(":")[0]
        return (f"C18/rulebook-load/{vname}/{cls}",
                f"get_rulebook(HardwareView({case['model']!r}, {case['soft']!r})) raises {rb['exc']}")
    if not (rb["logic_ok"] and rb["regex_ok"] and rb["loaded"]):
        return (f"C18/rulebook-unresolved/{vname}", f"rulebook of {case['model']!r} has unresolved parts: {rb['stats']}")
    d = rb["digests"]
    if len(d) >= 5 and len(set(d[:3])) == 1 and len(set(d)) > 1:
        return (f"C18/rulebook-changed-by-patch-operations/{vname}",
                f"get_rulebook(HardwareView({case['model']!r}, {case['soft']!r})) after building patches with a non-empty "
                f"RefTracker for that hardware in the same process ({rb.get('ops')}) differs structurally from the rulebook "
                f"loaded before them / from a fresh compilation")
    return (f"C18/rulebook-nondeterministic/{vname}",
            f"two loads of the rulebook for {case['model']!r} differ structurally")


def table_terms(tables: dict) -> tuple[str, str]:
    db = clist(f"({clist(cstr(n) for n in seq)}, {rid})" for seq, rid in tables["db"])
    vs = []
    for name, items in tables["vendors"]:
        if items is None:
            raise core.CheckFailure(f"vendor {name}.match() raised")
        its = []
        for it in items:
            parts = it.split(".")
            if parts and parts[0] == "hw":
                parts = parts[1:]
            its.append(f"({clist(cstr(p) for p in parts)}, {it.count('.')})")
        vs.append(f"({cstr(name)}, {clist(its)})")
    return db, clist(vs)


TABLE_DEFS = """
Definition db_eqb (a b : list (list string * nat)) : bool :=
  Nat.eqb (List.length a) (List.length b) &&
  forallb (fun p => seq_eqb (fst (fst p)) (fst (snd p)) && Nat.eqb (snd (fst p)) (snd (snd p))) (combine a b).
Definition items_eqb (a b : list (list string * nat)) : bool := db_eqb a b.
Definition vendors_eqb (a b : vendors) : bool :=
  Nat.eqb (List.length a) (List.length b) &&
  forallb (fun p => String.eqb (fst (fst p)) (fst (snd p)) && items_eqb (snd (fst p)) (snd (snd p))) (combine a b).
"""


def evaluate(cases, results, tables, tag="cases"):
    """Coq evaluates agree/holds (and the parts of holds) on the implementation outputs.  Every
    case file also checks that the Gen tables it is evaluated against are the tables the
    running implementation reported (key "tables": indices of cases in files where not)."""
    ALL_ATTR["all"] = tables.get("all")
    if tables.get("db"):
        db_t, vs_t = table_terms(tables)
        defs = TABLE_DEFS + (f"Definition tables_ok : bool := Eval vm_compute in "
                              f"(db_eqb Src_db {db_t} && vendors_eqb Src_vendors {vs_t}).")
    else:       # the running code could not even prepare its database: every case reports the exception
        defs = "Definition tables_ok : bool := true."
    # the attribute sequences the running code knows (true | false of parse_hw_model): the short-name hierarchy clause
    # is evaluated against THEM (part_short_on), and they are compared with the model's all_sequences (agree)
    if tables.get("all") is not None:
        defs += (f"\nDefinition impl_all : list seq := {cseqs(tables['all'])}."
                 "\nDefinition all_agree : bool := Eval vm_compute in set_eqb impl_all Src_all.")
    else:
        defs += "\nDefinition impl_all : list seq := Src_all.\nDefinition all_agree : bool := true."
    by_model = {}
    for c, r in zip(cases, results):
        by_model.setdefault(c["model"], r)
    terms = []
    for c, r in zip(cases, results):
        ref = by_model[c["model"]]
        extra = ref["rb"]["digests"][:1] if ref is not r else []
        terms.append(case_term(r, extra))
    preds = {"agree": "fun c => agree_C18 c && all_agree",
             "holds": "fun c => holds_C18_full c && part_short_on impl_all c", "tables": "fun _ => tables_ok"}
    # strings that stand for no device (sibling pairs; parsed only): the clauses stated for EVERY string
    preds_static = dict(preds, holds="fun c => part_hier c && part_chain c && part_short_on impl_all c")
    parts = {"hier": "part_hier", "vendor": "part_vendor", "runtime": "part_runtime", "chain": "part_chain",
             "short": "part_short_on impl_all"}
    res = {k: set() for k in list(preds) + list(parts)}
    groups = [([i for i, c in enumerate(cases) if c["src"] != "sibling"], preds, tag),
              ([i for i, c in enumerate(cases) if c["src"] == "sibling"], preds_static, tag + "_static")]
    for idx, pr, tg in groups:
        if not idx:
            continue
        per_file = max(10, -(-len(idx) // core.NPROC))           # one file per core
        r = core.run_case_files(ID, TY, IMPORTS, pr, [terms[i] for i in idx], per_file=per_file, tag=tg, extra_defs=defs)
        for k, v in r.items():
            res[k] |= {idx[j] for j in v}
    # which clause fails is asked only about the cases where holds is false (second pass, usually tiny)
    failing = sorted(res["holds"])
    if failing:
        r2 = core.run_case_files(ID, TY, IMPORTS, parts, [terms[i] for i in failing],
                                 per_file=max(10, -(-len(failing) // core.NPROC)), tag=tag + "_parts", extra_defs=defs)
        for k, v in r2.items():
            res[k] = {failing[j] for j in v}
    return res


def run(ctx):
    # coq/Gen is shared by all checks: a concurrent check pointed at another repository copy
    # can rewrite Gen/Src_devdb.v under our feet.  Every case file validates the tables it
    # saw against the tables of the implementation run; on mismatch the run is repeated.
    for attempt in range(3):
        del ctx.violations[:]
        ctx.notes[:] = [n for n in ctx.notes if n.startswith("retry")]
        if _run_once(ctx, last=attempt == 2):
            return
        ctx.notes.append(f"retry {attempt + 1}: Gen tables differed from the implementation's tables (concurrent run?)")


def _run_once(ctx, last: bool) -> bool:
    import time
    t_start = time.time()
    rep = core.proof_stage(ctx, THEOREM_FILE)
    if not rep.compiled:
        # the model files contain no proofs: keep them available so that the run below can
        # still look for a concrete failing input
        p = core.make(["Spec/P_C18.vo", "Proofs/HwDbTables.vo"])
        if p.returncode != 0:
            raise core.CheckFailure("C18 model files do not compile:\n" + (p.stdout + p.stderr)[-2000:])
    import time
    t_0 = time.time()
    cases, perms, entries, vendors, unsynth = gen_cases(ctx)
    t_1 = time.time()
    # patch operations between the loads: once per model string (its first software-version shape)
    first_soft = {}
    for c in cases:
        first_soft.setdefault(c["model"], c["soft"])
    results, tables = run_runner([{"model": c["model"], "soft": c["soft"], "static": c["src"] == "sibling",
                                   "ops": first_soft[c["model"]] == c["soft"]} for c in cases], perms)

    # canonical hardware of every registered vendor (vendor.hardware), as the registry reports it
    known_models = {c["model"] for c in cases}
    extra = [{"model": m, "soft": "", "src": "vendor.hardware", "seq": None}
             for m in sorted({m for m in tables.get("canonical", {}).values() if m is not None})
             if m not in known_models]
    if extra:
        r2, _ = run_runner([{"model": c["model"], "soft": c["soft"]} for c in extra], perms)
        cases += extra
        results += r2

    t_2 = time.time()
    res = evaluate(cases, results, tables)
    ctx.coverage["phase_seconds"] = {"proof_stage": round(t_0 - t_start, 1), "generate": round(t_1 - t_0, 1),
                                     "real_code_runs": round(t_2 - t_1, 1), "coq_evaluation": round(time.time() - t_2, 1)}
    if res["tables"]:
        if not last:
            return False
        # persistent: the translator (source text) and the running code disagree about the tables
        ctx.add_violation(core.Violation(
            signature="C18/translated-tables-differ-from-runtime-tables",
            what="Gen/Src_devdb.v (from source text) differs from the tables the running code uses",
            replay={"correspondence": "tr_devdb.py vs _prepare_db()/registry.vendors", "tables": tables}, no_input=True))
        return True
    n = len(cases)
    # the target sequence of each synthesised model must be among the true sequences,
    # otherwise the enumeration is not what it claims (fail closed)
    missed = [c for c, r in zip(cases, results)
              if c["src"] == "devdb" and r["true"] is not None and c["seq"].split(".") not in r["true"]]
    static_src = ("cross", "sibling")

    def claimed(i):
        """a failing case counts unless it is a string that stands for no database key and fails only clauses
        that are not claimed for every string (vendor choice, runtime)"""
        return not (cases[i]["src"] in static_src and i not in res["hier"] and i not in res["chain"]
                    and i not in res["short"])
    bad = [i for i in sorted(res["holds"]) if claimed(i)]
    if (missed or unsynth) and not bad:
        ctx.add_violation(core.Violation(
            signature="C18/model-synthesis-incomplete",
            what=f"no model string synthesised for {unsynth + [c['seq'] for c in missed][:5]}",
            replay={"correspondence": "synth_models", "sequences": unsynth + [c["seq"] for c in missed]}, no_input=True))

    covered = [i for i, r in enumerate(results) if r["true"]]
    seen, nontrivial = set(), 0
    vend_hist, depth_hist = {}, {}
    for i, (c, r) in enumerate(zip(cases, results)):
        h = core.canon_hash([c["model"], c["soft"]])
        if h in seen:
            continue
        seen.add(h)
        v = r["vendor"].get("name") or ("None" if "none" in r["vendor"] else "exc")
        vend_hist[v] = vend_hist.get(v, 0) + 1
        d = max((len(s) for s in r["true"]), default=0) if r["true"] is not None else -1
        depth_hist[d] = depth_hist.get(d, 0) + 1
        if r["true"] and len(r["hits"]) >= 2 and (r["rb"]["loaded"] or r["rb"]["exc"]):
            nontrivial += 1
    seqs_covered = {tuple(s) for r in results if r["true"] for s in r["true"]}
    ctx.coverage.update({
        "evaluations": n,
        "distinct_nontrivial": nontrivial,
        "rule": "one case = (model string, software version); distinct by that pair; non-trivial = the model is covered "
                "by the database with a chain of >= 2 regex hits and get_rulebook was actually attempted",
        "samples": [{"input": {"model": c["model"], "soft": c["soft"], "from": c["seq"] or c["src"]},
                     "impl": {"hits": r["hits"], "vendor": r["vendor"], "perm": r["perm"],
                              "true_count": None if r["true"] is None else len(r["true"]), "rb": r["rb"]}}
                    for c, r in list(zip(cases, results))[:3]],
        "traces_validated_against_impl": n,
        "disagreements_checked": len(res["agree"]),
        "exhaustive": not unsynth and not missed,
        "exhaustive_scope": "every key of devdb.json (each with a synthesised model string whose true sequences contain "
                            "the key) x software-version shapes; every registered vendor's canonical hardware "
                            "(vendor.hardware and tests' make_hw_stub strings); registration order reversed (reversal "
                            "flips every pair, so it detects every order dependence) plus seeded permutations",
        "db_keys_true_in_some_case": sum(1 for s, _ in entries if s in seqs_covered),
        "db_keys": len(entries),
        "vendor_histogram": vend_hist,
        "max_depth_histogram": {str(k): v for k, v in sorted(depth_hist.items())},
        "covered_cases": len(covered),
        "loads_separated_by_patch_operations": sum(1 for r in results if (r["rb"].get("ops") or {}).get("jobs")),
        "patch_operations_between_loads": {k: sum((r["rb"].get("ops") or {}).get(k, 0) for r in results)
                                           for k in ("jobs", "patched", "raised", "refs")},
        "level_note": META["note"],
    })
    sigs_seen = set()
    # runner flag (an equality of two real outputs, not a Coq clause): the attribute names (true | false sequences of
    # parse_hw_model) are the same set for every model string - the set the short-name clause is evaluated against
    for i, r in enumerate(results):
        if r.get("all_same") is False:
            ctx.add_violation(core.Violation(
                signature="C18/attribute-names-depend-on-model",
                what=f"parse_hw_model({cases[i]['model']!r}): true | false sequences differ from the attribute set of "
                     f"other model strings",
                replay={"case": cases[i], "perms": perms, "impl": results[i], "parts": {"all_same": False}}))
            break
    for i in bad:
        parts = {"hier": i not in res["hier"], "vendor": i not in res["vendor"], "runtime": i not in res["runtime"],
                 "chain": i not in res["chain"], "short": i not in res["short"]}
        # (a cross-branch / sibling-pair string stands for no database key: it is outside the property's quantifier
        # except for the hierarchy and chain clauses, which C18_prefix_closed / C18_chain_exact state for EVERY model
        # string; such strings can belong to two vendor families at once, e.g. 'Cisco ... Nexus' with an XR hit)
        sig, what = signature(cases[i], results[i], parts)
        if sig in sigs_seen:
            continue
        sigs_seen.add(sig)
        ctx.add_violation(core.Violation(signature=sig, what=what, replay={"case": cases[i], "perms": perms,
                                                                         "impl": results[i], "parts": parts}))
    if not bad:
        for i in sorted(res["agree"])[:1]:
            ctx.add_violation(core.Violation(
                signature="C18/model-impl-disagree",
                what="Coq model (true_sequences / Registry.match on the observed regex hits) and the implementation differ; "
                     "P_C18 holds on all implementation outputs explored",
                replay={"correspondence": "Model.HwDb vs parse_hw_model / HardwareView.vendor", "case": cases[i],
                        "impl": results[i]}, no_input=True))
    # is the review-time tie still present in the current tables?  (information only)
    try:
        live = core.coq_eval(ID, IMPORTS, [
            "match rpath Src_db [\"Huawei\"; \"OptiXtrans\"] with Some m => "
            "negb (vres_eqb (src_vendor Src_vendors m) (src_vendor (rev Src_vendors) m)) | None => false end"],
            tag="livetie")
        ctx.notes.append(f"huawei/optixtrans registration-order tie present in current tables (model level): {live[0]}")
    except core.CheckFailure:
        pass
    ctx.assumptions[:] = [
        "regex search is abstract in the theorems (Section variable hit); per observed model the hits are taken from "
        "the real compiled patterns",
        "Registry.match is modelled as called by hw_to_vendor (default=None) on the default registry (no entry-point vendors)",
        "the patch operations between two loads use the shipped before/after samples of the vendor (tests/annet/test_patch) "
        "and one generic config; the RefTracker is built as run_partial_generators builds it (two generator classes, one "
        "referring to the other, their configs = halves of the new config)",
        "runtime part (Mako, importlib, re.compile, equality of loads) is tested exhaustively over devdb sequences, not proved",
    ]
    return True


def replay(ctx, doc):
    rp = doc["replay"]
    c = rp["case"]
    results, tables = run_runner([{"model": c["model"], "soft": c["soft"], "static": c.get("src") == "sibling"}],
                                 rp.get("perms", ["reverse"]))
    res = evaluate([c], results, tables, tag="replay")
    print("impl:", json.dumps(results[0])[:1500])
    print("holds:", 0 not in res["holds"], "agree:", 0 not in res["agree"])
    return 1 if res["holds"] else 0
