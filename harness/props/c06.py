"""C06 — ACL filtering selects exactly the covered lines and nothing else (DESIGN §3.C06)."""
from __future__ import annotations

import itertools

from .. import core, aclgen, acltext
from ..core import cstr, clist, cbool, cforest, copt

ID = "C06"
THEOREM_FILE = "Properties/C06.v"
IMPORTS = aclgen.ACL_IMPORTS + "\nFrom Annet Require Import Spec.P_C06."
TY = "c06case"
META = {
    "text": "Proof (Coq; for every rule set, every tree of any depth and every row matcher): the model of apply_acl "
            "(match_row_to_acl with the prio/shared-symbol metric and stable ranking, _select_match's merge of children "
            "rules, inherited %global rules, reverse-form + cant_delete drop, fatal_acl and exclusive modes) returns "
            "exactly the lines whose whole path is covered (C06_exact), an ordered sub-tree (C06_subtree_order), is "
            "idempotent (C06_idempotent); in strict mode it raises iff some row at a covered parent is uncovered and names "
            "the first one in document order (C06_fatal_iff, C06_fatal_names_first, C06_fatal_clean; C06_strict_modes also "
            "covers exclusive). The governing rule is characterised without the sort (C06_select_sound, C06_candidates, "
            "C06_row_fate_metric_free), the merged children rules as a least upper bound (C06_children_are_lub), and on "
            "inputs unambiguous along every path the result is proved independent of the ranking of competing rules — "
            "prio, rule order, shared-symbol heuristic (C06_exact_metric_free, C06_exact_ranking_free). "
            "Merged-ACL monotonicity is refuted with a witness (C06_monotone_refuted) and proved under an explicit guard, "
            "for rule sets and for ACL texts incl. compile_acl_text's merging (C06_monotone_guarded, C06_monotone_texts, "
            "C06_compile_dominated). apply_acl_diff (filter_diff) keeps exactly the matched entries and turns removals under "
            "all-cant_delete rules into 'affected' (C06_filter_diff_exact). ACL TEXT front end (Model/AclText.v: _split_rows "
            "with %param continuation rows, the offside parser with '#' comments, _parse_raw_rule with the %params scanner "
            "and the valkit validators, '!' and %context rows, _merge_toplevel, _compile_acl): for every structured ACL of "
            "any depth whose lines parse to their items' fields, the text aclgen prints compiles to compile_acl of the "
            "structured ACL (C06_text_roundtrip; C06_text_parse_printed, C06_text_tree_levels for the parser alone), two "
            "printed texts joined by a newline compile to compile_acl (A ++ B) incl. _merge_toplevel's uniters "
            "(C06_text_concat); for arbitrary (not printed) texts a + newline + b inserts a's then b's paths into one tree under "
            "computable guards (C06_text_concat_paths) and compiles to compile_acl of the items of a followed by the items of b "
            "(C06_text_concat_general, C06_text_concat_acl; rows the item reader skips are skipped on both sides); aclgen's "
            "line printer raw_rule is proved to print, for every row / flags / cant_delete / prio / generator names it can "
            "draw, a line inside the guard of the round trip (C06_print_raw: the %params scanner, split_list of joined "
            "lists, int(str(n))), so the round trip holds for every generated ACL with guards on the drawn atoms only "
            "(C06_text_roundtrip_generated); blank rows and indented '#' comments are irrelevant "
            "(C06_comment_blank_irrelevant, C06_comment_blank_line_irrelevant) while a '#' comment in column 0 is refuted to "
            "be (C06_col0_comment_irrelevant_refuted: it detaches the children below it). Correspondence: Coq evaluates model==implementation and the declarative predicates "
            "on the real apply_acl(tree, compile_acl_text(text, vendor), fatal_acl, exclusive) outputs (also "
            "filter_config and apply_acl_diff) over generated ACL texts (pairs A, B, A+B), targeted families (overlapping "
            "generators in exclusive mode, co-matching parents with conflicting child parameters) and a small exhaustive scope; "
            "and model==implementation for compile_acl_text itself on the compiled STRUCTURE (rule order, local/global side, "
            "nesting, merged cant_delete / prio / generator_names, exception kind, ParserError line and row) over ACL texts: "
            "clean prints, layout noise (indent units, tabs, blank lines, comments), spelling noise (irregular blanks, "
            "reordered / respelled / unknown / repeated %params, continuation rows, %context rows, duplicated lines), "
            "malformed texts (bad dedent -> ParserError, bad values -> ValidatorError, '!rule' -> NotImplementedError, bad "
            "%context -> ValueError), concatenations, a small exhaustive scope; on printed texts additionally "
            "implementation == compile_acl of the structured ACL, and the guard acl_okb of the round-trip theorem is "
            "evaluated on every generated structured ACL.",
    "technique": "Coq induction over trees/paths (first-event reference), domination order on rule sets for merges; "
                 "vm_compute differential check on real outputs",
    "note": "The filtering theorems quantify over compiled rule sets and structured ACLs; C06_text_roundtrip / "
            "C06_text_concat carry them over to compile_acl_text of printed ACL texts. Tied to the code by the correspondence "
            "run only: the model of the text front end itself (as every model), the pattern compiler, and that Model/AclText.v "
            "print_raw is aclgen's raw_rule (the guard acl_okb is still evaluated in Coq on every generated ACL; C06_print_raw "
            "proves it for print_raw on rows without a percent sign that are not ignore rows, generator names without blanks and "
            "commas, non-empty cant_delete lists). Not modelled: the effect of "
            "%context, re.error for rows outside the rule language, int() spellings of %prio other than decimal digits. "
            "Monotonicity fails on the unchanged code: "
            "six known findings C06/monotone/<cause>, each reproduced in the model with the same reason code.",
}

MONO_REASONS = {
    1: "reverse-cant_delete-rule-outranks-reverse-match",
    2: "reverse-cant_delete-rule-outranks-direct-match",
    3: "reverse-match-outranks-rule-with-children",
    4: "rule-turned-global-by-merge-loses-children",
    5: "global-rule-outranks-rule-with-children",
    6: "co-matching-rule-turned-global-loses-children",
    7: "merged-acl-does-not-match",
    99: "unexplained",
}

CLAUSES = ["subtree", "exact", "fatal", "idem", "monotone", "filter_config"]
AGREES = ["plain", "fatal", "twice", "merge"]


# ------------------------------------------------------------------ inputs

def small_scope_rules() -> list[dict]:
    out = []
    for pat in ["a", "a *", "no a", "~"]:
        for par in [{}, {"glob": True}, {"cd": [True]}]:
            for kids in [[], [{"pat": "b"}], [{"pat": "~", "glob": True}]]:
                it = {"pat": pat, "ign": False, "glob": False, "cd": None, "prio": 0, "gens": [], "kids": []}
                it.update(par)
                it["kids"] = [dict({"ign": False, "glob": False, "cd": None, "prio": 0, "gens": [], "kids": []}, **k)
                              for k in kids]
                out.append(it)
    return out


SMALL_TREE = {"a": {"b": {}, "c": {}}, "a 1": {"b": {}, "no b": {}}, "no a": {"b": {"c": {}}}, "no a 1": {}, "b": {"a": {}}}


def mk_case(vendor, a, b, tree, excl, filter_text, src):
    return {"vendor": vendor, "A": a, "B": b, "acl": aclgen.acl_text(a),
            "acl_b": None if b is None else aclgen.acl_text(b), "tree": tree, "exclusive": excl,
            "filter_text": filter_text, "src": src}


def gen_cases(ctx) -> list[dict]:
    rng = ctx.rng("gen")
    cases = []
    # (1) small exhaustive scope: A = [r1], B = [r2] over 36 rule shapes, one tree with every row kind
    rules = small_scope_rules()
    pairs = list(itertools.product(range(len(rules)), repeat=2))
    if not ctx.thorough:
        pairs = rng.sample(pairs, 200)
    for i, j in pairs:
        cases.append(mk_case("cisco", [rules[i]], [rules[j]], SMALL_TREE, False, False, "small-scope"))
    n_small = len(cases)
    # (2) random structured ACLs, trees drawn from them; (3) near-miss: ignore rules, uncovered rows,
    # unaligned parameter lists, trees drawn from the other ACL
    n_rand = 4600 if ctx.thorough else 380
    for k in range(n_rand):
        v = rng.choice(aclgen.ACL_VENDORS)
        rev = aclgen.VENDORS[v]
        excl = rng.random() < 0.25
        near = rng.random() < 0.3
        aligned = excl or not near or rng.random() < 0.5
        a = aclgen.gen_acl(rng, rev, ign_rate=(0.08 if near else 0.0), aligned=aligned,
                           max_depth=rng.choice([1, 2, 3, 3]))
        b = None
        if not excl and rng.random() < 0.6:
            b = aclgen.gen_acl_variant(rng, a, rev, aligned) if rng.random() < 0.6 else \
                aclgen.gen_acl(rng, rev, aligned=aligned, max_depth=2)
        src_acl = a + (b if (b and rng.random() < 0.4) else [])
        tree = aclgen.gen_tree(rng, src_acl, v, noise=(rng.choice([0.2, 0.4]) if near else rng.choice([0, 0, 0.1])),
                               budget=[rng.choice([10, 20, 32])])
        cases.append(mk_case(v, a, b, tree, excl, rng.random() < 0.25, "near-miss" if near else "structured"))
    # (4) targeted families: overlapping rules owned by several generators (exclusive mode), and
    # co-matching parents contributing the same child row with different parameters
    n_fam = 600 if ctx.thorough else 70
    for k in range(n_fam):
        v = rng.choice(aclgen.ACL_VENDORS)
        rev = aclgen.VENDORS[v]
        if k % 3 == 2:
            parts, tree = aclgen.gen_acl_shared_children(rng, rev)
            a = parts[0]
            b = [it for p in parts[1:] for it in p]
            cases.append(mk_case(v, a, b, tree, False, False, "family-shared-children"))
        elif k % 2 == 0:
            a, tree = aclgen.gen_acl_overlap(rng, rev)
            cases.append(mk_case(v, a, None, tree, True, False, "family-exclusive"))
        else:
            a, tree = aclgen.gen_acl_conflict(rng, rev)
            b = None
            if rng.random() < 0.4:
                b, _ = aclgen.gen_acl_conflict(rng, rev)
            cases.append(mk_case(v, a, b, tree, False, False, "family-child-conflict"))
    ctx.coverage["input_distribution"] = {"small_scope": n_small, "random": n_rand, "families": n_fam,
                                          "small_scope_rule": "A=[r1], B=[r2], r over {a, a *, no a, ~} x {plain, %global, "
                                                              "%cant_delete} x {no kids, kid b, kid ~ %global}, fixed 12-row tree"}
    return cases


def payload(c: dict) -> dict:
    return {k: c[k] for k in ("vendor", "acl", "acl_b", "tree", "exclusive", "filter_text")}


# ------------------------------------------------------------------ Coq terms

def coq_outcome(o: dict | None) -> str:
    if o is None:
        return "None"
    if "ok" in o:
        return f"(OTree {cforest(o['ok'])})"
    if "uncovered" in o:
        return f"(OUncovered {clist(cstr(x) for x in o['uncovered'])})"
    if "notexcl" in o:
        return f"(ONotExclusive {clist(cstr(x) for x in o['notexcl'])} {clist(cstr(x) for x in o['gens'])})"
    if "compile" in o:
        return "OCompileError"
    raise core.CheckFailure(f"unexpected implementation outcome {o}")


def coq_case(c: dict, o: dict) -> str:
    def opt(k):
        return copt(None if k not in o else coq_outcome(o[k]))
    return ("(C06Case " + " ".join([
        aclgen.coq_avendor(c["vendor"]), aclgen.coq_acl(c["A"]),
        copt(None if c["B"] is None else aclgen.coq_acl(c["B"])), cforest(c["tree"]), cbool(c["exclusive"]),
        coq_outcome(o["plain"]), coq_outcome(o["fatal"]), opt("twice"), opt("b"), opt("ab"), opt("fcfg")]) + ")")


# first pass: the declarative clauses on the real outputs, and model == implementation for the runs no clause pins
# down completely (B alone, A+B).  By C06_strict_modes the model equals the reference, so for the plain / strict /
# repeated runs agreement with the model is implied by holds_exact / holds_fatal / holds_idem; the individual
# agree_* predicates are evaluated only on failing cases, for the diagnosis.
PRED_ALL = "fun c => P_C06 c && agree_merge c"
PREDS_EACH = dict([(f"agree_{a}", f"agree_{a}") for a in AGREES] + [(f"holds_{h}", f"holds_{h}") for h in CLAUSES])


# ------------------------------------------------------------------ apply_acl_diff (filter_diff)

DIFF_IMPORTS = aclgen.ACL_IMPORTS + "\nFrom Annet Require Import Model.AclDiff Spec.P_C06_diff."
OPS = {"added": "OpAdded", "removed": "OpRemoved", "affected": "OpAffected", "moved": "OpMoved", "unchanged": "OpUnchanged"}


def tree_to_diff(rng, t: dict) -> list:
    return [[rng.choice(["added", "removed", "removed", "affected", "moved", "unchanged"]), row, tree_to_diff(rng, kids)]
            for row, kids in t.items()]


def coq_diff(d: list) -> str:
    return clist(f"(DT {OPS[op]} {cstr(row)} {coq_diff(kids)})" for op, row, kids in d)


def run_diff_stream(ctx, cases: list[dict]):
    """apply_acl_diff on diffs made from the generated trees: model agreement + reference."""
    rng = ctx.rng("diff")
    picked = [c for c in cases if c["src"] in ("structured", "near-miss", "family-child-conflict")]
    picked = picked[: (1500 if ctx.thorough else 120)]
    dcases = [{"vendor": c["vendor"], "acl": c["acl"], "A": c["A"], "diff": tree_to_diff(rng, c["tree"])} for c in picked]
    outs = core.run_impl_sharded("c06_runner.py", [{k: c[k] for k in ("vendor", "acl", "diff")} for c in dcases])
    for c, o in zip(dcases, outs):
        if "exc" in o:
            ctx.add_violation(core.Violation(signature="C06/implementation-raised",
                                             what="apply_acl_diff raised: " + o["exc"], replay={"diff_case": c, "impl": o}))
            return {"diff_cases": len(dcases)}
    terms = [f"({aclgen.coq_avendor(c['vendor'])}, {aclgen.coq_acl(c['A'])}, {coq_diff(c['diff'])}, "
             f"{copt(None if 'ok' not in o else coq_diff(o['ok']))})" for c, o in zip(dcases, outs)]
    res = core.run_case_files(ID, "c06diff", DIFF_IMPORTS, {"agree": "agree_diff", "holds": "holds_diff"}, terms,
                              per_file=30, tag="diff")
    for i in res["holds"][:2]:
        ctx.add_violation(core.Violation(
            signature="C06/filter_diff",
            what="apply_acl_diff differs from the reference (keep exactly the entries whose whole path is matched; a "
                 "removal governed by an all-cant_delete rule becomes 'affected')",
            replay={"diff_case": dcases[i], "impl": outs[i], "clause": "filter_diff"}))
    if not res["holds"]:
        for i in res["agree"][:1]:
            ctx.add_violation(core.Violation(
                signature="C06/model-impl-disagree/apply_acl_diff",
                what="Coq model of apply_acl_diff and the implementation differ",
                replay={"diff_case": dcases[i], "impl": outs[i], "correspondence": "apply_acl_diff"}, no_input=True))
    changed = sum(1 for c, o in zip(dcases, outs) if "ok" in o and o["ok"] != c["diff"])
    return {"diff_cases": len(dcases), "diff_cases_changed_by_filter": changed,
            "diff_disagreements": len(res["agree"])}


# ------------------------------------------------------------------ compile_acl_text on ACL TEXTS (Model/AclText.v)

# agree: model == implementation; holds: implementation == compile_acl of the structured ACL the text was printed
# from; domain: that structured ACL meets the guard of C06_text_roundtrip (so the theorem speaks about this text)
TEXT_PREDS = {"agree": "agree_text", "holds": "holds_text",
              "domain": "fun c => match ct_src c with Some a => acl_okb a | None => true end"}


def gen_text_cases(ctx) -> list[dict]:
    """{"vendor", "ctext", "A": structured ACL or None, "kind"}"""
    rng = ctx.rng("text")
    out = []
    n = 2600 if ctx.thorough else 240
    for k in range(n):
        v = rng.choice(aclgen.ACL_VENDORS)
        rev = aclgen.VENDORS[v]
        a = aclgen.gen_acl(rng, rev, ign_rate=(0.05 if k % 5 == 0 else 0.0), aligned=rng.random() < 0.5,
                           max_depth=rng.choice([1, 2, 3, 3, 4]))
        x = k % 10
        if x < 2:
            out.append({"vendor": v, "ctext": aclgen.acl_text(a), "A": a, "kind": "clean"})
        elif x < 4:
            out.append({"vendor": v, "ctext": acltext.layout_text(rng, a), "A": a, "kind": "layout"})
        elif x < 7:
            out.append({"vendor": v, "ctext": acltext.spelled_text(rng, a), "A": None, "kind": "spelled"})
        elif x < 9:
            t, kind = acltext.malformed_text(rng, a)
            out.append({"vendor": v, "ctext": t, "A": None, "kind": "malformed-" + kind})
        else:                                               # two texts one after the other (A + "\n" + B)
            b = aclgen.gen_acl_variant(rng, a, rev) if rng.random() < 0.6 else aclgen.gen_acl(rng, rev, max_depth=2)
            if rng.random() < 0.5:
                out.append({"vendor": v, "ctext": aclgen.acl_text(a) + "\n" + aclgen.acl_text(b), "A": a + b,
                            "kind": "concat-clean"})
            else:
                out.append({"vendor": v, "ctext": acltext.spelled_text(rng, a) + "\n" + acltext.layout_text(rng, b),
                            "A": None, "kind": "concat-spelled"})
    # a small exhaustive scope of one- and two-line texts over a few row / parameter spellings
    rows = ["a", "a  b", "!a", "interface x", "%context=a:b", "%context=a", "!"]
    pars = ["", " %global", "  %cant_delete=0,1", "\t%prio=2", " %prio=x", " %generator_names=g1,g2", "\n  %global"]
    small = []
    for r1 in rows:
        for p1 in pars:
            small.append({"vendor": "cisco", "ctext": r1 + p1, "A": None, "kind": "small-scope"})
            for r2 in rows[:3]:
                for ind in ["", "  "]:
                    small.append({"vendor": "cisco", "ctext": r1 + p1 + "\n" + ind + r2 + rng.choice(pars), "A": None,
                                  "kind": "small-scope"})
    return out + (small if ctx.thorough else rng.sample(small, 160))


def run_text_stream(ctx):
    """compile_acl_text: model == implementation on the compiled STRUCTURE (row order, nesting, merged
    parameters, local/global side, exception kind and ParserError line) and, for texts printed from a
    structured ACL, implementation == compile_acl of the structured ACL."""
    tcases = gen_text_cases(ctx)
    outs = core.run_impl_sharded("c06_runner.py", [{"vendor": c["vendor"], "ctext": c["ctext"]} for c in tcases])
    for c, o in zip(tcases, outs):
        if "exc" in o:
            ctx.add_violation(core.Violation(signature="C06/implementation-raised",
                                             what="compile_acl_text raised an unexpected exception: " + o["exc"],
                                             replay={"text_case": c, "impl": o}))
            return {"text_cases": len(tcases)}
    terms = [acltext.coq_case(c["ctext"], c["A"], o) for c, o in zip(tcases, outs)]
    res = core.run_case_files(ID, "ctcase", acltext.TEXT_IMPORTS, TEXT_PREDS, terms, per_file=40, tag="text")
    for i in res["domain"][:1]:
        ctx.add_violation(core.Violation(
            signature="C06/text-printer-domain",
            what="a generated structured ACL is outside the guard acl_okb of C06_text_roundtrip (a printed line does "
                 "not parse, in the model, to the fields of its item)",
            replay={"text_case": tcases[i], "impl": outs[i], "correspondence": "printer-domain"}, no_input=True))
    for i in res["holds"][:2]:
        ctx.add_violation(core.Violation(
            signature="C06/text-roundtrip",
            what="compile_acl_text of a printed structured ACL differs from the structured compile (rule order, "
                 "nesting, merged parameters or local/global side)",
            replay={"text_case": tcases[i], "impl": outs[i], "clause": "text-roundtrip"}))
    if not res["holds"]:
        for i in res["agree"][:1]:
            ctx.add_violation(core.Violation(
                signature="C06/model-impl-disagree/compile_acl_text",
                what="Coq model of compile_acl_text (text front end) and the implementation differ on the compiled structure",
                replay={"text_case": tcases[i], "impl": outs[i], "correspondence": "compile_acl_text"}, no_input=True))
    printer_cov = run_printer_check(ctx, tcases)
    kinds, results = {}, {}
    for c, o in zip(tcases, outs):
        kinds[c["kind"]] = kinds.get(c["kind"], 0) + 1
        r = o.get("err", "rules")
        results[r] = results.get(r, 0) + 1
    return {"text_cases": len(tcases), "text_kind_histogram": kinds, "text_result_histogram": results, **printer_cov,
            "text_disagreements": len(res["agree"]), "text_roundtrip_failures": len(res["holds"]),
            "text_distinct": len({(c["ctext"]) for c in tcases}),
            "text_max_rules": max((acltext.rules_size(o["rules"]) for o in outs if "rules" in o), default=0)}


PRINTER_IMPORTS = ("From Coq Require Import List String Bool Arith.\nFrom Annet Require Import Base.Str Model.Acl "
                   "Model.AclText Proofs.AclTextProofs Proofs.AclTextPrint.\nFrom Annet Require Model.Json.\n"
                   "Import ListNotations.\nOpen Scope string_scope.")


def coq_gitem(it: dict) -> str:
    cd = copt(None if it.get("cd") is None else clist(cbool(b) for b in it["cd"]))
    return (f"(GItem {cstr(it['pat'])} {cbool(bool(it.get('glob')))} {cd} {cbool(bool(it.get('cd_bare')))} "
            f"{core.cnat(it.get('prio', 0))} {cbool(bool(it.get('prio_explicit')))} "
            f"{clist(cstr(g) for g in it.get('gens', []))} {clist(coq_gitem(k) for k in it.get('kids', []))})")


def has_ign(items: list[dict]) -> bool:
    return any(it.get("ign") or has_ign(it.get("kids", [])) for it in items)


def run_printer_check(ctx, tcases: list[dict]) -> dict:
    """Model/AclText.v print_raw == aclgen.raw_rule, and the guard of C06_text_roundtrip_generated, on every
    generated structured ACL without '!' lines: Coq compares the lines of aitem_of (print_raw) with the lines
    aclgen printed and evaluates gitem_okb (guards on the drawn atoms only)."""
    acls, seen = [], set()
    for c in tcases:
        if c["A"] is not None and not has_ign(c["A"]):
            t = aclgen.acl_text(c["A"])
            if t not in seen:
                seen.add(t)
                acls.append(c["A"])
    if not acls:
        return {"printer_cases": 0}
    terms = [f"({clist(coq_gitem(it) for it in a)}, {cstr(aclgen.acl_text(a))})" for a in acls]
    preds = {"printer": "fun c => String.eqb (acl_text (map aitem_of (fst c))) (snd c)",
             "atoms": "fun c => forallb gitem_okb (fst c)"}
    res = core.run_case_files(ID, "(list gitem * string)", PRINTER_IMPORTS, preds, terms, per_file=40, tag="printer")
    for i in res["printer"][:1]:
        ctx.add_violation(core.Violation(
            signature="C06/text-printer-model",
            what="Model/AclText.v print_raw / acl_text differ from harness/aclgen.py raw_rule / acl_text on a generated ACL",
            replay={"printer_case": acls[i], "correspondence": "printer-model"}, no_input=True))
    # ACLs whose drawn atoms are outside gitem_okb are only counted: for them the round trip rests on the guard
    # acl_okb, which the text stream evaluates on every generated ACL anyway
    return {"printer_cases": len(acls), "printer_model_disagreements": len(res["printer"]),
            "printer_atoms_outside_guard": len(res["atoms"])}


def unexpected(o: dict) -> str | None:
    for k, r in o.items():
        if "exc" in r:
            return f"{k}: {r['exc']}"
    return None


def tree_size(t: dict) -> int:
    return sum(1 + tree_size(v) for v in t.values())


def tree_depth(t: dict) -> int:
    return 0 if not t else 1 + max(tree_depth(v) for v in t.values())


def evaluate(cases: list[dict], outs: list[dict], tag: str):
    """-> (indices with any failing predicate, {pred: [indices]}, {index: mono reason code})"""
    terms = [coq_case(c, o) for c, o in zip(cases, outs)]
    res = core.run_case_files(ID, TY, IMPORTS, {"all": PRED_ALL}, terms, per_file=24, tag=tag)
    bad = res["all"]
    each = {k: [] for k in PREDS_EACH}
    codes = {}
    if bad:
        sub = core.run_case_files(ID, TY, IMPORTS, PREDS_EACH, [terms[i] for i in bad], per_file=8, tag=tag + "_each")
        each = {k: [bad[j] for j in v] for k, v in sub.items()}
        mono = each["holds_monotone"]
        if mono:
            # classify in one parallel pass: predicate b<k> is false exactly where bit k of the reason code is set
            kp = {f"b{k}": f"fun c => negb (Nat.testbit (mono_code c) {k})" for k in (0, 1, 2, 6)}
            cres = core.run_case_files(ID, TY, IMPORTS, kp, [terms[i] for i in mono], per_file=6, tag=tag + "_mono")
            for j, i in enumerate(mono):
                code = sum(1 << k for k in (0, 1, 2) if j in cres[f"b{k}"])
                codes[i] = 99 if j in cres["b6"] else code
    return bad, each, codes


def rep(c: dict, o: dict) -> dict:
    return {"case": {k: c[k] for k in ("vendor", "acl", "acl_b", "tree", "exclusive", "filter_text", "A", "B")}, "impl": o}


WHAT = {
    "subtree": "apply_acl's result is not an order-preserving sub-tree of its input",
    "exact": "apply_acl's result differs from the reference (exactly the lines whose whole path is covered; "
             "errors name the first offending line)",
    "fatal": "apply_acl(fatal_acl=True) differs from the reference: it must raise AclError naming the first row at a "
             "covered parent that no rule matches, and otherwise return the lenient result",
    "idem": "filtering the filtered tree again changes it",
    "filter_config": "annlib.filter_acl.filter_config differs from the reference filter",
}


def run(ctx):
    import time
    t0 = time.time()
    core.proof_stage(ctx, THEOREM_FILE)
    t1 = time.time()
    cases = gen_cases(ctx)
    outs = core.run_impl_sharded("c06_runner.py", [payload(c) for c in cases])
    t2 = time.time()
    crashed = [i for i, o in enumerate(outs) if unexpected(o)]
    for i in crashed[:1]:
        ctx.add_violation(core.Violation(
            signature="C06/implementation-raised",
            what="apply_acl / compile_acl_text raised an unexpected exception: " + str(unexpected(outs[i])),
            replay=rep(cases[i], outs[i])))
    keep = [i for i in range(len(cases)) if i not in set(crashed)]
    kc, ko = [cases[i] for i in keep], [outs[i] for i in keep]
    # the text front end stream is independent of the filtering streams: run it beside them
    from concurrent.futures import ThreadPoolExecutor
    t3 = time.time()

    def text_job():
        cov = run_text_stream(ctx)
        cov["seconds"] = round(time.time() - t3, 1)
        return cov
    with ThreadPoolExecutor(max_workers=1) as ex:
        text_future = ex.submit(text_job)
        bad, each, codes = evaluate(kc, ko, "cases")
        diff_cov = run_diff_stream(ctx, kc)
        text_cov = text_future.result()
    ctx.coverage["timing_s"] = {"proof_stage": round(t1 - t0, 1), "implementation_runs": round(t2 - t1, 1),
                                "coq_evaluation": round(time.time() - t2, 1)}
    holds_failed = False
    for cl in CLAUSES:
        if cl == "monotone":
            continue
        for j in each[f"holds_{cl}"][:2]:
            holds_failed = True
            ctx.add_violation(core.Violation(signature=f"C06/{cl}", what=WHAT[cl], replay=dict(rep(kc[j], ko[j]), clause=cl)))
    mono_hist: dict = {}
    seen_reason = set()
    for j in each["holds_monotone"]:
        name = MONO_REASONS.get(codes.get(j, 99), "unexplained")
        mono_hist[name] = mono_hist.get(name, 0) + 1
        if name in seen_reason:
            continue
        seen_reason.add(name)
        holds_failed = holds_failed or name == "unexplained"
        ctx.add_violation(core.Violation(
            signature=f"C06/monotone/{name}",
            what=f"a line passed by ACL A (or B) alone is dropped by the merged ACL A+B ({name})",
            replay=dict(rep(kc[j], ko[j]), clause="monotone", reason=name)))
    if not holds_failed and each["agree_merge"]:
        # search for a concrete failing input: the merged text A+"\n"+B as a single ACL
        js = each["agree_merge"][:6]
        sc = [mk_case(kc[j]["vendor"], kc[j]["A"] + kc[j]["B"], None, kc[j]["tree"], False, False, "merged-as-single")
              for j in js]
        so = core.run_impl("c06_runner.py", [payload(c) for c in sc])
        ok = [i for i, o in enumerate(so) if not unexpected(o)]
        if ok:
            _, seach, _ = evaluate([sc[i] for i in ok], [so[i] for i in ok], "search")
            for cl in ("exact", "fatal", "subtree", "idem"):
                for i in seach[f"holds_{cl}"][:1]:
                    holds_failed = True
                    ctx.add_violation(core.Violation(signature=f"C06/{cl}", what=WHAT[cl],
                                                     replay=dict(rep(sc[ok[i]], so[ok[i]]), clause=cl)))
    if not holds_failed:
        for a in AGREES:
            for j in each[f"agree_{a}"][:1]:
                ctx.add_violation(core.Violation(
                    signature=f"C06/model-impl-disagree/{a}",
                    what=f"Coq model of apply_acl/compile_acl_text and the implementation differ ({a} run); every "
                         f"property clause holds on the implementation outputs explored",
                    replay=dict(rep(kc[j], ko[j]), correspondence=a), no_input=True))
    # coverage
    seen, nt = set(), 0
    hist = {"tree": 0, "uncovered": 0, "notexcl": 0, "compile": 0}
    vend, srcs = {}, {}
    dropped_some = 0
    for c, o in zip(kc, ko):
        kind = {"ok": "tree", "uncovered": "uncovered", "notexcl": "notexcl", "compile": "compile"}
        hist[kind[list(o["fatal"])[0]]] += 1
        vend[c["vendor"]] = vend.get(c["vendor"], 0) + 1
        srcs[c["src"]] = srcs.get(c["src"], 0) + 1
        h = core.canon_hash([c["vendor"], c["acl"], c["acl_b"], c["tree"], c["exclusive"]])
        if h in seen:
            continue
        seen.add(h)
        p = o["plain"]
        partial = "ok" in p and 0 < tree_size(p["ok"]) < tree_size(c["tree"])
        dropped_some += partial
        if (partial and tree_depth(p["ok"]) >= 2) or "ok" not in p or "ok" not in o["fatal"]:
            nt += 1
    ctx.coverage.update({
        "evaluations": len(cases),
        "distinct_nontrivial": nt,
        "rule": "distinct by (vendor, ACL text A, ACL text B, tree, exclusive); non-trivial = the lenient run kept a "
                "proper non-empty part of the tree with nesting >= 2, or a run raised (AclError / AclNotExclusiveError / "
                "NotImplementedError)",
        "samples": [rep(c, o) for c, o in list(zip(kc, ko))[-2:]],
        "traces_validated_against_impl": len(kc) * 3 + sum(2 for c in kc if c["B"] is not None),
        "disagreements_checked": sum(len(each[f"agree_{a}"]) for a in AGREES),
        "strict_outcome_histogram": hist,
        "vendor_histogram": vend,
        "source_histogram": srcs,
        "partial_filter_cases": dropped_some,
        "monotone_pairs": sum(1 for c in kc if c["B"] is not None),
        "monotone_failures_by_reason": mono_hist,
        "apply_acl_diff": diff_cov,
        "compile_acl_text": text_cov,
        "exclusive_cases": sum(1 for c in kc if c["exclusive"]),
        "filter_config_cases": sum(1 for c in kc if c["filter_text"]),
        "max_tree_rows": max((tree_size(c["tree"]) for c in kc), default=0),
        "max_tree_depth": max((tree_depth(c["tree"]) for c in kc), default=0),
        "max_acl_rules": max((aclgen.acl_size(c["A"]) for c in kc), default=0),
    })
    ctx.assumptions += [
        "rule rows restricted to the plain rule language of Model/Pattern.v (literal words, *, */re/, trailing ~)",
        "in exclusive mode every rule has as many generator names as cant_delete flags or none (what annet.generators "
        "builds); otherwise merge_dicts' equality shortcut depends on the scratch key attrs['match']",
        "compile_acl_text's lru_cache is cleared before every run (compiled rules carry scratch state)",
        "not modelled: the effect of %context rows (they are parsed and skipped; the compiled structure compared does "
        "not contain attrs['context']), with_annotations, '<name>' groups, '...' and '~/re/' endings, apply_acl_fileconfig",
        "ACL texts: ASCII, blanks are space and tab (the model also treats \\n..\\r as blanks); %prio values of decimal "
        "digits (int() also accepts a sign, inner underscores, non-ASCII digits: the model answers ValidatorError there); "
        "the compiled STRUCTURE is compared (rule ids in order, local/global side, nesting, cant_delete, prio, "
        "generator_names, exception kind, ParserError line and row), never the regexps",
        "filter_config: the text join / re-parse round trip is taken as the identity (C04/C05)",
    ]


def replay(ctx, doc):
    if "printer_case" in doc["replay"]:
        a = doc["replay"]["printer_case"]
        term = f"({clist(coq_gitem(it) for it in a)}, {cstr(aclgen.acl_text(a))})"
        res = core.run_case_files(ID, "(list gitem * string)", PRINTER_IMPORTS,
                                  {"printer": "fun c => String.eqb (acl_text (map aitem_of (fst c))) (snd c)"}, [term],
                                  tag="replay")
        print("printer model == aclgen:", not res["printer"])
        return 1 if res["printer"] else 0
    if "text_case" in doc["replay"]:
        c = doc["replay"]["text_case"]
        o = core.run_impl("c06_runner.py", [{"vendor": c["vendor"], "ctext": c["ctext"]}])[0]
        if "exc" in o:
            print("impl raised:", o["exc"])
            return 1
        res = core.run_case_files(ID, "ctcase", acltext.TEXT_IMPORTS, TEXT_PREDS, [acltext.coq_case(c["ctext"], c["A"], o)],
                                  tag="replay")
        print("impl:", o, "failing:", [k for k, v in res.items() if v])
        return 1 if res["holds"] else 0
    if "diff_case" in doc["replay"]:
        c = doc["replay"]["diff_case"]
        o = core.run_impl("c06_runner.py", [{k: c[k] for k in ("vendor", "acl", "diff")}])[0]
        term = (f"({aclgen.coq_avendor(c['vendor'])}, {aclgen.coq_acl(c['A'])}, {coq_diff(c['diff'])}, "
                f"{copt(None if 'ok' not in o else coq_diff(o['ok']))})")
        res = core.run_case_files(ID, "c06diff", DIFF_IMPORTS, {"agree": "agree_diff", "holds": "holds_diff"}, [term], tag="replay")
        print("impl:", o, "failing:", [k for k, v in res.items() if v])
        return 1 if res["holds"] else 0
    r = doc["replay"]["case"]
    c = dict(r, src="replay")
    out = core.run_impl("c06_runner.py", [payload(c)])[0]
    if unexpected(out):
        print("impl raised:", unexpected(out))
        return 1
    bad, each, codes = evaluate([c], [out], "replay")
    failing = sorted(k for k, v in each.items() if v)
    print("impl:", {k: list(v)[0] for k, v in out.items()}, "failing predicates:", failing,
          "monotone reason:", [MONO_REASONS.get(v, v) for v in codes.values()])
    return 1 if any(k.startswith("holds_") for k in failing) else 0
