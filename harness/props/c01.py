"""C01 — deploying the patch makes the diff empty (convergence)  (DESIGN §3.C01)."""
from __future__ import annotations

import random

from .. import core, pipeline as P
from ..core import cforest, clist, copt, cpair, cnat, cstr

ID = "C01"
THEOREM_FILE = "Properties/C01.v"
META = {
    "text": "Proof (Coq, coq/Properties/C01.v, 41 theorems, closed under the global context; any rule matcher, rulebooks of "
            "any nesting with %global rules, any ordering rulebook, trees of any depth, rows no rule knows anywhere): on the "
            "device of coq/Model/Device.v (one entry per (rule,key) slot per level), executing path by path the cmd_paths of "
            "the model of _diff_and_patch for (old,new) reaches expected(R,old,new) (C01_expected: default, undo_redo, "
            "permanent, ignore_changes logics); for default/undo_redo rules the known rows reached are exactly new's "
            "(C01_nested, C01_flat), rows no rule knows are untouched, the second diff is empty and the second patch has no "
            "command (C01_second_patch_empty), and P_C01 - the predicate evaluated on real outputs - holds of the model "
            "along every chain new_1..new_k (C01_chain; C01_chain_expected for declining logics, the domain being preserved "
            "by exec); the patch is always computed in the domain (C01_no_error); the ordering hypothesis holds for every "
            "ordering rulebook without %order_reverse (C01_order_ok_default) and is necessary (C01_order_reverse_refuted); "
            "literal convergence is false by design for permanent / ignore_changes (C01_permanent_refuted, "
            "C01_second_patch_not_empty_when_declined); exec_commute; cmd_paths follows the block nesting. %ordered rules: for a level all of whose rows are leaves of "
            "one %ordered rule, sequences of any length, in the computable domain wf_ord_flat (the key determines the row, "
            "order_ok_o) executing the model's command paths on old yields new as a SEQUENCE - equality of forests "
            "(C01_ordered_flat, C01_ordered_machine); the same below a chain of block headers of any length (C01_ordered_below_headers, "
            "by the header step C01_ordered_block_header, which holds for any body); the frame rule on sequences (C01_ordered_frame: on a "
            "device level of any shape, items of other slots and everything executed inside blocks leave the relative order of the "
            "%ordered rows unchanged, the %ordered commands act as the list machine); for a level of ANY shape - rows of one %ordered "
            "rule mixed with rows of default-diff rules of any logic and unknown rows, bodies of any depth - in the computable "
            "domain wf_ord_level the executed patch leaves the %ordered rows in new's SEQUENCE (C01_ordered_level_seq_partial: the "
            "sequence clause of the level itself, also when the level sits below a chain of block headers: C01_ordered_level_below_headers_seq_partial; the dict clause and the levels below rows are not proved); without 'the key determines the row' the order-sensitive reading is "
            "false: a re-texted %ordered row is re-created before rows that precede it in new (C01_ordered_retext_refuted, "
            "replayed on the real pipeline, known finding). %rewrite rules: the patch + device half is proved at every depth "
            "(C01_rewrite_patch_builds_partial: for every diff whose levels are governed by one %rewrite rule each with distinct "
            "keys, make_pre / make_patch / logic rewrite compute a patch and, under rw_keys_ok_b, executing it in the freshly "
            "reset block builds exactly the non-REMOVED entries in the diff's order, children alike - equality of forests); "
            "THE WHOLE BLOCK is proved too (C01_rewrite_block, C01_rewrite_flat; Proofs/ConvergeRewriteBlock.v): for a block header present "
            "in old and new whose bodies are governed by %rewrite rules at every depth, in the computable domain wf_rw_block (the key "
            "determines the row on every level, the ordering rulebook gives the direct commands of one level one sort key), the model "
            "of _diff_and_patch computes a patch and executing its command paths on old yields new - equality of forests, any depth "
            "and width; the body diff is cleared only if the bodies are equal (C01_rewrite_diff_cleared_only_if_equal) and built of "
            "it is new's body (C01_rewrite_diff_builds); a re-texted %rewrite key "
            "is dropped (C01_rewrite_retext_refuted) and a block mixing %rewrite and ordinary child rules loses its %rewrite "
            "rows when entered for another row (C01_rewrite_mixed_refuted), both replayed on the real pipeline. Correspondence: "
            "chains are run through the real _diff_and_patch / cmd_paths, Coq re-executes Device.exec on the REAL command "
            "paths, checks the runner's fed-back device state, the model's diff / patch / cmd_paths against the real ones, "
            "and evaluates P_C01's clauses (reaches expected, second patch a no-op and empty, second diff empty) per step. "
            "Shipped rulebooks: coq/Gen/Src_rules.v holds the RAW rule lines of every annet/rulebook/texts/* file as the real "
            "provider renders them for 16 canonical hardware strings; Coq parses them (Model/ShippedText.v: %params, `!`, "
            "%context, %ordered/%rewrite/%multiline rewriting, odict semantics) and the parsed patching / ordering / deploying "
            "rulebooks are compared by Coq with get_rulebook(hw) on every run. C01_shipped_order_sound: a structural condition "
            "on (ordering rulebook, rule set) - no %order_reverse pattern matches a removal command of an undo_redo rule, at any "
            "depth - implies, for ALL old/new of the Tier-A domain and the second-extension matcher, that the patch computed WITH "
            "the %order_reverse rules converges (Proofs/ConvergeMainQ.v: the induction of ConvergeMain.v under an abstract "
            "invariant); C01_shipped_order_ok evaluates the condition by vm_compute on every shipped pair; the literal-word test lit_quiet "
            "used for huawei's pairs is proved sound for the pattern model for every negation word that is a word (C01_lit_quiet_sound: "
            "no blank, *, ~, braces; false without that guard: C01_lit_quiet_sound_statement_refuted, witness replayed on the real "
            "_make_reverse / compile_row_regexp; every shipped negation word passes by computation), so the convergence conclusion holds "
            "for ALL shipped pairs with no hypothesis (C01_shipped_converges_all).",
    "technique": "Coq induction on the size of the two config trees with a slot-by-slot analysis of one level (diff entries -> "
                 "make_pre grouping -> logic -> stable sort -> block stream -> path stack -> device); vm_compute evaluation "
                 "of Device.exec / expected / P_C01 on the real pipeline's outputs along chains",
    "note": "Partial. Proved for the domain wf_C01 (computable guard): block formatter families (not the flattened "
            "Juniper/Nokia/RouterOS command forms), default diff logic, logics default/undo_redo/permanent/ignore_changes, no "
            "%force_commit, unambiguous removal commands, at most one row per (rule,key). Not proved (statements kept in "
            "Properties/C01.v): %ordered rows with bodies / mixed with other rules: the dict clause and the %ordered sequences of the "
            "levels below (C01_ordered_general_statement; proved: the flat one-rule level also below block headers as equality of "
            "forests, and the sequence of the %ordered rows of one level of any shape; missing: re-creation of the body of a MOVED "
            "row; the ordered reading P_C01o is evaluated on every real output), %rewrite blocks outside wf_rw_block (bodies mixing %rewrite and ordinary rules, re-texted keys: refuted; a header that is added or removed rather than kept; P_C01 is not evaluated on real outputs for %rewrite rules - the model's diff / patch / cmd_paths are compared with the real ones), %multiline, second patch a no-op when a change was declined (checked on "
            "every real output). Shipped rulebooks: the convergence conclusion is proved for every shipped (ordering, patching) pair "
            "huawei's included, without any hypothesis (C01_shipped_converges, C01_shipped_converges_all: the literal-word test "
            "lit_quiet is proved sound, C01_lit_quiet_sound; it is still tested on the real regexps as well); the literal form 'no removal after a direct command of its slot' under "
            "the structural condition is stated only (C01_shipped_undo_first_statement). On huawei / cisco / arista / aruba / pc "
            "rulebooks the Tier-A domain is EMPTY for configurations with a known row, because their catch-all rules "
            "`<negation> ~ %global` make every removal command a known row (C01_shipped_catchall_outside_domain): the shipped "
            "theorems are non-vacuous only for rulebooks without such a catch-all (b4com, nexus, iosxr, routeros, ...). "
            "Rules with a vendor %logic / %diff_logic, %multiline, %ignore_case or a pattern outside Model/PatternY.v are kept "
            "as opaque rules outside the domain (counted in the evidence). "
            "P_C01 is evaluated on real outputs also for %force_commit rulebooks. Vendor-specific %logic functions are out "
            "of the property's quantifier. Theorems are about the Gallina models; models are tied to /repo by the "
            "correspondence run (generated rulebooks, 8 block vendors). The device itself (Model/Device.v) is a definition "
            "of the property, not a model of annet code. Shipped witness search (testing, harness/shipped_run.py, "
            "Spec/P_C01s.v): for every undo_redo rule of every shipped *.rul text (chains read by Coq from the RAW lines) "
            "a pair (old, new) in which one row of the rule changes its text inside its key, under the block headers the "
            "rule needs, is deployed through the real _diff_and_patch with get_rulebook(hw) (patching AND ordering "
            "rulebook as shipped); Coq executes the real command paths on the reference device with the FOCUSED rule set "
            "(the chain alone, headers with default logics - the catch-all `<negation> ~ %global` is not in it, so these "
            "configurations are inside wf_A_y) and evaluates order_ok / reaches / second patch no-op and empty / second "
            "diff empty (P_C01s); the runner checks with the real matcher that every row is matched, in the full "
            "rulebook, by the rule it was built from. This is what turns a failure of C01_shipped_order_ok into a "
            "concrete non-converging pair.",
}
IMPORTS = P.PIPE_IMPORTS + "\nFrom Annet Require Import Model.Device Spec.P_C01 Spec.P_C01o."

# ------------------------------------------------------------------ generator (slot-aware)


def _tok_match(tok: str, w: str) -> bool:
    if tok == "*":
        return True
    if tok.startswith("*/"):
        return w.isalnum() and w.islower() or w.isdigit() or all(ch.islower() or ch.isdigit() for ch in w)
    return tok == w


def crude_slot(row: str, rules: list[dict]):
    """(rule, key) of a row among `rules` (first match, prefix semantics); None if unknown/ignored.
    Only steers the generator; the real matcher and the Coq model decide."""
    ws = row.split()
    for r in rules:
        ps = r["pat"].split()
        tilde = ps[-1] == "~"
        core_p = ps[:-1] if tilde else ps
        if len(ws) < len(core_p) + (1 if tilde else 0):
            continue
        if all(_tok_match(p, w) for p, w in zip(core_p, ws)):
            if r["ign"]:
                return None
            key = [w for p, w in zip(core_p, ws) if p.startswith("*")]
            if tilde:
                key.append(" ".join(ws[len(core_p):]))
            return r, tuple(key)
    return None


def level_rules(rules: list[dict], inherited: list[dict]) -> list[dict]:
    loc = [r for r in rules if r["ign"] or not r["glob"]]
    glo = [r for r in rules if r["glob"] and not r["ign"]]
    return loc + glo + inherited


def child_level(r: dict, rules: list[dict], inherited: list[dict], row: str | None = None):
    glo = [x for x in rules if x["glob"] and not x["ign"]]
    if r["glob"]:
        return [], glo + inherited
    kids = list(r["kids"])
    if row is not None:
        # the children rules of every local rule matching the block header apply below it (merged by
        # _select_match), not only those of the first match
        for o in rules:
            if o is not r and not o["ign"] and not o["glob"] and o["kids"] and P._fits(o["pat"], row):
                kids += [k for k in o["kids"] if all(k["pat"] != x["pat"] for x in kids)]
    return kids, glo + inherited


def gen_tree(rng: random.Random, rules: list[dict], inherited: list[dict], depth: int, density: float) -> dict:
    lv = level_rules(rules, inherited)
    t: dict = {}
    slots = set()
    for r in lv:
        if r["ign"] or rng.random() > density:
            continue
        holes = "*" in r["pat"] or "~" in r["pat"]
        for _ in range(rng.choice([1, 1, 2, 3]) if holes else 1):
            row = P.inst(rng, r["pat"], extra=True)
            s = crude_slot(row, lv)
            # a row of a specific rule listed AFTER a generic sibling that also matches it belongs to the generic
            # rule's slot (first match) - keep it: it is the row both rules match
            if s is None or (id(s[0]), s[1]) in slots or row in t or (s[0] is not r and rng.random() < 0.3):
                continue
            slots.add((id(s[0]), s[1]))
            kids, inh = child_level(s[0], rules, inherited, row)
            t[row] = gen_tree(rng, kids, inh, depth + 1, density) if (kids or inh) and depth < 3 and rng.random() < 0.8 else {}
    if rng.random() < 0.15:
        t["unknown " + rng.choice(P.VAL)] = {} if rng.random() < 0.7 else {"unknown x": {}}
    items = list(t.items())
    rng.shuffle(items)
    return dict(items)


def mutate_tree(rng: random.Random, t: dict, rules: list[dict], inherited: list[dict], depth: int, rate: float) -> dict:
    lv = level_rules(rules, inherited)
    out: list = []
    slots = set()
    for row, kids in t.items():
        s = crude_slot(row, lv)
        if s is None:
            if rng.random() > rate * 0.5:
                out.append((row, kids))
            continue
        r, key = s
        ck, inh = child_level(r, rules, inherited, row)
        x = rng.random()
        if x < rate * 0.35:
            continue                                            # slot removed
        slots.add((id(r), key))
        if x < rate * 0.75 and not r["pat"].endswith("~"):
            n = len(r["pat"].split())                           # same slot, other text
            nrow = " ".join(row.split()[:n] + rng.sample(P.VAL, rng.randint(0, 2)))
            if nrow != row and crude_slot(nrow, lv) == s:
                keep_kids = rng.random() < 0.5
                out.append((nrow, mutate_tree(rng, kids, ck, inh, depth + 1, rate) if keep_kids
                            else (gen_tree(rng, ck, inh, depth + 1, 0.5) if (ck or inh) and depth < 3 else {})))
                continue
        out.append((row, mutate_tree(rng, kids, ck, inh, depth + 1, rate) if rng.random() < 0.8 else kids))
    for r in lv:
        if r["ign"] or rng.random() > rate * 0.5:
            continue
        row = P.inst(rng, r["pat"], extra=True)
        s = crude_slot(row, lv)
        if s is None or s[0] is not r or (id(r), s[1]) in slots:
            continue
        slots.add((id(r), s[1]))
        ck, inh = child_level(r, rules, inherited, row)
        out.append((row, gen_tree(rng, ck, inh, depth + 1, 0.6) if (ck or inh) and depth < 3 else {}))
    if rng.random() < rate * 0.5:
        rng.shuffle(out)
    res: dict = {}
    for k, v in out:
        if k not in res:
            res[k] = v
    return res


def gen_chain_case(rng: random.Random, tier_a_bias: float = 0.6) -> dict:
    v = rng.choice(P.BLOCK_VENDORS)
    allow_modes = rng.random() > tier_a_bias
    rules = P.gen_rules(rng, allow_modes=allow_modes)
    rev = P.VENDORS[v][0]
    if rev.isalpha() and rng.random() < 0.15:
        # a rule whose first word merely STARTS with the reverse word ("north" for "no", "undone" for "undo")
        r = rng.choice(rules)
        toks = r["pat"].split()
        word = rev + rng.choice(["rth", "ne", "table"])
        if not any(x["pat"].split()[0] == word for x in rules):
            r["pat"] = " ".join([word] + toks[1:])
    old = gen_tree(rng, rules, [], 0, 0.7)
    news = []
    cur = old
    for _ in range(rng.choice([1, 1, 2, 2, 3, 4])):
        x = rng.random()
        if news and x < 0.1:
            nxt = news[-1]                                       # deploy the same target again
        elif news and x < 0.2:
            nxt = old                                            # back to the start
        else:
            nxt = mutate_tree(rng, cur, rules, [], 0, rng.choice([0.15, 0.3, 0.5, 0.8]))
        news.append(nxt)
        cur = nxt
    r = rng.random()
    orules = [] if r < 0.4 else P.gen_ordering(rng, rules, P.VENDORS[v][0])
    return {"vendor": v, "rules": rules, "orules": orules, "old": old, "news": news,
            "patching": P.rules_text(rules), "ordering": P.ordering_text(orules)}


def gen_orev_case(rng: random.Random) -> dict:
    """an %order_reverse ordering rule listed after the direct rule of an undo_redo slot: the real
    pipeline then emits the re-creation before the removal (the hypothesis order_ok is necessary)"""
    c = gen_chain_case(rng, tier_a_bias=1.0)
    v = c["vendor"]
    rev = P.VENDORS[v][0]
    lit = rng.choice(["zeta", "omega", "kappa"])
    rule = {"pat": lit + " *", "ign": False, "glob": False, "logic": "undo_redo", "mode": "", "parent": False,
            "force_commit": False, "kids": []}
    rules = [rule] + c["rules"]
    orules = [{"pat": rule["pat"], "orev": False, "glob": False, "scope": None, "kids": []}] + \
             [o for o in c["orules"] if not o["pat"].startswith(lit)] + \
             [{"pat": f"{rev} {rule['pat']}", "orev": True, "glob": False, "scope": None, "kids": []}]
    k = rng.choice(P.VAL[:3])
    old = dict(c["old"])
    old[f"{lit} {k} {rng.choice(['x', 'y'])}"] = {}
    news = []
    for i, nw in enumerate(c["news"]):
        nw = dict(nw)
        nw[f"{lit} {k} v{i}"] = {}
        news.append(nw)
    return {"vendor": v, "rules": rules, "orules": orules, "old": old, "news": news,
            "patching": P.rules_text(rules), "ordering": P.ordering_text(orules)}


# ------------------------------------------------------------------ %ordered chains
# One %ordered rule at config depth 1-3 (rows with bodies of 0-2 levels, default rules beside it); a chain of
# targets in which its rows are replaced in place (non-last entry), inserted in the middle, appended, removed,
# reordered, re-texted inside their slot, edited inside their bodies.  The device semantics (DESIGN 3.C01):
# a new row lands at the tail of its level, so everything that must follow an inserted row has to be re-created.

OKEYS = ["1", "2", "3", "x", "y", "10.0.0.1", "Eth1", "7", "z9", "lo0", "gold", "iron", "q4"]
OEDITS = ["replace_inplace", "replace_inplace", "replace_inplace", "insert_middle", "insert_middle", "append", "remove",
          "swap", "rotate", "reverse", "move_one", "retext", "nested", "sibling", "same"]


def _orule(pat, **kw):
    r = {"pat": pat, "ign": False, "glob": False, "logic": "default", "mode": "", "parent": False,
         "force_commit": False, "kids": []}
    r.update(kw)
    return r


def _obody_rules(rng, levels: int) -> list[dict]:
    if levels <= 0:
        return []
    out = [_orule("set *"), _orule("opt * *", logic=rng.choice(["default", "default", "undo_redo"]))]
    blk = _orule("if *", kids=_obody_rules(rng, levels - 1) or [_orule("set *")])
    if rng.random() < 0.35:
        blk["mode"] = "ordered"
    out.append(blk)
    rng.shuffle(out)
    return out


def _obody(rng, rules: list[dict]) -> dict:
    t: dict = {}
    for r in rules:
        if rng.random() < 0.25:
            continue
        keys = set()
        for _ in range(rng.choice([1, 1, 2, 3])):
            row = P.inst(rng, r["pat"], extra=False)
            k = tuple(w for p_, w in zip(r["pat"].split(), row.split()) if p_ == "*")
            if row in t or k in keys:
                continue
            keys.add(k)
            t[row] = _obody(rng, r["kids"]) if r["kids"] else {}
    items = list(t.items())
    rng.shuffle(items)
    return dict(items)


def _copy(t: dict) -> dict:
    return {k: _copy(v) for k, v in t.items()}


def _edit_body(rng, t: dict, rules: list[dict]) -> bool:
    """one slot-preserving edit somewhere inside a body (in place)"""
    rows = list(t)
    rng.shuffle(rows)
    for row in rows:
        r = next((x for x in rules if x["pat"].split()[0] == row.split()[0]), None)
        if r and r["kids"] and t[row] and rng.random() < 0.6 and _edit_body(rng, t[row], r["kids"]):
            return True
    op = rng.choice(["add", "remove", "replace", "swap"])
    items = list(t.items())
    if op == "remove" and items:
        del items[rng.randrange(len(items))]
    elif op == "swap" and len(items) > 1:
        i, j = rng.sample(range(len(items)), 2)
        items[i], items[j] = items[j], items[i]
    elif op == "replace" and items:
        i = rng.randrange(len(items))
        ws = items[i][0].split()
        nrow = " ".join(ws[:-1] + [ws[-1] + "9"])
        if nrow in t:
            return False
        items[i] = (nrow, items[i][1])
    else:
        leafs = [x for x in rules if not x["kids"]]
        if not leafs:
            return False
        nrow = P.inst(rng, rng.choice(leafs)["pat"], extra=False) + "8"
        if nrow in t:
            return False
        items.insert(rng.randrange(len(items) + 1), (nrow, {}))
    t.clear()
    t.update(items)
    return True


def gen_ordered_chain(rng: random.Random) -> dict:
    v = rng.choice(P.BLOCK_VENDORS)
    depth = rng.choice([1, 1, 2, 2, 3])
    shape = rng.choice(["star", "star", "star", "star2", "tilde"])
    body_levels = rng.choice([0, 0, 1, 1, 2])
    pat = {"star": "entry *", "star2": "entry * *", "tilde": "entry ~"}[shape]
    grule = _orule(pat, mode="ordered", kids=[] if shape == "tilde" and body_levels == 0 else _obody_rules(rng, body_levels))
    level_rules = [grule]
    if rng.random() < 0.6:
        level_rules.append(_orule("mtu *", logic=rng.choice(["default", "undo_redo"])))
    if rng.random() < 0.35:
        level_rules.append(_orule("peer *", logic=rng.choice(["default", "permanent", "ignore_changes"])))
    rng.shuffle(level_rules)
    rules = level_rules
    parents = ["alpha *", "beta *"][:depth - 1]
    for ppat in parents[::-1]:
        sib = [_orule("name *")] if rng.random() < 0.4 else []
        rules = [_orule(ppat, kids=rules)] + sib
    rev = P.VENDORS[v][0]
    if rev.isalpha() and rng.random() < 0.1:
        word = rev + rng.choice(["rth", "ne", "table"])            # a first word that merely starts with the reverse word
        grule["pat"] = " ".join([word] + grule["pat"].split()[1:])
    head = grule["pat"].split()[0]
    fresh = list(OKEYS)
    rng.shuffle(fresh)

    def grow(k):
        if shape == "star2":
            return f"{head} {k} {rng.choice(OKEYS)}"
        if shape == "tilde":
            return f"{head} {k}" + (" " + rng.choice(OKEYS) if rng.random() < 0.4 else "")
        return f"{head} {k}" + (" " + rng.choice(["a", "b", "c"]) if rng.random() < 0.35 else "")

    def gbody():
        return _obody(rng, grule["kids"]) if grule["kids"] else {}

    n = rng.choice([2, 3, 3, 4, 5])
    group = [(grow(fresh.pop()), gbody()) for _ in range(n)]
    others = []
    if any(r["pat"] == "mtu *" for r in level_rules) and rng.random() < 0.8:
        others.append(("mtu " + rng.choice(OKEYS), {}))
    if any(r["pat"] == "peer *" for r in level_rules):
        others += [("peer " + k, {}) for k in rng.sample(OKEYS, rng.choice([1, 2]))]
    prow = [p_.replace("*", rng.choice(OKEYS)) for p_ in parents]
    extra = [{"name " + rng.choice(OKEYS): {}} if rng.random() < 0.3 else {} for _ in parents]
    unknown = rng.random() < 0.12

    def build(grp, oth, seed):
        r = random.Random(seed)
        items = [(k, _copy(b)) for k, b in grp]
        for o in oth:
            items.insert(r.randrange(len(items) + 1), o)
        lvl = {}
        for k, b in items:
            lvl.setdefault(k, b)
        if unknown:
            lvl["unknown thing"] = {}
        for pr, ex in zip(prow[::-1], extra[::-1]):
            lvl = dict({pr: lvl}, **ex)
        return lvl

    place = rng.random()
    old = build(group, others, place)
    news, edits = [], []
    cur, oth = group, others
    for _ in range(rng.choice([1, 2, 2, 3, 3, 4])):
        g2 = [(k, _copy(b)) for k, b in cur]
        o2 = list(oth)
        done = []
        for _ in range(rng.choice([1, 1, 2])):
            e = rng.choice(OEDITS)
            m = len(g2)
            if e == "replace_inplace" and m >= 2 and fresh:
                g2[rng.randrange(m - 1)] = (grow(fresh.pop()), gbody())            # never the last entry
            elif e == "insert_middle" and m >= 1 and fresh:
                g2.insert(rng.randrange(m), (grow(fresh.pop()), gbody()))          # never at the tail
            elif e == "append" and fresh:
                g2.append((grow(fresh.pop()), gbody()))
            elif e == "remove" and m >= 2:
                fresh.insert(0, g2.pop(rng.randrange(m))[0].split()[1])
            elif e == "swap" and m >= 2:
                i, j = rng.sample(range(m), 2)
                g2[i], g2[j] = g2[j], g2[i]
            elif e == "rotate" and m >= 2:
                k = rng.randrange(1, m)
                g2 = g2[k:] + g2[:k]
            elif e == "reverse" and m >= 2:
                g2.reverse()
            elif e == "move_one" and m >= 2:
                x = g2.pop(rng.randrange(m))
                g2.insert(rng.randrange(m), x)
            elif e == "retext" and shape == "star" and m >= 1:
                i = rng.randrange(m)                                               # same slot, other text
                ws = g2[i][0].split()
                nrow = " ".join(ws[:2] + [rng.choice(["a", "b", "c", "d"])])
                if nrow != g2[i][0]:
                    g2[i] = (nrow, g2[i][1] if rng.random() < 0.6 else gbody())
                else:
                    continue
            elif e == "nested" and grule["kids"]:
                cand = [b for _, b in g2]
                if not (cand and _edit_body(rng, rng.choice(cand), grule["kids"])):
                    continue
            elif e == "sibling" and o2:
                i = rng.randrange(len(o2))
                x = rng.random()
                if x < 0.3:
                    del o2[i]
                elif x < 0.8:
                    o2[i] = (o2[i][0].split()[0] + " " + rng.choice(OKEYS), {})
                else:
                    o2.append((o2[i][0].split()[0] + " " + rng.choice(OKEYS) + "5", {}))
            elif e == "same":
                pass
            else:
                continue
            done.append(e)
        news.append(build(g2, o2, place if rng.random() < 0.6 else rng.random()))
        edits.append(done)
        cur, oth = g2, o2
    orules = [] if rng.random() < 0.65 else P.gen_ordering(rng, rules, rev)
    return {"vendor": v, "rules": rules, "orules": orules, "old": old, "news": news,
            "patching": P.rules_text(rules), "ordering": P.ordering_text(orules), "stream": "ordered",
            "tags": {"depth": depth, "shape": shape, "body_levels": body_levels, "rows": n, "edits": edits}}


def _r(pat, logic="default", kids=(), parent=False):
    return {"pat": pat, "ign": False, "glob": False, "logic": logic, "mode": "", "parent": parent,
            "force_commit": False, "kids": list(kids)}


def _o(pat, orev=False):
    return {"pat": pat, "orev": orev, "glob": False, "scope": None, "kids": []}


def witnesses() -> list[dict]:
    """the inputs of the _refuted theorems of Properties/C01.v, replayed on the real pipeline"""
    w = []
    rules = [_r("b *", "undo_redo")]
    orules = [_o("b *"), _o("undo b *", True)]
    w.append({"name": "C01_order_reverse_refuted", "vendor": "huawei", "rules": rules, "orules": orules,
              "old": {"b 1 x": {}}, "news": [{"b 1 y": {}}],
              "expect": {"wf_step": True, "in_domain": False, "reaches": False}})
    w.append({"name": "C01_order_reverse_refuted/empty-ordering", "vendor": "huawei", "rules": rules, "orules": [],
              "old": {"b 1 x": {}}, "news": [{"b 1 y": {}}],
              "expect": {"in_domain": True, "reaches": True, "nothing_declined": True, "second_empty": True}})
    rules = [_r("interface *", "permanent", [_r("mtu *")])]
    w.append({"name": "C01_permanent_refuted", "vendor": "huawei", "rules": rules, "orules": [],
              "old": {"interface Eth1": {"mtu 1500": {}}}, "news": [{}],
              "expect": {"in_domain": True, "reaches": True, "nothing_declined": False, "second_noop": True},
              "second_diff_nonempty": True})
    rules = [_r("interface *", "default", [_r("description *", "ignore_changes")])]
    w.append({"name": "C01_second_patch_not_empty_when_declined", "vendor": "huawei", "rules": rules, "orules": [],
              "old": {"interface Eth1": {"description a x": {}}}, "news": [{"interface Eth1": {"description a y": {}}}],
              "expect": {"in_domain": True, "reaches": True, "nothing_declined": False, "second_noop": True},
              "second_patch_nonempty": True})
    # the %ordered row of key 2 changes its text: its direct command is emitted at the position of its REMOVED entry
    rules = [_orule("entry *", mode="ordered")]
    w.append({"name": "C01_ordered_retext_refuted", "vendor": "huawei", "rules": rules, "orules": [],
              "old": {"entry 2 x": {}, "entry 5": {}, "entry 6": {}},
              "news": [{"entry 7": {}, "entry 1 y": {}, "entry 2 y": {}}],
              "expect": {"in_domain_o": True, "has_ordered": True, "reaches": True, "reaches_o": False},
              "second_patch_nonempty": True})
    # %rewrite: the key of `ent *` does not contain the whole row; the re-texted row is dropped by the logic `rewrite`
    rules = [_r("xpl *", kids=[_orule("ent *", mode="rewrite")])]
    w.append({"name": "C01_rewrite_retext_refuted", "vendor": "huawei", "rules": rules, "orules": [],
              "old": {"xpl foo": {"ent 1 x": {}, "ent 2 x": {}}}, "news": [{"xpl foo": {"ent 1 y": {}, "ent 2 x": {}}}],
              "expect": {"in_domain": False, "in_domain_o": False, "reaches": False},
              "second_patch_nonempty": True})
    # a %rewrite child rule next to an ordinary one: entering the block for the ordinary row resets the %rewrite rows
    rules = [_r("xpl *", kids=[_orule("ent *", mode="rewrite"), _r("mtu *")])]
    w.append({"name": "C01_rewrite_mixed_refuted", "vendor": "huawei", "rules": rules, "orules": [],
              "old": {"xpl foo": {"ent 1": {}, "mtu 5": {}}}, "news": [{"xpl foo": {"ent 1": {}, "mtu 6": {}}}],
              "expect": {"in_domain": False, "in_domain_o": False, "reaches": False},
              "second_patch_nonempty": True})
    for c in w:
        c["patching"] = P.rules_text(c["rules"])
        c["ordering"] = P.ordering_text(c["orules"])
    return w


def ordered_retext(rules: list[dict], inherited: list[dict], old: dict, new: dict) -> bool:
    """some key of an %ordered rule has one row text in old and another in new, on a level both hold
    (the class of C01_ordered_retext_refuted); only names the signature of a failure Coq has found"""
    lv = level_rules(rules, inherited)
    so = {}
    for row in old:
        s_ = crude_slot(row, lv)
        if s_ and s_[0]["mode"] == "ordered":
            so[(id(s_[0]), s_[1])] = row
    for row in new:
        s_ = crude_slot(row, lv)
        if s_ and s_[0]["mode"] == "ordered" and so.get((id(s_[0]), s_[1]), row) != row:
            return True
    for row, sub in old.items():
        if row in new:
            s_ = crude_slot(row, lv)
            if s_:
                ck, inh = child_level(s_[0], rules, inherited)
                if ordered_retext(ck, inh, sub, new[row]):
                    return True
    return False


def payload(c: dict) -> dict:
    return {k: c[k] for k in ("vendor", "patching", "ordering", "old", "news")}


# ------------------------------------------------------------------ Coq terms

def coq_step(st: dict) -> str:
    err = "err" in st
    patch = None if err else P.coq_ptree(st["patch"])
    sec = st.get("second") or {}
    paths2 = None if (err or "err" in sec) else P.coq_paths(sec["cmd_paths"])
    return ("(C01Step " + " ".join([
        cforest(st["new"]), P.coq_diff(st.get("diff_full", [])), copt(patch), P.coq_paths(st.get("cmd_paths", [])),
        cforest(st.get("dev", st["old"])), copt(paths2), P.coq_diff(sec.get("diff", []))]) + ")")


def coq_case(c: dict, o: dict) -> str:
    return ("(C01Case " + " ".join([
        P.coq_vendor(c["vendor"]), P.coq_rset(c["rules"]), P.coq_ordering(c["orules"]), cforest(c["old"]),
        clist(coq_step(st) for st in o["steps"])]) + ")")


FLAGS = ("in_domain", "strict", "nothing_declined", "no_error", "reaches", "second_noop", "second_empty", "diff_empty",
         "agree_device", "agree_diff_full", "agree_patch", "agree_paths", "wf_step", "theorem_domain",
         "wf_step_o", "in_domain_o", "has_ordered", "reaches_o", "second_noop_o")
CLAUSES = {
    "no_error": "a logic raised AssertionError although old and new hold at most one row per (rule, key)",
    "reaches": "executing the emitted command paths on old does not reach expected(R, old, new)",
    "second_noop": "the second patch, computed on the device state after the first, changes the device again",
    "second_empty": "the second patch still contains commands although no permanent/ignore_changes rule declined a change",
    "diff_empty": "the second diff is not empty although no permanent/ignore_changes rule declined a change",
}
# the ordered reading (Spec/P_C01o.v): domain wf_step_o (adds %ordered rules), clauses with the order of %ordered rows
CLAUSES_O = {
    "no_error": CLAUSES["no_error"],
    "reaches_o": "executing the emitted command paths on old does not reach expected(R, old, new) with the rows of "
                 "%ordered rules in new's order",
    "second_noop_o": "the second patch changes the device again (rows or the order of %ordered rows)",
    "second_empty": CLAUSES["second_empty"],
    "diff_empty": CLAUSES["diff_empty"],
}
AGREE = ("agree_device", "agree_diff_full", "agree_patch", "agree_paths")

CASE_FILE = """From Coq Require Import List String Bool Arith ZArith NArith Ascii.
Import ListNotations.
Open Scope string_scope.
Open Scope list_scope.
{imports}
Definition cases : list (nat * c01case) := [
{body}
].
(* every chain is evaluated once; the verdict and the per-step flags are read off the same value *)
Definition rep := Eval vm_compute in (map (fun c => (fst c, c01o_report (snd c))) cases).
Eval vm_compute in (map fst (filter (fun x => negb (report_ok_o (snd x))) rep)).
Eval vm_compute in rep.
"""


def evaluate(ctx, cases: list[dict], outs: list[dict], tag="cases", per_file=12) -> dict:
    """Coq evaluates c01o_report (the clauses of P_C01 and of P_C01o, threaded through Device.exec) once per chain.
    Returns {"bad": [indices where report_ok is false], "flags": {i: [ {flag: bool} per step ]}}."""
    import ast
    import re
    import shutil
    from concurrent.futures import ThreadPoolExecutor
    core.ensure_built(IMPORTS)
    d = core.BUILD / "cases" / ID / tag
    if d.exists():
        shutil.rmtree(d)
    d.mkdir(parents=True)
    files = []
    for k in range(0, len(cases), per_file):
        body = ";\n".join(f"({i}%nat, {coq_case(cases[i], outs[i])})" for i in range(k, min(len(cases), k + per_file)))
        f = d / f"{tag}_{k // per_file}.v"
        f.write_text(CASE_FILE.format(imports=IMPORTS, body=body))
        files.append(f)

    def one(f):
        for attempt in range(3):
            p = core.coqc_file(f, timeout=1200)
            if p.returncode in (137, -9) and not (p.stdout + p.stderr).strip():
                continue        # killed by the kernel (memory pressure from other checks): evaluate again
            break
        if p.returncode != 0:
            raise core.CheckFailure(f"case file {f} failed to compile:\n{(p.stdout + p.stderr)[-3000:]}")
        parts = re.split(r"^\s*=\s", p.stdout, flags=re.M)[1:]
        if len(parts) != 2:
            raise core.CheckFailure(f"unexpected coqc output for {f}: {p.stdout[-2000:]}")
        bad = [int(x) for x in re.findall(r"\d+", parts[0].split(":")[0])]
        txt = parts[1].rsplit("\n     :", 1)[0]
        txt = txt.replace("true", "1").replace("false", "0").replace(";", ",")
        rep = ast.literal_eval(re.sub(r"\s+", " ", txt).strip())
        return bad, rep

    res = {"bad": [], "flags": {}}
    with ThreadPoolExecutor(max_workers=min(core.NPROC, 12)) as ex:
        for bad, rep in ex.map(one, files):
            res["bad"].extend(bad)
            for i, steps in rep:
                res["flags"][i] = [dict(zip(FLAGS, map(bool, fl))) for fl in steps]
    for f in files:
        for ext in (".vo", ".vok", ".vos", ".glob"):
            f.with_suffix(ext).unlink(missing_ok=True)
        (f.parent / ("." + f.stem + ".aux")).unlink(missing_ok=True)
    return res


def rule_feats(rules, acc=None, depth=0):
    acc = acc if acc is not None else {}
    for r in rules:
        if r["ign"]:
            acc["ignore"] = acc.get("ignore", 0) + 1
            continue
        for k, on in (("logic_" + r["logic"], True), ("mode_" + (r["mode"] or "none"), True), ("global", r["glob"]),
                      ("force_commit", r["force_commit"]), ("parent", r["parent"]), ("depth_%d" % depth, True)):
            if on:
                acc[k] = acc.get(k, 0) + 1
        rule_feats(r["kids"], acc, depth + 1)
    return acc


def judge(ctx, cases, outs, res):
    """Violations from the Coq-evaluated flags: a clause of P_C01 false on a step inside the domain is a
    failing input; a disagreement between the Coq models and the implementation (or between the runner's
    device mirror and Device.exec) without a failing clause is a broken correspondence."""

    def rep(i, k=None):
        r = {"case": payload(cases[i]), "impl": outs[i],
             "structured": {"rules": cases[i]["rules"], "orules": cases[i]["orules"]}}
        if k is not None:
            r["step"] = k
        return r

    failing = {}
    disagree = {}
    with_failing_clause = set()        # every case some step of which has a failing clause (whatever its signature)
    for i in sorted(res["flags"]):
        for k, fl in enumerate(res["flags"][i]):
            if fl["in_domain"]:
                bad = [c for c in CLAUSES if not fl[c]]
                if bad:
                    with_failing_clause.add(i)
                    failing.setdefault("+".join(bad), (i, k, bad))
            if fl["in_domain_o"]:
                bad = [c for c in CLAUSES_O if not fl[c]]
                if bad:
                    with_failing_clause.add(i)
                if bad and not (fl["in_domain"] and any(not fl[c] for c in CLAUSES)):
                    st_ = outs[i]["steps"][k]
                    if ordered_retext(cases[i]["rules"], [], st_["old"], st_["new"]):
                        failing.setdefault("ordered/retext-reorders", (i, k, bad))    # one class, whatever follows from it
                    else:
                        failing.setdefault("ordered/" + "+".join(bad), (i, k, bad))
            for a in AGREE:
                if not fl[a]:
                    disagree.setdefault(a, (i, k))
    for sig, (i, k, bad) in failing.items():
        ctx.add_violation(core.Violation(signature="C01/" + sig, what="; ".join({**CLAUSES, **CLAUSES_O}[c] for c in bad),
                                         replay=dict(rep(i, k), clauses=bad)))
    # a case whose report is false is explained by its failing clause(s): each signature is reported once (first
    # case), further cases of the same class are not a different defect
    explained = {i for (i, _, _) in failing.values()} | with_failing_clause
    for i in res["bad"]:
        if i not in explained and not any(not all(fl[a] for a in AGREE) for fl in res["flags"].get(i, [])):
            ctx.add_violation(core.Violation(signature="C01/report", what="report_ok_o is false", replay=rep(i)))
    if not failing:
        for a, (i, k) in disagree.items():
            ctx.add_violation(core.Violation(
                signature=f"C01/model-impl-disagree/{a}",
                what=f"Coq model and implementation differ on '{a}' (correspondence broken); P_C01 holds on every "
                     f"implementation output explored",
                replay=dict(rep(i, k), correspondence=a), no_input=True))


def run(ctx):
    core.proof_stage(ctx, THEOREM_FILE)
    rng = ctx.rng("chains")
    orng = ctx.rng("ordered-chains")                          # a separately seeded stream: %ordered chains
    n = 5000 if ctx.thorough else 300
    m = 2500 if ctx.thorough else 150
    wit = witnesses()
    cases = wit + [gen_orev_case(rng) if i % 12 == 5 else gen_chain_case(rng) for i in range(n)] + \
        [gen_ordered_chain(orng) for _ in range(m)]
    outs = core.run_impl_sharded("c01_runner.py", [payload(c) for c in cases])
    for i, o in enumerate(outs):
        if "fatal" in o:
            raise core.CheckFailure("c01_runner failed: " + o["fatal"][-800:])
    res = evaluate(ctx, cases, outs)
    judge(ctx, cases, outs, res)
    # the witnesses of the _refuted theorems behave on the real pipeline as in the model
    for i, w in enumerate(wit):
        fl = (res["flags"].get(i) or [{}])[0]
        st0 = outs[i]["steps"][0] if outs[i]["steps"] else {}
        ok = all(fl.get(k) == v for k, v in w["expect"].items()) and all(fl.get(a) for a in AGREE)
        if w.get("second_diff_nonempty"):
            ok = ok and bool((st0.get("second") or {}).get("diff"))
        if w.get("second_patch_nonempty"):
            ok = ok and bool((st0.get("second") or {}).get("cmd_paths"))
        if not ok:
            ctx.add_violation(core.Violation(
                signature="C01/witness-drift/" + w["name"],
                what=f"the witness of {w['name']} no longer behaves on the real pipeline as the theorem states "
                     f"(flags {fl})", replay={"case": payload(w), "impl": outs[i], "expected": w["expect"]}, no_input=True))
    fill_coverage(ctx, cases, outs, res)
    ctx.coverage["witnesses_replayed"] = [w["name"] for w in wit]
    # shipped rulebooks (Gen/Src_rules.v): Coq-parsed vs real compiled rulebook, the condition tables of
    # C01_shipped_order_ok, the hypothesis of C01_shipped_converges_partial on the real regexps
    from .. import shipped
    sh = {"correspondence": shipped.correspondence(ctx, ID)}
    sh["tables"] = shipped.tables_and_quiet(ctx, ID)
    # witness search: every shipped undo_redo rule, a row changing its text inside its key under the parents the rule
    # needs, deployed through the real _diff_and_patch with get_rulebook(hw); Coq executes the real command paths on
    # the reference device and evaluates P_C01s (Spec/P_C01s.v)
    from .. import shipped_run
    sh["runs"] = shipped_run.c01_stage(ctx, ID)
    ctx.coverage["shipped_rules"] = sh


def fill_coverage(ctx, cases, outs, res):
    n = len(cases)
    fl = res["flags"]
    seen, nt = set(), 0
    steps = cmds = 0
    st = {k: 0 for k in ("steps_evaluated", "steps_in_domain", "steps_in_strict_domain", "steps_in_domain_nothing_declined",
                         "steps_in_domain_something_declined", "steps_in_domain_nonempty_second_patch",
                         "steps_in_theorem_domain", "steps_excluded_by_order_ok", "steps_excluded_by_order_ok_not_converging")}
    hist_len, vend, feats = {}, {}, {}
    for i, (c, o) in enumerate(zip(cases, outs)):
        hist_len[len(c["news"])] = hist_len.get(len(c["news"]), 0) + 1
        vend[c["vendor"]] = vend.get(c["vendor"], 0) + 1
        for k, v in rule_feats(c["rules"]).items():
            feats[k] = feats.get(k, 0) + 1
        steps += len(o["steps"])
        cmds += sum(len(s.get("cmd_paths", [])) for s in o["steps"])
        for k, f in enumerate(fl.get(i, [])):
            st["steps_evaluated"] += 1
            st["steps_in_theorem_domain"] += f["theorem_domain"]
            if f["wf_step"] and not f["in_domain"]:
                st["steps_excluded_by_order_ok"] += 1
                st["steps_excluded_by_order_ok_not_converging"] += not (f["reaches"] and f["second_noop"])
            if f["in_domain"]:
                st["steps_in_domain"] += 1
                st["steps_in_strict_domain"] += f["strict"]
                st["steps_in_domain_nothing_declined" if f["nothing_declined"] else "steps_in_domain_something_declined"] += 1
                if (o["steps"][k].get("second") or {}).get("cmd_paths"):
                    st["steps_in_domain_nonempty_second_patch"] += 1
        h = core.canon_hash(payload(c))
        if h in seen:
            continue
        seen.add(h)
        f0 = fl.get(i, [])
        if f0 and f0[0]["in_domain"] and len(o["steps"][0].get("cmd_paths", [])) >= 3 and \
                any(len(p) >= 2 for p in o["steps"][0].get("cmd_paths", [])):
            nt += 1
    dom_first = [i for i in range(n) if fl.get(i) and fl[i][0]["in_domain"]]
    # the ordered reading: steps inside wf_step_o whose universe holds a row of an %ordered rule
    so = {k: 0 for k in ("steps_wf_step_o", "steps_in_ordered_domain", "steps_in_ordered_domain_with_ordered_rows",
                         "steps_with_ordered_rows_outside_ordered_domain", "steps_excluded_by_ordering_sort_keys")}
    oh: dict = {"chains": 0, "depth": {}, "shape": {}, "body_levels": {}, "edits": {}, "edits_evaluated_in_domain": {}}
    o_first = []
    for i, c in enumerate(cases):
        for k, f in enumerate(fl.get(i, [])):
            so["steps_wf_step_o"] += f["wf_step_o"]
            so["steps_in_ordered_domain"] += f["in_domain_o"]
            so["steps_in_ordered_domain_with_ordered_rows"] += f["in_domain_o"] and f["has_ordered"]
            so["steps_with_ordered_rows_outside_ordered_domain"] += f["has_ordered"] and not f["in_domain_o"]
            so["steps_excluded_by_ordering_sort_keys"] += f["wf_step_o"] and not f["in_domain_o"] and \
                (f["in_domain"] or not f["wf_step"])
        t = c.get("tags")
        if c.get("stream") != "ordered" or not t:
            continue
        oh["chains"] += 1
        for key in ("depth", "shape", "body_levels"):
            oh[key][str(t[key])] = oh[key].get(str(t[key]), 0) + 1
        for k, es in enumerate(t["edits"]):
            f = fl.get(i, [])
            ind = k < len(f) and f[k]["in_domain_o"] and f[k]["has_ordered"]
            for e in es:
                oh["edits"][e] = oh["edits"].get(e, 0) + 1
                if ind:
                    oh["edits_evaluated_in_domain"][e] = oh["edits_evaluated_in_domain"].get(e, 0) + 1
        if fl.get(i) and fl[i][0]["in_domain_o"] and fl[i][0]["has_ordered"]:
            o_first.append(i)
    ctx.coverage.update({
        "evaluations": n,
        "distinct_nontrivial": nt,
        "rule": "random structured rulebooks (nesting<=4, *, ~, */re/, %global, %parent, %force_commit, six common logics, "
                "%ordered/%rewrite in part of the cases), 8 block vendors, ordering rulebooks (60%) incl. %order_reverse; "
                "old drawn slot-aware from the rules, chains new_1..new_k (k<=4) by slot-aware mutation; distinct by "
                "(vendor, rulebooks, old, chain); non-trivial = first step inside the domain wf_step (decided by Coq), "
                ">= 3 command paths, at least one nested.  Plus a separately seeded stream of %ordered chains (one "
                "%ordered rule `entry *` / `entry * *` / `entry ~` at config depth 1-3, bodies of 0-2 levels incl. nested "
                "%ordered, default/undo_redo/permanent/ignore_changes rules beside it; per step 1-2 edits among in-place "
                "replacement of a non-last entry, insertion in the middle, append, removal, swap, rotation, reversal, "
                "move, re-texting inside the slot, edits inside bodies and of sibling rows; see ordered_stream)",
        "samples": [{"case": payload(cases[i]), "impl_first_step_paths": outs[i]["steps"][0].get("cmd_paths")}
                    for i in dom_first[:2] + o_first[:1]],
        "ordered_stream": oh, **so,
        "traces_validated_against_impl": st["steps_evaluated"],
        "disagreements_checked": sum(1 for i in fl for f in fl[i] for a in AGREE if not f[a]),
        "chains": n, "steps_run": steps, "commands_in_patches": cmds,
        "assertion_error_steps": sum(1 for o in outs for s in o["steps"] if "err" in s),
        "chain_length_histogram": hist_len, "vendor_histogram": vend, "rulebook_feature_histogram": feats,
        **st,
    })
    ctx.assumptions += [
        "device semantics = coq/Model/Device.v (one entry per (rule,key) slot per level; DESIGN §3.C01); for %ordered "
        "rules: a new row lands at the tail of its level, a re-texted row is re-created at the tail, and the relative "
        "order of the rows of %ordered rules on a level is part of the state (Spec/P_C01o.v)",
        "ordered reading evaluated in wf_step_o: one %ordered rule per level, only default/undo_redo/ordered rules below an "
        "%ordered row, an ordering rulebook that gives the direct commands of the %ordered rows of a level one sort key",
        "rule patterns restricted to the plain rule language of Model/Pattern.v (C07)",
        "not modelled: %ignore_case re-keying, %multiline, %comment/add_comments, vendor %logic/%diff_logic functions, "
        "Juniper/Nokia/RouterOS flattened command forms on the device",
    ]


def replay(ctx, doc):
    """re-run the stored chain through the real pipeline and let Coq evaluate P_C01's clauses again"""
    r = doc["replay"]
    if "hw" in r.get("case", {}) and "path" in r["case"]:
        from .. import shipped_run
        return shipped_run.c01_replay(ctx, doc, ID)
    c = dict(r["case"])
    st = r.get("structured")
    out = core.run_impl("c01_runner.py", [c])[0]
    print("vendor:", c["vendor"])
    print(c["patching"])
    print("-- ordering:\n" + c["ordering"])
    for k, s_ in enumerate(out["steps"]):
        print(f"step {k}: old={s_['old']}\n  new={s_['new']}\n  cmd_paths={s_.get('cmd_paths')}\n  device after={s_.get('dev')}"
              f"\n  second={s_.get('second')}")
    if not st:
        return 1
    c.update(rules=st["rules"], orules=st["orules"])
    res = evaluate(ctx, [c], [out], tag="replay")
    bad = False
    for k, fl in enumerate(res["flags"].get(0, [])):
        failing = [x for x in CLAUSES if fl["in_domain"] and not fl[x]] + \
                  [x for x in CLAUSES_O if fl["in_domain_o"] and not fl[x] and x not in CLAUSES]
        disagree = [a for a in AGREE if not fl[a]]
        print(f"step {k}: in_domain={fl['in_domain']} in_ordered_domain={fl['in_domain_o']} failing_clauses={failing} "
              f"disagreements={disagree}")
        bad = bad or bool(failing) or bool(disagree)
    return 1 if bad else 0
