"""C05 — offside rule and refusal of bad indentation (DESIGN §3.C05)."""
from __future__ import annotations

import itertools

from .. import core
from ..core import cstr, clist, cpair, cforest, cnat

ID = "C05"
THEOREM_FILE = "Properties/C05.v"
IMPORTS = "From Annet Require Import Base.Str Base.Tree Model.Offside Spec.P_C05."
TY = "(list string * string) * result"
META = {
    "text": "Proof: for every comment tuple and every text the model of parse_to_tree (indent-increment stack, "
            "_stacked, odict insertion) equals the declarative offside reference (nearest preceding line with "
            "smaller indentation; ParserError at the first line returning to a column no open block started at, "
            "with its line number). Correspondence: Coq evaluates model==implementation and the reference predicate "
            "on parse_to_tree's real outputs over exhaustive small texts and random longer ones.",
    "technique": "Coq induction over line lists with a chain-of-open-blocks invariant; vm_compute differential check",
}


def gen_cases(ctx) -> list[dict]:
    rng = ctx.rng("gen")
    cases = []
    # exhaustive small scope
    max_lines, max_ind = (5, 4) if ctx.thorough else (3, 3)
    opts = [" " * i + w for i in range(max_ind + 1) for w in (("a", "b") if ctx.thorough else ("a",))]
    opts += ["#", "! c", ""] if not ctx.thorough else ["#", " !c", ""]
    if ctx.thorough:
        opts = [o for o in opts]
    for n in range(1, max_lines + 1):
        for combo in itertools.product(opts, repeat=n):
            cases.append({"comments": ["!", "#"], "text": "\n".join(combo), "src": "exhaustive"})
    n_exh = len(cases)
    # random longer texts
    n_rand = 20000 if ctx.thorough else 1500
    words = ["a", "b", "c", "a b", "x  y", "quit", "#tag", "!x"]
    for _ in range(n_rand):
        nlines = rng.randint(1, 12)
        off = rng.choice([0, 0, 0, 1, 2, 3])
        lines = []
        cur = 0
        widths = [rng.randint(1, 3) for _ in range(8)]
        stack = [0]
        for _ in range(nlines):
            r = rng.random()
            if r < 0.06:
                lines.append(rng.choice(["", "   ", "\t"]))
                continue
            if r < 0.12:
                lines.append(" " * rng.randint(0, 4) + rng.choice(["! note", "!", "# x"]) if rng.random() < 0.7 else "#")
                continue
            if r < 0.16:
                lines.append(rng.choice(["#", "# sect", "#x"]))
                if rng.random() < 0.8:
                    stack = [0]
                continue
            # mostly-valid move: child / sibling / dedent to an open column; sometimes a bad column
            m = rng.random()
            if m < 0.35:
                stack.append(stack[-1] + rng.choice(widths))
            elif m < 0.65:
                pass
            elif m < 0.9:
                k = rng.randint(1, len(stack))
                stack = stack[:k]
            else:
                col = rng.randint(0, stack[-1] + 2)
                stack = [c for c in stack if c < col] + [col]
            ind = off + stack[-1]
            if rng.random() < 0.05:
                ind = max(0, ind - rng.randint(1, 3))
            ws = "".join(rng.choice([" ", " ", " ", "\t"]) if rng.random() < 0.15 else " " for _ in range(ind))
            lines.append(ws + rng.choice(words) + rng.choice(["", "", " ", "  "]))
        comments = rng.choice([["!", "#"], ["!", "#"], ["!"], ["#"], [], ["!", "#", "quit"]])
        cases.append({"comments": comments, "text": "\n".join(lines) + rng.choice(["", "\n"]), "src": "random"})
    ctx.coverage["input_distribution"] = {"exhaustive": n_exh, "random": n_rand,
                                          "exhaustive_scope": f"<= {max_lines} lines over {len(opts)} line shapes"}
    return cases


def coq_result(o: dict) -> str:
    if "ok" in o:
        return f"(Ok {cforest(o['ok'])})"
    if "err" in o:
        return f"(Err {cnat(o['err'][0])} {cstr(o['err'][1])})"
    raise core.CheckFailure(f"unexpected implementation outcome {o}")


def depth(t: dict) -> int:
    return 0 if not t else 1 + max(depth(v) for v in t.values())


def run(ctx):
    rep = core.proof_stage(ctx, THEOREM_FILE)
    cases = gen_cases(ctx)
    outs = core.run_impl_sharded("c05_runner.py", [{"comments": c["comments"], "text": c["text"]} for c in cases])
    terms = []
    for c, o in zip(cases, outs):
        x = cpair(clist(cstr(m) for m in c["comments"]), cstr(c["text"]))
        terms.append(cpair(x, coq_result(o)))
    preds = {
        "agree": "fun c => result_eqb (parse_text (fst (fst c)) (snd (fst c))) (snd c)",
        "holds": "fun c => P_C05 (fst c) (snd c)",
    }
    res = core.run_case_files(ID, TY, IMPORTS, preds, terms, per_file=400)
    seen = set()
    nontrivial = 0
    hist = {"ok": 0, "err": 0}
    for c, o in zip(cases, outs):
        h = core.canon_hash([c["comments"], c["text"]])
        hist["ok" if "ok" in o else "err"] += 1
        if h in seen:
            continue
        seen.add(h)
        if "err" in o or depth(o["ok"]) >= 2:
            nontrivial += 1
    ctx.coverage.update({
        "evaluations": len(cases),
        "distinct_nontrivial": nontrivial,
        "rule": "texts enumerated exhaustively in a small scope plus random mostly-valid texts; distinct by "
                "(comments,text); non-trivial = the implementation raised ParserError or built nesting depth >= 2",
        "samples": [{"input": {"comments": c["comments"], "text": c["text"]}, "impl": o}
                    for c, o in list(zip(cases, outs))[-3:]],
        "traces_validated_against_impl": len(cases),
        "disagreements_checked": len(res["agree"]),
        "outcome_histogram": hist,
        "exhaustive": False,
    })
    for i in res["holds"]:
        ctx.add_violation(core.Violation(
            signature="C05/impl-output-differs-from-offside-reference",
            what="parse_to_tree result differs from the declarative offside reference",
            replay={"case": cases[i], "impl": outs[i]}))
    if not res["holds"]:
        for i in res["agree"][:1]:
            ctx.add_violation(core.Violation(
                signature="C05/model-impl-disagree",
                what="Coq model parse_text and parse_to_tree differ (correspondence broken); "
                     "P_C05 holds on all implementation outputs explored",
                replay={"correspondence": "Model.Offside.parse_text vs annet.tabparser.parse_to_tree",
                        "case": cases[i], "impl": outs[i]}, no_input=True))
    ctx.assumptions += [
        "str.strip/startswith/split modelled for ASCII text (space, \\t..\\r as whitespace)",
    ]


def replay(ctx, doc):
    c = doc["replay"]["case"]
    out = core.run_impl("c05_runner.py", [{"comments": c["comments"], "text": c["text"]}])[0]
    x = cpair(clist(cstr(m) for m in c["comments"]), cstr(c["text"]))
    res = core.run_case_files(ID, TY, IMPORTS, {"holds": "fun c => P_C05 (fst c) (snd c)"},
                              [cpair(x, coq_result(out))], tag="replay")
    print("impl:", out, "holds:", not res["holds"])
    return 1 if res["holds"] else 0
