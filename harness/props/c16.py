"""C16 — file mode and device mode compute the same diff and the same patch (DESIGN §3.C16)."""
from __future__ import annotations

from .. import core, pipeline as P
from ..core import cstr, clist, copt, cpair, cforest

ID = "C16"
THEOREM_FILE = "Properties/C16.v"
META = {
    "text": "Proof: the data flow of _diff_and_patch and _read_old_new_diff_patch is re-read from annet/api/__init__.py "
            "on every run (coq/Gen/Src_api.v); C16_same proves, for every vendor, rulebook, ordering and config pair "
            "and for ANY rule logic, that both front ends return the same stripped diff, patch tree and command paths, "
            "because both build the patch from the same diff; C16_strip_first_refuted shows the pre-fix flow differs. "
            "Text level (the reader both front ends share, parse_to_tree on a dump text): proved for all inputs on the "
            "model of the parser that comment/blank lines, trailing blanks and the left margin of every '#'-terminated "
            "section (VRP5 style) do not change the outcome (C16_text_*_neutral), that the '#' lines may be dropped only "
            "when every section starts in column 0, and that a reader dropping the '!'/'#' lines before parsing reads "
            "another tree from a VRP5-style dump (C16_text_dropping_marked_lines_refuted). "
            "Correspondence (tested, not proved): both real front ends run on the shipped before/after corpus, cross "
            "pairs per hardware and synthetic rulebooks; on a share of the pairs both start from vendor-style dump TEXTS "
            "with such noise (device side: parse_to_tree as annet.gen calls it, then _diff_and_patch; file side: real "
            "files through _read_old_new_hw and _read_old_new_diff_patch, and file_patch_worker / file_diff_worker "
            "themselves on a part of them). Coq evaluates P_C16 / P_C16t on the real outputs (equal trees read, equal "
            "diff, patch, command paths, and the workers' printed text equal to the text formatted from the device "
            "side's result: plain string equality of two real outputs) and the model's agreement with each side "
            "(front ends on synthetic rulebooks; parse model = real parse on every dump text).",
    "technique": "regenerated data-flow table + Coq proof by computation; unbounded induction over the line/item stream "
                 "for the text-level laws; vm_compute equality check on the two real front ends",
    "note": "The file reader itself (_read_device_config: open/read, hw guessing) is not in the model; it is tied to the "
            "device-side parse by the correspondence run only. Hardware guessing (no --hw) is outside the comparison.",
}
IMPORTS = P.PIPE_IMPORTS + "\nFrom Annet Require Import Spec.P_C16."
# the predicate on observed outputs alone: independent of the regenerated data-flow table (Gen/Src_api.v)
IMPORTS_OBS = P.PIPE_IMPORTS + "\nFrom Annet Require Import Spec.P_C16o."
# the text level: dump texts, the trees each side read from them, the front ends' outputs and the workers' printed texts
IMPORTS_TEXT = P.PIPE_IMPORTS + "\nFrom Annet Require Import Spec.P_C16o Spec.P_C16t."
# ... plus the model of the reader (needs the regenerated vendor table Gen/Src_vendors.v)
IMPORTS_READER = IMPORTS_TEXT + "\nFrom Annet Require Import Spec.P_C16r."


def coq_side(s: dict) -> tuple[str, str, str]:
    if "err" in s:
        return "[]", "None", "[]"
    return P.coq_diff(s["diff"]), copt(P.coq_ptree(s["patch"])), P.coq_paths(s["paths"])


def coq_obs(r: dict) -> str:
    return "(Obs16 " + " ".join(coq_side(r["dev"]) + coq_side(r["file"])) + ")"


def coq_obs_text(r: dict) -> str:
    w = r.get("workers") or {}
    printed = [cpair(cstr(w["dev_" + k]), cstr(w["file_" + k])) for k in ("patch", "diff") if ("dev_" + k) in w]
    fo = copt(None if r["file_old"] is None else cforest(r["file_old"]))
    fn = copt(None if r["file_new"] is None else cforest(r["file_new"]))
    return (f"(Obs16t {cstr(r['vendor'])} {cstr(r['old_text'])} {cstr(r['new_text'])} {cforest(r['old'])} {cforest(r['new'])} "
            f"{fo} {fn} {coq_obs(r)} {clist(printed)})")


def text_stage(ctx, recs: list, skipped: list) -> dict:
    """the jobs the runner took through the TEXT level: vendor-style dump texts with neutral noise, device side parsed
    as annet.gen does, file side through the real files and (on a share) the file workers themselves."""
    obs = recs
    terms = [coq_obs_text(r) for r in obs]
    try:
        res = core.run_case_files(ID, "obs16t", IMPORTS_READER,
                                  {"holds": "P_C16t", "agree_reader": "agree_reader", "modelled": "reader_vendor_modelled"},
                                  terms, per_file=40, tag="text")
    except core.CheckFailure:
        # the reader model does not build (the vendor table could not be regenerated from a changed source):
        # the property predicate on the real outputs does not depend on it
        res = core.run_case_files(ID, "obs16t", IMPORTS_TEXT, {"holds": "P_C16t"}, terms, per_file=40, tag="text")
        res["agree_reader"], res["modelled"] = [], list(range(len(terms)))
    for i in res["holds"][:3]:
        r = obs[i]
        w = r.get("workers") or {}
        if r["file_old"] != r["old"] or r["file_new"] != r["new"]:
            what, sig = "the file reader and the device-side parse read different trees from the same dump text", "reader"
        elif r["dev"] != r["file"]:
            what, sig = "file mode and device mode differ on the same dump texts", "front-ends"
        else:
            what, sig = "file_patch_worker / file_diff_worker print a different text than the device side's result formats to", "workers"
        ctx.add_violation(core.Violation(
            signature=f"C16/file-and-device-mode-differ/dump-text/{sig}/{r['style']}",
            what=f"{what}: {r['name']} on {r['hw']} ({r['style']} style)",
            replay={"hw": r["hw"], "style": r["style"], "old_text": r["old_text"], "new_text": r["new_text"],
                    "device": r["dev"], "file": r["file"], "file_old": r["file_old"], "file_new": r["file_new"],
                    "device_old": r["old"], "device_new": r["new"], "workers": w}))
    if not res["holds"]:
        for i in res["agree_reader"][:1]:
            r = obs[i]
            ctx.add_violation(core.Violation(
                signature="C16/model-impl-disagree/agree_reader",
                what="the Coq model of parse_to_tree(text, vendor split) and the real parse differ on a dump text; "
                     "both front ends agree with each other on everything explored",
                replay={"correspondence": "agree_reader", "vendor": r["vendor"], "old_text": r["old_text"],
                        "new_text": r["new_text"], "device_old": r["old"], "device_new": r["new"]}, no_input=True))
    hist, skips = {}, {}
    for r in skipped:
        key = f"{r['family']}/{r['style']}: {r['skip']}"
        skips[key] = skips.get(key, 0) + 1
    for r in recs:
        key = f"{r['family']}/{r['style']}"
        hist[key] = hist.get(key, 0) + 1
    def has_shifted_section(t):
        ls = t.split("\n")
        return any(a.startswith("#") and b.startswith(" ") for a, b in zip(ls, ls[1:]))
    return {"recs": recs, "obs": obs, "res": res, "hist": hist, "skips": skips,
            "shifted": sum(1 for r in obs if has_shifted_section(r["old_text"]) or has_shifted_section(r["new_text"])),
            "workers": sum(1 for r in obs if r.get("workers")),
            "modelled": len(obs) - len(res["modelled"])}


def run(ctx):
    import time
    t0 = time.time()
    walls = {}
    rep = core.proof_stage(ctx, THEOREM_FILE)
    walls["proof"] = round(time.time() - t0, 1)
    # if the theorem file no longer builds (e.g. the front ends' data flow changed and Gen/Src_api.v cannot be
    # regenerated or the proof by computation fails) the search for a concrete failing input goes on with the
    # table-independent predicate on the two real front ends' outputs
    imports = IMPORTS if rep.compiled else IMPORTS_OBS
    # (a) shipped corpus and cross pairs through both real front ends
    nsh = 16
    payloads = [{"mode": "corpus", "pairs": 4000 if ctx.thorough else 400, "seed": ctx.seed, "shard": [k, nsh],
                 "all_cross": False, "text_share": 0.3 if ctx.thorough else 0.4, "text_workers": 0.4} for k in range(nsh)]
    from concurrent.futures import ThreadPoolExecutor
    with ThreadPoolExecutor(nsh) as ex:
        parts = list(ex.map(lambda p: core.run_impl("c16_runner.py", p, timeout=1500), payloads))
    allrecs = [r for part in parts for r in part]
    obs = [r for r in allrecs if "old_text" not in r]
    text_recs = [r for r in allrecs if "old_text" in r]
    terms = [coq_obs(r) for r in obs]
    res = core.run_case_files(ID, "obs16", IMPORTS_OBS, {"holds": "P_C16"}, terms, per_file=60, tag="corpus")
    for i in res["holds"][:3]:
        r = obs[i]
        ctx.add_violation(core.Violation(
            signature="C16/file-and-device-mode-differ/shipped-rulebook",
            what=f"file mode and device mode differ for {r['name']} on {r['hw']}",
            replay={"hw": r["hw"], "old": r["old"], "new": r["new"], "device": r["dev"], "file": r["file"]}))
    nontrivial = set()
    for r in obs:
        if len(r["dev"].get("paths", [])) >= 2:
            nontrivial.add(core.canon_hash([r["hw"], r["old"], r["new"]]))
    walls["corpus"] = round(time.time() - t0, 1)
    # (c) the TEXT level (before the synthetic stage only in this listing; independent of it)
    tx = text_stage(ctx, text_recs, [r["text_skipped"] for r in obs if "text_skipped" in r])
    walls["text"] = round(time.time() - t0, 1)
    for r in tx["obs"]:
        if len(r["dev"].get("paths", [])) >= 2:
            nontrivial.add(core.canon_hash([r["hw"], r["old_text"], r["new_text"]]))
    # (b) synthetic rulebooks: model agreement for both modes + equality
    rng = ctx.rng("synthetic")
    n = 3000 if ctx.thorough else 400
    cases = [P.gen_case(rng, vendors=list(P.BLOCK_VENDORS)) for _ in range(n)]
    outs = core.run_impl_sharded("pipeline_runner.py", [P.impl_payload(c, file_mode=True) for c in cases])
    keep = [i for i, o in enumerate(outs) if "fatal" not in o]
    sterms = []
    for i in keep:
        o = outs[i]
        dev = {"err": 1} if o.get("err") else {"diff": o["diff"], "patch": o["patch"], "paths": o["cmd_paths"]}
        fil = {"err": 1} if o.get("file_err") else {"diff": o["file_diff"], "patch": o["file_patch"], "paths": o["file_cmd_paths"]}
        sterms.append(f"({P.coq_pcase(cases[i], o)}, {coq_obs({'dev': dev, 'file': fil})})")
    preds = {
        "holds": "fun x => P_C16 (snd x)",
        "agree_device": "fun x => agree_patch (fst x) && agree_diff (fst x)",
        "agree_file": ("fun x => let c := fst x in let m := file_mode (pc_vendor c) (pc_rules c) (pc_ordering c) (pc_old c) (pc_new c) in "
                       "match snd m, o_file_patch (snd x) with POk a, Some b => ptree_eqb a b && diff_eqb (fst m) (o_file_diff (snd x)) "
                       "| PErr, None => true | _, _ => false end"),
    }
    if not rep.compiled:
        del preds["agree_file"]
    sres = core.run_case_files(ID, "pcase * obs16", imports, preds, sterms, per_file=40, tag="synthetic")
    sres.setdefault("agree_file", [])
    for j in sres["holds"][:3]:
        i = keep[j]
        ctx.add_violation(core.Violation(
            signature="C16/file-and-device-mode-differ/synthetic-rulebook",
            what="file mode and device mode differ on a synthetic rulebook",
            replay={"case": {k: cases[i][k] for k in ("vendor", "patching", "ordering", "old", "new")}, "impl": outs[i]}))
    if not res["holds"] and not sres["holds"] and not tx["res"]["holds"]:
        for lab in ("agree_device", "agree_file"):
            for j in sres[lab][:1]:
                i = keep[j]
                ctx.add_violation(core.Violation(
                    signature=f"C16/model-impl-disagree/{lab}",
                    what=f"Coq model and implementation differ ({lab}); both front ends agree with each other on everything explored",
                    replay={"correspondence": lab, "case": {k: cases[i][k] for k in ("vendor", "patching", "ordering", "old", "new")},
                            "impl": outs[i]}, no_input=True))
    for i in keep:
        if len(outs[i].get("cmd_paths", [])) >= 2:
            nontrivial.add(core.canon_hash([cases[i][k] for k in ("vendor", "patching", "ordering", "old", "new")]))
    hw_hist = {}
    for r in allrecs:
        hw_hist[r["hw"]] = hw_hist.get(r["hw"], 0) + 1
    ctx.coverage.update({
        "evaluations": len(obs) + len(cases) + len(tx["obs"]),
        "distinct_nontrivial": len(nontrivial),
        "rule": "shipped before/after samples, random cross pairs of their sides per hardware (a share of them as noisy "
                "dump texts), and synthetic rulebooks; distinct by (hw/vendor, rulebook, old, new) resp. (hw, old text, "
                "new text); non-trivial = device-mode patch has >= 2 command paths",
        "samples": [{"name": r["name"], "hw": r["hw"], "device_paths": r["dev"].get("paths"), "file_paths": r["file"].get("paths")}
                    for r in obs[:2]],
        "traces_validated_against_impl": len(obs) + len(keep) + tx["modelled"],
        "disagreements_checked": len(sres["agree_device"]) + len(sres["agree_file"]) + len(tx["res"]["agree_reader"]),
        "stage_end_wall_s": walls, "text_level_cases": len(tx["obs"]), "text_level_style_histogram": tx["hist"],
        "text_level_skipped": tx["skips"], "text_level_with_shifted_section_after_hash": tx["shifted"],
        "text_level_file_workers_run": tx["workers"], "text_level_reader_modelled": tx["modelled"],
        "corpus_pairs": len(obs), "synthetic_cases": len(cases), "hw_histogram": hw_hist,
        "front_end_errors": sum(1 for r in obs if "err" in r["dev"] or "err" in r["file"]),
        "file_side_through_real_files": sum(1 for r in obs if r.get("via_files")) + len(text_recs),
    })
    ctx.assumptions += ["no ACL, implicit defaults off (as the property states)",
                        "corpus pairs whose vendor text round-trips (join -> file -> parse gives the tree back) go "
                        "through the real file reader api._read_old_new_hw with args.hw = the model string, as "
                        "file_patch_worker does; the others and the synthetic rulebooks call _read_old_new_diff_patch "
                        "on the trees; hw guessing (no --hw) is not part of the comparison",
                        "text level: a case is kept only when the noisy dump text parses back to the original tree on the "
                        "DEVICE side (parse_to_tree with the vendor's split, as annet.gen calls it); the others are counted "
                        "in text_level_skipped and go through the tree level instead",
                        "the file workers' printed patch/diff text is compared (String.eqb in Coq) with the text the same "
                        "formatting functions give for the device side's result; labels and colours are not compared"]


def replay(ctx, doc):
    r = doc["replay"]
    if "old_text" in r:   # a text-level case: the two dump texts are the failing input
        print(f"hw={r.get('hw')!r} style={r.get('style')}\n--- old text\n{r['old_text']}\n--- new text\n{r['new_text']}")
        print("same trees read:", r.get("file_old") == r.get("device_old") and r.get("file_new") == r.get("device_new"))
    print(r.get("device", {}).get("paths"), r.get("file", {}).get("paths"))
    return 1
