"""C16 — file mode and device mode compute the same diff and the same patch (DESIGN §3.C16)."""
from __future__ import annotations

from .. import core, pipeline as P
from ..core import cstr, clist, copt

ID = "C16"
THEOREM_FILE = "Properties/C16.v"
META = {
    "text": "Proof: the data flow of _diff_and_patch and _read_old_new_diff_patch is re-read from annet/api/__init__.py "
            "on every run (coq/Gen/Src_api.v); C16_same proves, for every vendor, rulebook, ordering and config pair "
            "and for ANY rule logic, that both front ends return the same stripped diff, patch tree and command paths, "
            "because both build the patch from the same diff; C16_strip_first_refuted shows the pre-fix flow differs. "
            "Correspondence: both real front ends run on the shipped before/after corpus, cross pairs per hardware and "
            "synthetic rulebooks; Coq evaluates their equality (P_C16) and the model's agreement with each.",
    "technique": "regenerated data-flow table + Coq proof by computation; vm_compute equality check on the two real front ends",
}
IMPORTS = P.PIPE_IMPORTS + "\nFrom Annet Require Import Spec.P_C16."
# the predicate on observed outputs alone: independent of the regenerated data-flow table (Gen/Src_api.v)
IMPORTS_OBS = P.PIPE_IMPORTS + "\nFrom Annet Require Import Spec.P_C16o."


def coq_side(s: dict) -> tuple[str, str, str]:
    if "err" in s:
        return "[]", "None", "[]"
    return P.coq_diff(s["diff"]), copt(P.coq_ptree(s["patch"])), P.coq_paths(s["paths"])


def coq_obs(r: dict) -> str:
    return "(Obs16 " + " ".join(coq_side(r["dev"]) + coq_side(r["file"])) + ")"


def run(ctx):
    rep = core.proof_stage(ctx, THEOREM_FILE)
    # if the theorem file no longer builds (e.g. the front ends' data flow changed and Gen/Src_api.v cannot be
    # regenerated or the proof by computation fails) the search for a concrete failing input goes on with the
    # table-independent predicate on the two real front ends' outputs
    imports = IMPORTS if rep.compiled else IMPORTS_OBS
    # (a) shipped corpus and cross pairs through both real front ends
    nsh = 16
    payloads = [{"mode": "corpus", "pairs": 4000 if ctx.thorough else 400, "seed": ctx.seed, "shard": [k, nsh],
                 "all_cross": False} for k in range(nsh)]
    from concurrent.futures import ThreadPoolExecutor
    with ThreadPoolExecutor(nsh) as ex:
        parts = list(ex.map(lambda p: core.run_impl("c16_runner.py", p, timeout=1500), payloads))
    obs = [r for part in parts for r in part]
    terms = [coq_obs(r) for r in obs]
    res = core.run_case_files(ID, "obs16", IMPORTS_OBS, {"holds": "P_C16"}, terms, per_file=60, tag="corpus")
    for i in res["holds"][:3]:
        r = obs[i]
        ctx.add_violation(core.Violation(
            signature="C16/file-and-device-mode-differ/shipped-rulebook",
            what=f"file mode and device mode differ for {r['name']} on {r['hw']}",
            replay={"hw": r["hw"], "old": r["old"], "new": r["new"], "device": r["dev"], "file": r["file"]}))
    nontrivial = set()
    for r in obs:
        if len(r["dev"].get("paths", [])) >= 2:
            nontrivial.add(core.canon_hash([r["hw"], r["old"], r["new"]]))
    # (b) synthetic rulebooks: model agreement for both modes + equality
    rng = ctx.rng("synthetic")
    n = 3000 if ctx.thorough else 400
    cases = [P.gen_case(rng, vendors=list(P.BLOCK_VENDORS)) for _ in range(n)]
    outs = core.run_impl_sharded("pipeline_runner.py", [P.impl_payload(c, file_mode=True) for c in cases])
    keep = [i for i, o in enumerate(outs) if "fatal" not in o]
    sterms = []
    for i in keep:
        o = outs[i]
        dev = {"err": 1} if o.get("err") else {"diff": o["diff"], "patch": o["patch"], "paths": o["cmd_paths"]}
        fil = {"err": 1} if o.get("file_err") else {"diff": o["file_diff"], "patch": o["file_patch"], "paths": o["file_cmd_paths"]}
        sterms.append(f"({P.coq_pcase(cases[i], o)}, {coq_obs({'dev': dev, 'file': fil})})")
    preds = {
        "holds": "fun x => P_C16 (snd x)",
        "agree_device": "fun x => agree_patch (fst x) && agree_diff (fst x)",
        "agree_file": ("fun x => let c := fst x in let m := file_mode (pc_vendor c) (pc_rules c) (pc_ordering c) (pc_old c) (pc_new c) in "
                       "match snd m, o_file_patch (snd x) with POk a, Some b => ptree_eqb a b && diff_eqb (fst m) (o_file_diff (snd x)) "
                       "| PErr, None => true | _, _ => false end"),
    }
    if not rep.compiled:
        del preds["agree_file"]
    sres = core.run_case_files(ID, "pcase * obs16", imports, preds, sterms, per_file=40, tag="synthetic")
    sres.setdefault("agree_file", [])
    for j in sres["holds"][:3]:
        i = keep[j]
        ctx.add_violation(core.Violation(
            signature="C16/file-and-device-mode-differ/synthetic-rulebook",
            what="file mode and device mode differ on a synthetic rulebook",
            replay={"case": {k: cases[i][k] for k in ("vendor", "patching", "ordering", "old", "new")}, "impl": outs[i]}))
    if not res["holds"] and not sres["holds"]:
        for lab in ("agree_device", "agree_file"):
            for j in sres[lab][:1]:
                i = keep[j]
                ctx.add_violation(core.Violation(
                    signature=f"C16/model-impl-disagree/{lab}",
                    what=f"Coq model and implementation differ ({lab}); both front ends agree with each other on everything explored",
                    replay={"correspondence": lab, "case": {k: cases[i][k] for k in ("vendor", "patching", "ordering", "old", "new")},
                            "impl": outs[i]}, no_input=True))
    for i in keep:
        if len(outs[i].get("cmd_paths", [])) >= 2:
            nontrivial.add(core.canon_hash([cases[i][k] for k in ("vendor", "patching", "ordering", "old", "new")]))
    hw_hist = {}
    for r in obs:
        hw_hist[r["hw"]] = hw_hist.get(r["hw"], 0) + 1
    ctx.coverage.update({
        "evaluations": len(obs) + len(cases),
        "distinct_nontrivial": len(nontrivial),
        "rule": "shipped before/after samples, random cross pairs of their sides per hardware, and synthetic rulebooks; "
                "distinct by (hw/vendor, rulebook, old, new); non-trivial = device-mode patch has >= 2 command paths",
        "samples": [{"name": r["name"], "hw": r["hw"], "device_paths": r["dev"].get("paths"), "file_paths": r["file"].get("paths")}
                    for r in obs[:2]],
        "traces_validated_against_impl": len(obs) + len(keep),
        "disagreements_checked": len(sres["agree_device"]) + len(sres["agree_file"]),
        "corpus_pairs": len(obs), "synthetic_cases": len(cases), "hw_histogram": hw_hist,
        "front_end_errors": sum(1 for r in obs if "err" in r["dev"] or "err" in r["file"]),
        "file_side_through_real_files": sum(1 for r in obs if r.get("via_files")),
    })
    ctx.assumptions += ["no ACL, implicit defaults off (as the property states)",
                        "corpus pairs whose vendor text round-trips (join -> file -> parse gives the tree back) go "
                        "through the real file reader api._read_old_new_hw with args.hw = the model string, as "
                        "file_patch_worker does; the others and the synthetic rulebooks call _read_old_new_diff_patch "
                        "on the trees; hw guessing (no --hw) is not part of the comparison"]


def replay(ctx, doc):
    r = doc["replay"]
    print(r.get("device", {}).get("paths"), r.get("file", {}).get("paths"))
    return 1
